#!/usr/bin/env python3
"""Assemble MANIFEST.json from manifest.d/*.json and known_findings.json from findings/*.json."""
import glob, json, os
V = os.path.dirname(os.path.dirname(os.path.abspath(__file__)))
props = [json.loads(l) for l in open(os.path.join(V, 'properties.jsonl'))]
checks = {}
integrated = set(json.load(open(os.path.join(V, 'manifest.d', 'integrated.json'))))
for f in sorted(glob.glob(os.path.join(V, 'manifest.d', 'C*.json'))):
    c = json.load(open(f))
    if c['property_id'] in integrated:       # fragments of checks still under construction are not claimed
        checks[c['property_id']] = c
na_reasons = {}
p = os.path.join(V, 'manifest.d', 'not_applicable.json')
if os.path.exists(p):
    na_reasons = json.load(open(p))
man = {
 "version": 1,
 "setup_cmd": "./setup.sh",
 "hooks": {"guard": "NFCPY_VERIF",
           "enable": "no source hooks: all instrumentation is done from the harness by rebinding module attributes at run time (DESIGN.md section 9)",
           "baseline_off_cmd": "python3 /verif/tools/baseline.py", "source_commits": [], "add_only": True},
 "engines": [
  {"name": "coq", "path": "coq/", "serves_properties": sorted(checks),
   "kind_free_text": "Coq 8.16.1 development: executable Gallina models (Model/), proofs (Proofs/), property statements (Props/), kernels and skeletons regenerated from /repo on every run (Gen/, translate/) with bridge lemmas (Bridge/)"},
  {"name": "correspondence", "path": "harness/", "serves_properties": sorted(checks),
   "kind_free_text": "differential run of the real nfcpy code (simulated tags/air/chipsets) against the OCaml extraction of the models, plus independent monitors and violation search"}],
 "checks": [checks[k] for k in sorted(checks)],
 "not_applicable": [{"property_id": p['id'], "reason": na_reasons.get(p['id'], "check not built yet (model/proof under construction; DESIGN.md section 10 build order)")}
                    for p in props if p['id'] not in checks],
 "notes": "see DESIGN.md; ./check <Cxx> --tier quick|thorough; fixes of genuine defects are 'fix:' commits in /repo listed in known_findings.json"
}
json.dump(man, open(os.path.join(V, 'MANIFEST.json'), 'w'), indent=1)
kf = {"_doc": "Genuine defects of the pinned nfcpy tree. 'findings' (still open) are reported as KNOWN-FINDING (exit 0) when a check re-finds exactly that input class / call site: 'key' is a regex matched against the key the check computes for a concrete failure. 'fixed' entries suppress nothing. Assembled from findings/*.json by tools/mkmanifest.py.",
      "findings": [], "fixed": []}
for f in sorted(glob.glob(os.path.join(V, 'findings', 'C*.json'))):
    d = json.load(open(f))
    kf['findings'] += d.get('findings', [])
    kf['fixed'] += d.get('fixed', [])
json.dump(kf, open(os.path.join(V, 'known_findings.json'), 'w'), indent=1)
try:
    import jsonschema
    jsonschema.validate(man, json.load(open('/root/.vp/MANIFEST.schema.json')))
    print('MANIFEST valid: %d checks, %d not_applicable' % (len(man['checks']), len(man['not_applicable'])))
except ImportError:
    print('written (jsonschema not available for validation)')
