#!/bin/bash
# tools/refb_integrate.sh cXX : run the second-round harmless rewrites of one sub-agent (/tmp/refb_cXX_out/<i>) -> refactors/CXX-r<3+i>
low="$1"; up=$(echo "$low" | tr c C)
git -C /repo worktree remove --force /tmp/refb_$low 2>/dev/null
for d in /tmp/refb_${low}_out/*/; do
  i=$(basename "$d"); [ -f "$d/patch.diff" ] || continue
  bash /verif/tools/run_refactor.sh "$d" "$up-r$((3+i))" | tail -1
done
rm -rf /tmp/refb_${low}_out
