#!/bin/bash
# tools/run_refactor.sh <src-dir with patch.diff equiv.py meta.json> <id like C04-r1>
# A behaviour-preserving rewrite of nfcpy: confirm (digest of equiv.py equal on clean and patched tree, pinned suite
# passes), run the property's quick check against it, classify: pass | proof-only (no-failing-input-found) |
# CONCRETE (a concrete violation on code where the property holds = false alarm of the machinery).
src="$1"; id="$2"; prop="${id%%-*}"
wt=$(mktemp -d /tmp/refwt.XXXXXX); rmdir "$wt"
git -C /repo worktree add --detach "$wt" HEAD -q || exit 2
cd /verif
d0=$(PYTHONPATH="$wt/src" timeout 300 /venv/bin/python "$src/equiv.py" 2>&1 | tail -1)
if ! git -C "$wt" apply "$src/patch.diff" 2>/dev/null && ! git -C "$wt" apply --3way "$src/patch.diff" 2>/dev/null; then
  git -C /repo worktree remove --force "$wt"; echo "$id patch does not apply"; exit 2; fi
d1=$(PYTHONPATH="$wt/src" timeout 300 /venv/bin/python "$src/equiv.py" 2>&1 | tail -1)
suite=$(python3 /verif/tools/baseline.py "$wt" | head -1)
out=$(NV_REPO="$wt" ./check "$prop" --tier quick 2>&1 | grep -E "VIOLATION|^$prop " | head -8)
git -C /repo worktree remove --force "$wt"
mkdir -p "/verif/refactors/$id"; cp "$src/patch.diff" "$src/equiv.py" "/verif/refactors/$id/"
python3 - "$src/meta.json" "/verif/refactors/$id/meta.json" "$d0" "$d1" "$suite" "$out" <<'PY'
import json, sys
m = json.load(open(sys.argv[1]))
d0, d1, suite, out = sys.argv[3:7]
lines = [l for l in out.split('\n') if l]
viol = [l for l in lines if l.startswith('VIOLATION')]
concrete = [l for l in viol if 'no-failing-input-found' not in l]
cls = 'pass' if not viol else ('CONCRETE' if concrete else 'proof-only')
m['confirmed'] = {'equiv_digest_clean': d0[-80:], 'equiv_digest_patched': d1[-80:], 'same': d0 == d1, 'pinned_suite': suite}
m['check_result'] = {'class': cls, 'output': [l[:300] for l in lines][:6]}
json.dump(m, open(sys.argv[2], 'w'), indent=1)
print(sys.argv[2].split('/')[-2], 'equiv_same=%s' % (d0 == d1), suite.split()[-1] if suite else '?', '->', cls)
PY
