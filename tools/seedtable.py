#!/usr/bin/env python3
"""Regenerate DESIGN.md section 14 (seeded-change trials) from seeded/*/meta.json."""
import glob, json, os, re
V = os.path.dirname(os.path.dirname(os.path.abspath(__file__)))
rows = []
for d in sorted(glob.glob(os.path.join(V, 'seeded', 'C*-*'))):
    m = json.load(open(os.path.join(d, 'meta.json')))
    sid = os.path.basename(d)
    res = m.get('check_results', {})
    q = res.get('quick', {})
    how = ''
    outs = ' '.join(q.get('output', []))
    if q.get('caught'):
        how = 'proof obligation / correspondence only (no-failing-input-found)' if 'no-failing-input-found' in outs and outs.count('VIOLATION') == outs.count('no-failing-input-found') else 'concrete replay'
        mo = re.search(r'obligations=(\d+)/(\d+)', outs)
        if mo and mo.group(1) != mo.group(2):
            how += '; %s of %s obligations still discharge' % (mo.group(1), mo.group(2))
    caught = 'caught' if q.get('caught') else ('MISSED' if q else 'not run')
    if m.get('obsolete'):
        caught, how = 'no longer a breaking change', m['obsolete']
    summ = ' '.join(str(m.get('summary', '')).split())
    if len(summ) > 230:
        summ = summ[:227] + '...'
    extra = m.get('cross_check', '')
    hist = m.get('history', '')
    rows.append('| %s | %s | %s | %s%s%s |' % (sid, summ.replace('|', '/'), caught, how, ('; ' + extra) if extra else '', ('; ' + hist) if hist else ''))
text = '''## 14. Seeded-change trials (which checks catch which changes)

Each change was written by a fresh sub-agent that saw only the property text and its own scratch
worktree of nfcpy (nothing from /verif), was confirmed by `tools/verify_seed.sh` (its demonstration
passes on the clean tree and fails with the patch; the pinned test-suite still passes with the
patch) and is kept under `seeded/<id>/` (patch.diff, demo.py, meta.json).  `tools/run_seed.sh <id>`
applies it to a scratch worktree of /repo HEAD and runs the property's quick check against it
(`NV_REPO`).  "MISSED -> strengthened" in the last column means the first run missed it, the check
was strengthened (never loosened) and the run repeated.  Changes rejected by the confirmation step
(demo or pinned suite) are not kept.

Three rounds were run (prompt templates in `tools/prompts/`): ids `Cxx-N` are round 1 (the obvious slips: boundary
off-by-one, dropped mask, swapped operand, narrowed except), `Cxx-bN` round 2 (rarely used branches, vendor
subclasses, state carried over between two operations, defaults/tables, order of operations), `Cxx-cN` round 3
(well-meant maintenance gone wrong: performance shortcuts and caches, Python-3 idiom slips such as truthiness of 0 and
OSError subclasses, consolidated error handling, merged helpers, half-reverted `fix:` commits, new features whose
plumbing disturbs the old path).  Round 3 was first missed in nine of sixty cases; the classes and what was added:
error *families* instead of one representative exception (C09, C18: `IOError(ETIMEDOUT)` is `TimeoutError`, a
dictionary lookup by `type(error)` in the run-loop handler fails before `terminate()`; the run-loop handlers are now
also extracted and checked statically), simulated time (C07: a time-out hoisted out of the retry loop; now a timed
model, deadline theorems and a translation tie over the time-out expression), never-ending adversarial cards (C08:
R(ACK)/S(WTX)/chaining for ever - which also exposed a genuine hang, fix `b65ae89`), the real lower layer in the loop
(C06 now runs over the real `nfc.dep` exchange at MIU up to 2175), window-0 connection set-up PDUs and several SAPs
pending in one collect round (C10, C19), layouts that end exactly at the end of the data area (C03, plus a translation
tie for `Type2Tag._format`), and side effects on the caller's buffer (C14: the translator now rejects an in-place
`+=` on a caller-owned bytearray).  A seed whose patch no longer applies to the current HEAD (because a later `fix:`
commit rewrote the same lines) keeps the result recorded when it was run.

Round 4 (`Cxx-dN`, two per property: second use of a long-lived object, shutdown paths, protocol maxima, two layers
disagreeing on a value, argument types, lock scope) was first missed in 13 of 40 cases - the "second use" class was a
systematic gap, the checks had mostly exercised fresh objects.  Added in response: histories on ONE object (C03 sector
state, C05 successive connections, C16 commands after a failed command, C19 re-activation - which exposed the
genuine defect repaired by `f9140f7`), simulated clocks for deadlines (C07 release phase, C16 slow cards), the
critical-section shape of `terminate()` as a static obligation (C09), argument-type and `timeout` families (C10, C13),
field boundaries such as a card key version of FFFFh (C20), the chip/driver split of CRC responsibility (C14), and -
because seed C07-d2 made two checks run for ever - the hang watchdog described under "Changes".

Round 5 (`Cxx-eN`: supporting code OUTSIDE the anchored functions - base classes, package `__init__`, the frontend's
`exchange`, transports and drivers, exception hierarchy, `__str__`/`__eq__`/`__len__` used implicitly on the hot path,
cross-feature interactions) was first missed in 22 of 41 cases: the harnesses had mostly entered the code at the
anchored functions (a fake `clf.exchange`, PDU objects handed to `dispatch`, fresh tag objects).  Added in response:
a real `ContactlessFrontend` over a fake *device* (C01-C03, C12) and real drivers over chip-level fakes (C01 Type 1 > 1K,
C14 whole init/use/close sessions with every transport write validated); histories through the real `Tag.format` /
`Tag.ndef` base class; multi-system FeliCa cards; every `CommunicationError` subclass as fault (C04) and a static
obligation that the reader side of each driver raises only what the tag layer handles (C16); every value of every
enumerated PDU field and hostile octets in every byte-string field, at decoder level (`str/repr/len/==/encode` on every
decoded PDU), in live run loops and as replies to application calls (C07, C09, C18); SNEP/handover in both directions at
once with slow consumers (C06); the `nfc.llcp.Socket` wrapper with a socket-option sweep and buffer mutation (C10,
which exposed the defect repaired by `4647959`); APDU-level adversaries (C08); tamper monitoring on every data path of an
authenticated tag (C20, which exposed the defect repaired by `72d9c42`).  Most of these additions are dynamic (monitor and
correspondence); where the supporting code has no Coq model this is said in the check's assumptions.

| seed | change | quick check | how |
|---|---|---|---|
''' + '\n'.join(rows) + '\n\n'
p = os.path.join(V, 'DESIGN.md')
s = open(p).read()
if '## 14. Seeded-change trials' in s:
    i = s.index('## 14. Seeded-change trials')
    j = s.index('## 15. Behaviour-preserving rewrites') if '## 15. Behaviour-preserving rewrites' in s else s.index('## Changes\n')
    s = s[:i] + text + s[j:]
else:
    s = s.replace('## Changes\n', text + '## Changes\n', 1)
open(p, 'w').write(s)
print(len(rows), 'seeds;', sum('| caught |' in r for r in rows), 'caught;', sum('MISSED' in r for r in rows), 'missed')
