#!/bin/bash
# tools/run_seed.sh <seed-id> [tier] : apply seeded/<id>/patch.diff to a scratch worktree of /repo HEAD, run the
# property's check against it (NV_REPO), remove the worktree, record the outcome in seeded/<id>/meta.json
id="$1"; tier="${2:-quick}"; prop="${id%%-*}"
wt=$(mktemp -d /tmp/seedwt.XXXXXX); rmdir "$wt"
git -C /repo worktree add --detach "$wt" HEAD -q || exit 2
cd /verif
if ! git -C "$wt" apply "/verif/seeded/$id/patch.diff" 2>/dev/null && ! git -C "$wt" apply --3way "/verif/seeded/$id/patch.diff" 2>/dev/null; then
  git -C /repo worktree remove --force "$wt"; echo "patch does not apply to HEAD: $id"; exit 2; fi
out=$(NV_REPO="$wt" ./check "$prop" --tier "$tier" 2>&1 | grep -E "VIOLATION|KNOWN-FINDING|^$prop " | head -12)
git -C /repo worktree remove --force "$wt"
echo "$out"
python3 - "$id" "$tier" "$out" <<'PY'
import json, sys
p = '/verif/seeded/%s/meta.json' % sys.argv[1]
m = json.load(open(p))
caught = 'VIOLATION' in sys.argv[3]
m.setdefault('check_results', {})[sys.argv[2]] = {'caught': caught, 'output': [l[:300] for l in sys.argv[3].split('\n') if not l.startswith('KNOWN')][:6]}
json.dump(m, open(p, 'w'), indent=1)
print('caught' if caught else 'MISSED', sys.argv[1])
PY
