#!/bin/bash
# tools/run_seed.sh <seed-id> [tier]  : apply seeded/<id>/patch.diff to /repo, run the property's check, undo, record outcome
id="$1"; tier="${2:-quick}"; prop="${id%%-*}"
cd /verif
git -C /repo diff --quiet || { echo "/repo has local changes"; exit 2; }
git -C /repo apply "/verif/seeded/$id/patch.diff" || exit 2
out=$(./check "$prop" --tier "$tier" 2>&1 | grep -E "VIOLATION|KNOWN-FINDING|^$prop " | head -12)
git -C /repo checkout -- .
echo "$out"
python3 - "$id" "$tier" "$out" <<'PY'
import json, sys
p = '/verif/seeded/%s/meta.json' % sys.argv[1]
m = json.load(open(p))
caught = 'VIOLATION' in sys.argv[3]
m.setdefault('check_results', {})[sys.argv[2]] = {'caught': caught, 'output': sys.argv[3].split('\n')[:6]}
json.dump(m, open(p, 'w'), indent=1)
print('caught' if caught else 'MISSED', sys.argv[1])
PY
