#!/bin/bash
# tools/applyfix.sh <diff-file> <commit message (first line must start with "fix:")>
set -e
d="/verif/fixes/$1"; shift
cd /repo
git diff --quiet || { echo "repo dirty"; exit 2; }
git apply --3way "$d" 2>/dev/null || git apply "$d"
git add -A src
git commit -q -m "$1"
echo "$(git rev-parse --short HEAD) $(basename $d)"
