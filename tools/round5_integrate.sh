#!/bin/bash
# tools/round3_integrate.sh cXX : confirm the round-3 changes of one sub-agent (/tmp/mute_cXX_out/<i>) in its scratch
# worktree, keep the confirmed ones as seeded/CXX-c<i>, run the property's check against each, remove the worktree.
low="$1"; up=$(echo "$low" | tr c C); wt=/tmp/mute_$low
for d in /tmp/mute_${low}_out/*/; do
  i=$(basename "$d"); [ -f "$d/patch.diff" ] || continue
  bash /verif/tools/verify_seed.sh "$wt" "$d" "$up-e$i" | tail -2
done
git -C /repo worktree remove --force "$wt" 2>/dev/null
for d in /verif/seeded/$up-e*/; do
  id=$(basename "$d"); bash /verif/tools/run_seed.sh "$id" quick | tail -1
done
rm -rf /tmp/mute_${low}_out
