#!/usr/bin/env python3
"""Run the repository's pinned test-suite (guard OFF) and compare with /root/.vp/BASELINE.json."""
import json, os, subprocess, sys, tempfile, xml.etree.ElementTree as ET
base = json.load(open('/root/.vp/BASELINE.json'))
d = tempfile.mkdtemp()
x = os.path.join(d, 'j.xml')
env = dict(os.environ); env.pop('NFCPY_VERIF', None)
repo = sys.argv[1] if len(sys.argv) > 1 else '/repo'
env['PYTHONPATH'] = repo + '/src'
cmd = base['cmd'].replace('<file>', x).replace('cd /repo', 'cd ' + repo)
subprocess.run(cmd, shell=True, env=env, stdout=subprocess.DEVNULL, stderr=subprocess.DEVNULL)
passed = set()
for tc in ET.parse(x).getroot().iter('testcase'):
    if not any(c.tag in ('failure', 'error', 'skipped') for c in tc):
        passed.add('%s::%s' % (tc.get('classname'), tc.get('name')))
want = set(base['stable_pass'])
# ids in the baseline are classname::name with the class separated by '::'
def norm(s): return s.replace('::', '.')
p2 = {norm(p) for p in passed}
missing = [w for w in want if norm(w) not in p2]
print('baseline stable_pass=%d passed_now=%d missing=%d' % (len(want), len(passed), len(missing)))
for m in missing[:20]: print('  MISSING', m)
import shutil; shutil.rmtree(d)
sys.exit(1 if missing else 0)
