#!/usr/bin/env python3
"""Regenerate DESIGN.md section 12a (defects found by the checks) from known_findings.json."""
import json, os, re, subprocess
V = os.path.dirname(os.path.dirname(os.path.abspath(__file__)))
kf = json.load(open(os.path.join(V, 'known_findings.json')))
subj = {}
for l in subprocess.run(['git', '-C', '/repo', 'log', '--format=%h %s'], capture_output=True, text=True).stdout.split('\n'):
    if l:
        h, s = l.split(' ', 1)
        subj[h[:7]] = s
rows = []
for l in kf['fixed']:
    m = re.match(r'fixed: property=(C\d+) (\S+) (.*)', l)
    if not m:
        continue
    what = ' '.join(m.group(3).split())
    what = what[:260] + ('...' if len(what) > 260 else '')
    rows.append('| %s | `%s` %s | %s |' % (m.group(1), m.group(2), subj.get(m.group(2)[:7], '').replace('|', '/'), what.replace('|', '/')))
opens = []
for f in kf['findings']:
    w = ' '.join(f['what'].split())
    opens.append('| %s | `%s` | %s |' % (f['property'], f['key'].replace('|', '\\|'), (w[:420] + ('...' if len(w) > 420 else '')).replace('|', '/')))
text = '''## 12a. Defects found by the checks (generated from known_findings.json)

Every entry was produced by a check as a concrete failing input on the then-current tree before it was
repaired; a `fixed` entry suppresses nothing (the check reports the violation again if it returns).
%d repairs are `fix:` commits in /repo (pinned test-suite unedited and passing after each), %d defects
remain open as known findings because the repair is pinned by an unedited test or is not small.

**Open known findings** (reported as `KNOWN-FINDING`, exit 0; any other violation of the same property is
still reported):

| property | key (regex on the violation key) | what fails |
|---|---|---|
%s

**Repaired defects**

| property | fix commit | what failed |
|---|---|---|
%s

''' % (len(rows), len(opens), '\n'.join(opens), '\n'.join(rows))
p = os.path.join(V, 'DESIGN.md')
s = open(p).read()
if '## 12a. Defects found by the checks' in s:
    i = s.index('## 12a. Defects found by the checks')
    j = s.index('## 13. What was built')
    s = s[:i] + text + s[j:]
else:
    s = s.replace('## 13. What was built', text + '## 13. What was built', 1)
open(p, 'w').write(s)
print(len(rows), 'fixed;', len(opens), 'open')
