#!/bin/bash
# tools/verify_seed.sh <worktree> <dir with patch.diff demo.py meta.json> <seed-id>
# confirms: demo passes on clean tree, patch applies, demo fails with patch, pinned test-suite still passes;
# then copies the change to /verif/seeded/<seed-id>/ with what was run.
set -u
wt="$1"; src="$2"; id="$3"
cd "$wt" && git checkout -q -- . || exit 2
PYTHONPATH="$wt/src" /venv/bin/python "$src/demo.py" >/dev/null 2>&1; clean=$?
git apply "$src/patch.diff" || { echo "patch does not apply"; exit 2; }
PYTHONPATH="$wt/src" /venv/bin/python "$src/demo.py" >/dev/null 2>&1; patched=$?
suite=$(python3 /verif/tools/baseline.py "$wt" | head -1)
git checkout -q -- .
echo "$id demo_clean_exit=$clean demo_patched_exit=$patched suite: $suite"
if [ "$clean" = 0 ] && [ "$patched" != 0 ] && echo "$suite" | grep -q "missing=0"; then
  mkdir -p /verif/seeded/$id && cp "$src/patch.diff" "$src/demo.py" /verif/seeded/$id/
  python3 - "$src/meta.json" /verif/seeded/$id/meta.json "$clean" "$patched" "$suite" <<'PY'
import json, sys
m = json.load(open(sys.argv[1]))
m['confirmed'] = {'demo_exit_clean_tree': int(sys.argv[3]), 'demo_exit_patched_tree': int(sys.argv[4]),
                  'pinned_test_suite_with_patch': sys.argv[5],
                  'ran': 'tools/verify_seed.sh: demo.py on clean and patched scratch worktree; tools/baseline.py <worktree> (pinned suite vs BASELINE.json)'}
json.dump(m, open(sys.argv[2], 'w'), indent=1)
PY
  echo "KEPT $id"
else
  echo "REJECTED $id"
fi
