#!/bin/bash
# tools/run_seed_with.sh <seed-id> <property> : run ANOTHER property's quick check against a seeded change (scratch worktree + NV_REPO)
id="$1"; prop="$2"
wt=$(mktemp -d /tmp/seedwt.XXXXXX); rmdir "$wt"
git -C /repo worktree add --detach "$wt" HEAD -q || exit 2
cd /verif
if ! git -C "$wt" apply "/verif/seeded/$id/patch.diff" 2>/dev/null && ! git -C "$wt" apply --3way "/verif/seeded/$id/patch.diff" 2>/dev/null; then
  git -C /repo worktree remove --force "$wt"; echo "patch does not apply to HEAD: $id"; exit 2; fi
NV_REPO="$wt" ./check "$prop" --tier quick 2>&1 | grep -E "VIOLATION|^$prop " | cut -c1-300 | head -6
git -C /repo worktree remove --force "$wt"
