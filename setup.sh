#!/bin/bash
# offline build of the whole framework: translators -> Gen, full .vo build, extraction, model runner
set -e
cd "$(dirname "$0")"; mkdir -p extract/ml extract/bin replays evidence coq/Gen
export PYTHONPATH="${NV_REPO:-/repo}/src:$PWD/harness:$PWD/translate" PYTHONHASHSEED=0 PYTHONDONTWRITEBYTECODE=1
/venv/bin/python - <<'PY'
import common, kernels, sys
with common.BuildLock():
    fails = common.regenerate(list(kernels.KERNELS))
    for f in fails: print('WARNING', f)
    common.ensure_makefile()
    rc, out = common.sh(['make', '-j16', '-k'], cwd=common.COQ, timeout=3000)
    print(out[-3000:])
    import glob, os, json
    integrated = set(json.load(open(os.path.join(common.VERIF, 'manifest.d', 'integrated.json'))))
    bad = 0
    for f in sorted(glob.glob(os.path.join(common.VERIF, 'extract', '*_run.ml'))):
        name = os.path.basename(f)[:-7]
        ok, log = common.build_extraction(name)
        print('extraction', name, ok, log[-500:] if not ok else '')
        # only the runners of integrated (claimed) checks are required; others may be under construction
        needed = name.upper() in integrated or name.startswith('tags_')
        bad += (not ok) and needed
    sys.exit(1 if bad else 0)
PY
