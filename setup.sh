#!/bin/bash
# offline build of the whole framework: translators -> Gen, full .vo build, extraction, model runner
set -e
cd "$(dirname "$0")"
export PYTHONPATH="${NV_REPO:-/repo}/src:$PWD/harness:$PWD/translate" PYTHONHASHSEED=0 PYTHONDONTWRITEBYTECODE=1
/venv/bin/python - <<'PY'
import common, kernels, sys
with common.BuildLock():
    fails = common.regenerate(list(kernels.KERNELS))
    for f in fails: print('WARNING', f)
    common.ensure_makefile()
    rc, out = common.sh(['make', '-j16', '-k'], cwd=common.COQ, timeout=3000)
    print(out[-3000:])
    ok, log = common.build_extraction()
    print('extraction', ok, log[-500:] if not ok else '')
    sys.exit(0 if ok else 1)
PY
