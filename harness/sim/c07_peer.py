"""Byte-level adversaries for the live part of the C07 check (environment, not model).

ScriptFrontend   a ContactlessFrontend whose device-facing methods sense() / listen() / exchange() replay a script of
                 raw frames; connect(), _llcp_connect(), nfc.dep.Initiator / Target, LogicalLinkController.activate /
                 run / terminate are the real code.  Single threaded, virtual time (every exchange costs 1 ms, a
                 time-out costs the time-out value), so a run is a deterministic function of the script.  When the
                 script is used up the peer is silent.
raw_push         PDUs for sim/llcpeer.Peer(push=...) that encode to arbitrary bytes (the LLCP level adversary: a real
                 run loop with real sockets, SNEP server and client threads under sim/sched.py).
"""
import collections
import threading

import nfc
import nfc.clf
import nfc.dep
import nfc.llcp.llc as llcmod
import nfc.llcp.pdu


class Clock(object):
    def __init__(self):
        self.now = 0.0

    def time(self):
        return self.now

    def sleep(self, s):
        self.now += max(s, 0)


class FakeOs(object):
    @staticmethod
    def urandom(n):
        return bytes((0xA0 + 7 * i + n) & 0xFF for i in range(n))


class _Dev(object):
    """stands for an open device (connect() only tests `device is None` and switches LEDs in reader mode)"""

    def mute(self):
        pass


class ScriptFrontend(nfc.clf.ContactlessFrontend):
    def __init__(self, clock, role, brty, frames, atr_req=None, dep_req=None, steps=400, jam=None, ping=None):
        # no device: the attributes ContactlessFrontend.__init__ would create
        self.device = _Dev()
        self.lock = threading.Lock()
        self.target = None
        self.clock = clock
        self.role, self.brty = role, brty
        self.frames = collections.deque(frames)
        self.atr_req, self.dep_req = atr_req, dep_req
        self.sent = []
        self.calls = 0
        self.steps = steps
        self.listened = False
        self.jam = jam          # (k, q): when the script is used up the peer keeps sending corrupted frames, each
        self.jammed = 0         # max(k, granted // q) ms after the call (silence if the granted time-out is shorter)
        self.ping = ping        # frames the peer goes on sending for ever once the script is used up (one per ms, if a
        self.npings = 0         # time-out of at least 1 ms was granted)

    # -- what the stack would hear on the air -------------------------------------------------
    def _tick(self):
        self.calls += 1
        if self.calls > self.steps:
            raise RuntimeError('c07: step bound exceeded (the stack does not come to an end)')

    def sense(self, *targets, **options):
        self._tick()
        self.clock.now += 0.01
        if self.role != 'initiator' or self.listened:
            return None
        for t in targets:
            if getattr(t, 'atr_req', None) is not None:
                raise nfc.clf.UnsupportedTargetError('sim: no active communication mode')
            if t.brty == self.brty == '106A':
                self.listened = True
                return nfc.clf.RemoteTarget('106A', sens_res=bytearray(b'\x01\x01'), sdd_res=bytearray(b'\x08\x01\x02\x03'),
                                            sel_res=bytearray(b'\x40'))
            if t.brty == self.brty == '212F':
                self.listened = True
                return nfc.clf.RemoteTarget('212F', sensf_res=bytearray.fromhex('0101fe6162636465660000000000000000ffff'))
        return None

    def listen(self, target, timeout):
        self._tick()
        self.clock.now += 0.01
        if self.role != 'target' or self.listened:
            self.clock.now += timeout
            return None
        self.listened = True
        if self.atr_req is None or not (16 <= len(self.atr_req) <= 64):      # what ContactlessFrontend.listen checks
            return None
        t = nfc.clf.LocalTarget(self.brty, atr_req=bytearray(self.atr_req), dep_req=bytearray(self.dep_req))
        if self.brty == '106A':
            t.sens_res, t.sdd_res, t.sel_res = bytearray(b'\x01\x01'), bytearray(b'\x08\x01\x02\x03'), bytearray(b'\x40')
        else:
            t.sensf_res = bytearray.fromhex('0101fe6162636465660000000000000000ffff')
        t.atr_res = target.atr_res
        return t

    def exchange(self, send_data, timeout):
        self._tick()
        self.sent.append(None if send_data is None else bytes(send_data))
        self.clock.now += 0.001
        if not self.frames and self.ping is not None:
            if (timeout or 0) >= 0.001:
                f = self.ping[self.npings % len(self.ping)]
                self.npings += 1
                return bytearray(f)
            self.clock.now += max(timeout or 0, 0.001)
            raise nfc.clf.TimeoutError('sim: no time to receive a frame')
        if not self.frames:
            if self.jam is not None:
                k, q = self.jam
                d = max(k, int((timeout or 0) * 1000) // q) * 0.001
                if 0 < d <= (timeout or 0):
                    self.jammed += 1
                    self.clock.now += d
                    raise nfc.clf.TransmissionError('sim: frame with CRC error')
            self.clock.now += max(timeout or 0, 0.001)
            raise nfc.clf.TimeoutError('sim: the peer is silent')
        f = self.frames.popleft()
        if f is None:
            self.clock.now += max(timeout or 0, 0.001)
            raise nfc.clf.TimeoutError('sim: the peer is silent')
        if f == 'T':
            raise nfc.clf.TransmissionError('sim: corrupted frame')
        return bytearray(f)


class installed(object):
    """virtual clock in nfc.dep / nfc.llcp.llc / nfc.clf, deterministic NFCID3 values"""

    def __init__(self, clock):
        self.clock = clock

    def __enter__(self):
        self.saved = (nfc.dep.time, llcmod.time, nfc.clf.time, nfc.dep.os)
        nfc.dep.time = llcmod.time = nfc.clf.time = self.clock
        nfc.dep.os = FakeOs
        return self

    def __exit__(self, *a):
        nfc.dep.time, llcmod.time, nfc.clf.time, nfc.dep.os = self.saved


def run_connect(role, brty, frames, atr_req=None, dep_req=None, on_connect=None, steps=400, jam=None, ping=None):
    """ContactlessFrontend.connect(llcp=...) against the scripted peer.
    -> (observation, frontend).  observation: 'ret <value>' | 'exc <class>: <text>'"""
    clock = Clock()
    clf = ScriptFrontend(clock, role, brty, frames, atr_req, dep_req, steps, jam, ping)
    info = {}

    def terminate():
        # give the stack three rounds after the script has been used up, then ask it to stop
        if not clf.frames:
            info['idle'] = info.get('idle', 0) + 1
        return info.get('idle', 0) > 3 or clf.calls > steps - 50

    def connected(llc):
        info['connected'] = True
        if on_connect is not None:
            on_connect(llc)
        return True

    with installed(clock):
        try:
            r = clf.connect(llcp={'role': role, 'on-connect': connected, 'sec': False, 'brs': 2 if brty == '212F' else 0},
                            terminate=terminate)
            obs = 'ret %r' % (r,)
        except BaseException as e:  # noqa: everything that leaves connect() is the observation
            obs = 'exc %s: %s' % (type(e).__name__, str(e)[:80])
    clf.info = info
    clf.elapsed = clock.now
    return obs, clf


class RawPdu(nfc.llcp.pdu.ProtocolDataUnit):
    """an object llcpeer.Peer can queue: pdu.encode(x) -> x.encode() -> arbitrary bytes"""
    name = 'RAW'

    def __init__(self, data):
        nfc.llcp.pdu.ProtocolDataUnit.__init__(self, 0, 0, 0)
        self.data = bytes(data)

    def encode(self):
        return self.data

    def __len__(self):
        return len(self.data)


def raw_push(d):
    """{exchange index: [bytes, ...]} -> push dictionary for llcpeer.Peer"""
    return {k: [RawPdu(b) for b in v] for k, v in d.items()}


class AppFirst(object):
    """chooser for sim/sched.py: application and service threads run before the link thread does its next exchange
    (the link is the slow part of a real system), so that a server has answered when the peer speaks again"""

    def choose(self, step, cur, enabled):
        others = [t for t in enabled if t.name != 'link']
        if cur is not None and cur in others:
            return cur
        if others:
            return others[0]
        return enabled[0]
