"""Recording environment for nfc.clf.ContactlessFrontend (C15).

* Recorder        - global, ordered list of (thread, event); events as in coq/Skel/LockSyntax.v
* RecLock         - wrapper around a real threading.Lock, records Acq/Rel, knows its owner
* RecFrontend     - ContactlessFrontend whose `device` attribute records writes (EvSet)
* RecDevice       - a nfc.clf.device.Device with every driver method; records DevBegin/DevEnd,
                    applies the monitor "lock held by the calling thread, device not closed,
                    no other driver call in progress" at every entry, behaves as scripted
* install()/uninstall() - rebinding of module attributes (nfc.clf.threading, nfc.clf.time,
                    device.connect, nfc.tag.activate/emulate, nfc.dep.Target/Initiator,
                    nfc.llcp.llc.LogicalLinkController); no source hooks
* trace_of_skeleton() - decides whether an observed event trace is a trace (exec, outcome Norm or
                    Abr) of the extracted skeleton, mirroring the rules of LockSyntax.exec
* excl_check()    - the conclusion of the Coq theorem (LockCheck.excl) and its environment
                    assumption (mutex_ok) evaluated on a recorded multi-thread schedule
"""
import sys
import threading
import types

import nfc.clf
import nfc.clf.device
import nfc.dep
import nfc.llcp.llc
import nfc.tag

_real_threading_Lock = threading.Lock
DRIVER_METHODS = ['close', 'mute', 'sense_tta', 'sense_ttb', 'sense_ttf', 'sense_dep', 'listen_tta', 'listen_ttb',
                  'listen_ttf', 'listen_dep', 'send_cmd_recv_rsp', 'send_rsp_recv_cmd', 'get_max_send_data_size',
                  'get_max_recv_data_size', 'turn_on_led_and_buzzer', 'turn_off_led_and_buzzer']


class SelfDeadlock(RuntimeError):
    """the thread that holds the (non-re-entrant) frontend lock tries to take it again"""


class Recorder:
    def __init__(self):
        self.mu = _real_threading_Lock()
        self.events = []
        self.tids = {}
        self.problems = []          # monitor failures: dict(key, what, data)
        self.busy = None            # (thread, held the lock at entry) currently inside a driver method
        self.overlaps_observed = 0  # real overlaps of driver calls witnessed (multi-thread runs)
        self.yield_hook = None      # called inside driver methods (stress: encourage a switch)

    def tid(self):
        i = threading.get_ident()
        with self.mu:
            if i not in self.tids:
                self.tids[i] = len(self.tids)
            return self.tids[i]

    def emit(self, *ev):
        t = self.tid()
        with self.mu:
            self.events.append((t, tuple(ev)))

    def mark(self):
        with self.mu:
            return len(self.events)

    def since(self, mark, tid=None):
        with self.mu:
            evs = self.events[mark:]
        return [e for t, e in evs if tid is None or t == tid]

    def problem(self, key, what, data):
        with self.mu:
            self.problems.append({'key': key, 'what': what, 'data': data})


class RecLock:
    def __init__(self, rec):
        self._l = _real_threading_Lock()
        self.rec = rec
        self.owner = None

    def acquire(self, blocking=True, timeout=-1):
        if self.owner == threading.get_ident():
            raise SelfDeadlock('frontend lock acquired again by its holder')
        ok = self._l.acquire(blocking, timeout)
        if ok:
            self.owner = threading.get_ident()
            self.rec.emit('Acq')
        return ok

    def release(self):
        self.rec.emit('Rel')
        self.owner = None
        self._l.release()

    def __enter__(self):
        self.acquire()
        return self

    def __exit__(self, *a):
        self.release()

    def locked(self):
        return self._l.locked()

    def held_by_me(self):
        return self.owner == threading.get_ident()


class RecFrontend(nfc.clf.ContactlessFrontend):
    """the real class; only the storage of the `device` attribute is replaced so that writes are seen"""
    _rec = None

    @property
    def device(self):
        return self.__dict__.get('_dev')

    @device.setter
    def device(self, value):
        rec = self._rec
        lock = self.__dict__.get('lock')
        if rec is not None and lock is not None:       # before the lock exists the object is under construction
            if not (isinstance(lock, RecLock) and lock.held_by_me()):
                rec.problem('unlocked-device-write:' + caller_name(2), 'self.device written without holding the frontend lock',
                            {'value_is_none': value is None})
            rec.emit('EvSet', value is not None)
        self.__dict__['_dev'] = value


def caller_name(depth):
    try:
        return sys._getframe(depth).f_code.co_name
    except ValueError:
        return '?'


class Script:
    """what the scripted hardware does: per driver method a list of results consumed in order (an Exception
    instance is raised, a callable is called with the arguments), then the default"""

    def __init__(self, plan=None, default=None):
        self.plan = {k: list(v) for k, v in (plan or {}).items()}
        self.default = dict(default or {})

    def result(self, method, args):
        q = self.plan.get(method)
        r = q.pop(0) if q else self.default.get(method)
        if callable(r) and not isinstance(r, type):
            r = r(*args)
        if isinstance(r, BaseException):
            raise r
        return r


class RecDevice(nfc.clf.device.Device):
    def __init__(self, rec, script, clf_ref, path='sim:0'):
        self.rec = rec
        self.script = script
        self.clf_ref = clf_ref          # callable returning the frontend that owns this device (or None)
        self._path = path
        self._vendor_name = 'Verif'
        self._device_name = 'RecDevice'
        self._chipset_name = 'SIM'
        self.closed = False

    def _enter(self, m):
        rec = self.rec
        clf = self.clf_ref()
        site = caller_name(3)
        lock = clf.__dict__.get('lock') if clf is not None else None
        held = isinstance(lock, RecLock) and lock.held_by_me()
        if not held:
            rec.problem('unlocked-driver-call:%s:%s' % (site, m),
                        'ContactlessFrontend.%s calls self.device.%s() without holding the frontend lock' % (site, m),
                        {'site': site, 'method': m})
        if self.closed or (clf is not None and clf.__dict__.get('_dev') is not self):
            rec.problem('driver-call-on-closed-device:%s:%s' % (site, m),
                        'driver method %s called on a device that has been closed' % m, {'site': site, 'method': m})
        me = threading.get_ident()
        with rec.mu:
            other = rec.busy
            if other is None:
                rec.busy = (me, held)
            elif other[0] != me:
                rec.overlaps_observed += 1
        if other is not None and other[0] != me and held and other[1]:
            # both callers believed to hold the lock: the party without the lock is reported by its own
            # 'unlocked-driver-call' entry; this one can only mean that the lock itself failed
            rec.problem('overlapping-driver-calls:%s:%s' % (site, m),
                        'driver method %s entered under the lock while another locked driver call is in progress' % m,
                        {'site': site, 'method': m})
        rec.emit('DevBegin', m)
        if rec.yield_hook:
            rec.yield_hook()

    def _leave(self, m):
        with self.rec.mu:
            if self.rec.busy is not None and self.rec.busy[0] == threading.get_ident():
                self.rec.busy = None
        self.rec.emit('DevEnd', m)


def _make_method(m):
    def method(self, *args, **kwargs):
        self._enter(m)
        try:
            if m == 'close':
                self.closed = True
            return self.script.result(m, args + tuple(kwargs.values()))
        finally:
            self._leave(m)
    method.__name__ = m
    return method


for _m in DRIVER_METHODS:
    setattr(RecDevice, _m, _make_method(_m))
# every public callable of the Device base class must be covered (fail closed if nfcpy adds one)
MISSING = [n for n in dir(nfc.clf.device.Device)
           if not n.startswith('_') and callable(getattr(nfc.clf.device.Device, n))
           and n not in DRIVER_METHODS and n not in ('add_crc_a', 'add_crc_b', 'check_crc_a', 'check_crc_b')]


# ---------------------------------------------------------------- outside code (Ext)
class FakeTime:
    """nfc.clf.time: no real sleeping, a clock that advances by itself"""

    def __init__(self, real_sleep=None):
        self.now = 1000.0
        self.real_sleep = real_sleep

    def time(self):
        self.now += 0.001
        return self.now

    def sleep(self, s):
        self.now += max(0, s)
        if self.real_sleep:
            self.real_sleep(0)


class World:
    """one recorded environment; `with World(...) as w:` installs and removes the module rebindings"""

    def __init__(self, rec=None, real_sleep=None):
        self.rec = rec or Recorder()
        self.clf = None
        self.connect_plan = []          # results of device.connect: RecDevice | None | Exception
        self.activate = None            # callable(clf, target) -> tag-like | None  (nfc.tag.activate)
        self.emulate = None             # callable(clf, target) -> TagEmulation | None
        self.llc_factory = None         # callable(**options) -> LogicalLinkController subclass instance
        self.real_sleep = real_sleep
        self.saved = []

    def ext(self, name):
        self.rec.emit('ExtCall', name)

    def _set(self, obj, attr, value):
        self.saved.append((obj, attr, getattr(obj, attr)))
        setattr(obj, attr, value)

    def __enter__(self):
        w = self
        self._set(nfc.clf, 'threading', types.SimpleNamespace(Lock=lambda: RecLock(w.rec)))
        self._set(nfc.clf, 'time', FakeTime(self.real_sleep))

        def connect(path):
            clf = w.clf
            lock = clf.__dict__.get('lock') if clf is not None else None
            if not (isinstance(lock, RecLock) and lock.held_by_me()):
                w.rec.problem('unlocked-driver-call:%s:device.connect' % caller_name(2),
                              'device.connect() called without holding the frontend lock', {'path': path})
            w.rec.emit('ConnectCall')
            r = w.connect_plan.pop(0) if w.connect_plan else None
            if isinstance(r, BaseException):
                raise r
            if callable(r) and not isinstance(r, nfc.clf.device.Device):
                r = r(path)             # a factory: initialises a real driver (under the lock, as device.connect does)
            return r
        self._set(nfc.clf.device, 'connect', connect)

        def activate(clf, target):
            w.ext('nfc.tag.activate')
            return w.activate(clf, target) if w.activate else None
        self._set(nfc.tag, 'activate', activate)

        def emulate(clf, target):
            w.ext('nfc.tag.emulate')
            return w.emulate(clf, target) if w.emulate else None
        self._set(nfc.tag, 'emulate', emulate)

        class DepMac:
            def __init__(self, role, clf):
                w.ext('DEP')
                self.role = role
                self.clf = clf
        self._set(nfc.dep, 'Target', lambda clf: DepMac('Target', clf))
        self._set(nfc.dep, 'Initiator', lambda clf: DepMac('Initiator', clf))
        real_llc = nfc.llcp.llc.LogicalLinkController

        class RecLLC(real_llc):
            def __init__(self, **options):
                w.ext('nfc.llcp.llc.LogicalLinkController')
                real_llc.__init__(self, **options)
                self.script_activate = None
                self.script_run = None

            def activate(self, mac, **options):
                w.ext('llc.activate')
                return self.script_activate(mac) if self.script_activate else False

            def run(self, terminate=lambda: False):
                w.ext('llc.run')
                if self.script_run:
                    self.script_run(self, terminate)
        self.RecLLC = RecLLC
        self._set(nfc.llcp.llc, 'LogicalLinkController', RecLLC)
        RecFrontend._rec = self.rec
        return self

    def __exit__(self, *a):
        for obj, attr, old in reversed(self.saved):
            setattr(obj, attr, old)
        self.saved = []
        RecFrontend._rec = None

    # helpers --------------------------------------------------------
    def new_frontend(self, path=None):
        """construct through the real __init__ (the lock is created by the rebound nfc.clf.threading)"""
        clf = RecFrontend.__new__(RecFrontend)
        self.clf = clf
        clf.__init__(path)
        return clf

    def device(self, script=None):
        return RecDevice(self.rec, script or Script(), lambda: self.clf)

    def callback(self, label, fn):
        def cb(*args):
            self.ext(label)
            return fn(*args)
        return cb


class TagProxy:
    """what nfc.tag.activate returns to the frontend: reading is_present is outside code (it exchanges data)"""

    def __init__(self, world, present_fn):
        self._w = world
        self._present = present_fn

    @property
    def is_present(self):
        self._w.ext('tag.is_present')
        return self._present()

    def __str__(self):
        return 'TagProxy'


class RecEmulation(nfc.tag.TagEmulation):
    def __init__(self, world, clf, first_cmd, process, respond):
        self._w = world
        self.clf = clf
        self.cmd = first_cmd
        self._process = process
        self._respond = respond

    def process_command(self, cmd):
        self._w.ext('tag.process_command')
        return self._process(cmd)

    def send_response(self, rsp, timeout):
        self._w.ext('tag.send_response')
        return self._respond(self.clf, rsp, timeout)

    def __str__(self):
        return 'RecEmulation'


# ---------------------------------------------------------------- is the observed trace a trace of the skeleton?
def ext_label(x):
    """labels of callbacks are compared by their key: options[on-connect] ~ rdwr_options[on-connect]"""
    return x[x.index('['):] if '[' in x else x


class SkeletonTraces:
    """mirror of LockSyntax.exec restricted to complete executions (outcome Norm or Abr); EvTest is not
    observable and therefore silent.  match(s, i) = (N, A): positions the trace can be at when s, started at
    position i, completes normally / exits abruptly."""

    def __init__(self, sk):
        self.fun = sk['functions']
        entry = ['Ret']
        for f in reversed(sk['entry']):
            entry = ['Choice', ['Call', f], entry]
        self.loop_entry = ['Loop', entry]

    def accepts(self, fname, trace, silent=()):
        """silent: labels of callbacks the caller did not supply - the frontend then uses its own default
        (a lambda / nested function defined in the class, which the extractor has checked to be pure), so the
        Ext statement produces no observable event"""
        self.silent = set(silent)
        self.tr = [tuple(e) for e in trace]
        self.memo = {}
        n, a = self.match(['Call', fname], 0)
        return len(self.tr) in n or len(self.tr) in a

    def longest_prefix(self, fname, trace, silent=()):
        """diagnostics: the furthest position any execution reaches"""
        self.silent = set(silent)
        self.tr = [tuple(e) for e in trace]
        self.memo = {}
        self.match(['Call', fname], 0)
        best = 0
        for (n, a) in self.memo.values():
            for j in n | a:
                best = max(best, j)
        return best

    def at(self, i, *ev):
        return i < len(self.tr) and self.tr[i] == tuple(ev)

    def match(self, s, i):
        key = (id(s), i)
        r = self.memo.get(key)
        if r is None:
            r = self.memo[key] = self._match(s, i)
        return r

    def _match(self, s, i):
        k = s[0]
        if k == 'Skip':
            return {i}, {i}
        if k == 'Ret':
            return set(), {i}
        if k == 'Dev':
            if self.at(i, 'DevBegin', s[1]) and self.at(i + 1, 'DevEnd', s[1]):
                return {i + 2}, {i, i + 2}
            return set(), {i}
        if k == 'Connect':
            if self.at(i, 'ConnectCall'):
                return {i + 1}, {i, i + 1}
            return set(), {i}
        if k == 'DevSet':
            if self.at(i, 'EvSet', s[1]):
                return {i + 1}, {i}
            return set(), {i}
        if k in ('IfDev', 'Choice'):
            na, aa = self.match(s[1], i)
            nb, ab = self.match(s[2], i)
            return na | nb, aa | ab
        if k == 'Ext':
            if i < len(self.tr) and self.tr[i][0] == 'ExtCall' and ext_label(self.tr[i][1]) == ext_label(s[1]):
                n, a = self.match(self.loop_entry, i + 1)
                n, a = set(n), set(a) | {i}
            else:
                n, a = set(), {i}
            if ext_label(s[1]) in self.silent:
                n.add(i)
            return n, a
        if k == 'Seq':
            na, aa = self.match(s[1], i)
            n, a = set(), set(aa)
            for j in na:
                nb, ab = self.match(s[2], j)
                n |= nb
                a |= ab
            return n, a
        if k == 'Loop':
            reach, work = {i}, [i]
            while work:
                j = work.pop()
                nb, ab = self.match(s[1], j)
                for x in nb | ab:
                    if x not in reach:
                        reach.add(x)
                        work.append(x)
            return set(reach), set(reach)
        if k == 'Try':
            na, aa = self.match(s[1], i)
            n, a = set(na), set(aa)
            for j in aa:
                nh, ah = self.match(s[2], j)
                n |= nh
                a |= ah
            return n, a
        if k == 'WithLock':
            if not self.at(i, 'Acq'):
                return set(), {i}
            nb, ab = self.match(s[1], i + 1)
            return ({j + 1 for j in nb if self.at(j, 'Rel')}, {j + 1 for j in ab if self.at(j, 'Rel')} | {i})
        if k == 'Call':
            body = self.fun.get(s[1])
            if body is None:
                return set(), {i}
            nb, ab = self.match(body, i)
            return nb | ab, set(ab)
        raise ValueError('unknown statement ' + k)


# ---------------------------------------------------------------- the theorem's conclusion on a real schedule
def excl_check(schedule, owner=None, busy=False, dev=False):
    """LockCheck.mutex_ok and LockCheck.excl on a recorded global schedule [(tid, event)].
    returns None if fine, else (index, reason)"""
    for idx, (t, e) in enumerate(schedule):
        k = e[0]
        if k == 'Acq':
            if owner is not None:
                return idx, 'mutex: acquire while held'
            if busy:
                return idx, 'acquire while a driver call is in progress'
            owner = t
        elif k == 'Rel':
            if owner != t:
                return idx, 'mutex: release by a thread that does not hold the lock'
            if busy:
                return idx, 'release while a driver call is in progress'
            owner = None
        elif k == 'DevBegin':
            if owner != t:
                return idx, 'driver call %s by a thread that does not hold the lock' % e[1]
            if busy:
                return idx, 'driver call %s while another driver call is in progress' % e[1]
            if not dev:
                return idx, 'driver call %s on a closed device' % e[1]
            busy = True
        elif k == 'DevEnd':
            if owner != t or not busy:
                return idx, 'driver call end without begin'
            busy = False
        elif k == 'ConnectCall':
            if owner != t or busy:
                return idx, 'device.connect without the lock / during a driver call'
        elif k == 'EvSet':
            if owner != t or busy:
                return idx, 'self.device written without the lock / during a driver call'
            dev = e[1]
    return None


# ---------------------------------------------------------------- real drivers over fake transports
class RealScript:
    """RecDevice 'script' that forwards every driver method to a real nfcpy driver object"""

    def __init__(self, real):
        self.real = real

    def result(self, method, args):
        return getattr(self.real, method)(*args)


def _driver_site():
    """outermost function of a driver module (src/nfc/clf/<driver>.py) on the current thread's stack:
    identifies who is talking to the transport, e.g. acr122.py:_led_timeout for a timer thread"""
    f = sys._getframe(2)
    site = None
    while f is not None:
        fn = f.f_code.co_filename.replace('\\', '/')
        if '/nfc/clf/' in fn and not fn.endswith('/__init__.py'):
            site = '%s:%s' % (fn.rsplit('/', 1)[1], f.f_code.co_name)
        f = f.f_back
    return site or '?'


class GuardedTransport:
    """wraps a fake host link (sim/chipsets.py); every read/write must be made by the thread that currently
    holds the frontend lock - the monitor of C15 one level below the driver methods, where a driver's own
    threads/timers become visible"""

    def __init__(self, sim, rec, clf_ref, driver):
        self.__dict__.update(_sim=sim, _rec=rec, _clf_ref=clf_ref, _driver=driver, io_count=0, armed=True)

    def _check(self, what, frame):
        self.__dict__['io_count'] += 1
        if not self.armed:
            return
        clf = self._clf_ref()
        lock = clf.__dict__.get('lock') if clf is not None else None
        if not (isinstance(lock, RecLock) and lock.held_by_me()):
            site = _driver_site()
            t = threading.current_thread()
            self._rec.problem('unlocked-transport-io:%s:%s' % (self._driver, site),
                              'driver %s: transport %s from %s by a thread that does not hold the frontend lock'
                              % (self._driver, what, site),
                              {'driver': self._driver, 'io': what, 'site': site, 'thread_class': type(t).__name__,
                               'lock_held_by_another_thread': bool(lock is not None and lock.locked()),
                               'frame': bytes(frame or b'').hex()[:80]})

    def write(self, frame):
        self._check('write', frame)
        return self._sim.write(frame)

    def read(self, timeout=0):
        self._check('read', b'')
        return self._sim.read(timeout)

    def __getattr__(self, name):
        return getattr(self._sim, name)

    def __setattr__(self, name, value):
        if name in self.__dict__:
            self.__dict__[name] = value
        else:
            setattr(self._sim, name, value)


class ThreadWatch:
    """while installed: threads started by anybody are recorded, timers fire after 2% of their interval (a
    timer of the driver must show itself within the scenario instead of half a second later)"""

    def __init__(self, scale=0.02):
        self.scale = scale
        self.started = []

    def __enter__(self):
        watch = self
        self._start = threading.Thread.start
        self._timer_init = threading.Timer.__init__

        def start(thread):
            watch.started.append(thread)
            return watch._start(thread)

        def timer_init(timer, interval, function, args=None, kwargs=None):
            watch._timer_init(timer, interval * watch.scale, function, args, kwargs)
        threading.Thread.start = start
        threading.Timer.__init__ = timer_init
        return self

    def __exit__(self, *a):
        threading.Thread.start = self._start
        threading.Timer.__init__ = self._timer_init

    def join(self, timeout=2.0):
        for t in list(self.started):
            t.join(timeout)
        return [t for t in self.started if t.is_alive()]
