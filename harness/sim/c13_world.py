"""Real nfcpy drivers instantiated on the fake host links of sim/chipsets.py, and the target kinds
(exchange scenarios) used by the C13 check.  Environment code only."""
import logging

import nfc
import nfc.clf
import nfc.clf.pn53x
import nfc.clf.pn531
import nfc.clf.pn532
import nfc.clf.pn533
import nfc.clf.rcs956
import nfc.clf.rcs380
import nfc.clf.acr122
import nfc.clf.arygon
import nfc.clf.udp

from sim import chipsets as cs

DRIVER_MODULES = [nfc.clf.pn53x, nfc.clf.pn531, nfc.clf.pn532, nfc.clf.pn533, nfc.clf.rcs956, nfc.clf.rcs380,
                  nfc.clf.acr122, nfc.clf.arygon, nfc.clf.udp]

DRIVERS = ['pn531', 'pn532', 'pn533', 'rcs956', 'acr122', 'arygon-a', 'arygon-b', 'rcs380', 'udp']
PN53X_FAMILY = ['pn531', 'pn532', 'pn533', 'rcs956', 'acr122', 'arygon-a', 'arygon-b']


def physical(sim, kind):
    """wrap a host simulator into a real nfc.clf.transport.TTY / USB object (fake serial line / fake
    libusb handle below it), so that the frame assembly and error translation of transport.py run too"""
    import nfc.clf.transport as T
    if kind == 'tty':
        t = object.__new__(T.TTY)
        t.tty = cs.FakeSerial(sim)
        return t
    t = object.__new__(T.USB)
    t.context = None
    t.usb_dev = cs.FakeUsbDev(sim, T.libusb)
    t.usb_out = cs.FakeEndpoint(0x04)
    t.usb_inp = cs.FakeEndpoint(0x84)
    t._manufacturer_name = sim.manufacturer_name
    t._product_name = sim.product_name
    return t


PHYS_KIND = {'pn531': 'usb', 'pn532': 'tty', 'pn533': 'usb', 'rcs956': 'usb', 'acr122': 'usb', 'arygon-a': 'tty',
             'arygon-b': 'tty', 'rcs380': 'usb'}


class World(object):
    """one driver + its simulator + a ContactlessFrontend around it.
    layer='api': the simulator is the transport object; layer='phys': it sits below a real
    transport.TTY / transport.USB"""

    def __init__(self, driver, layer='api'):
        self.driver = driver
        self.layer = layer
        self.clock = cs.VClock()
        cs.install_clock(self.clock, DRIVER_MODULES)
        log = logging.getLogger('c13')
        if layer == 'phys':
            self._init_phys(driver, log)
            self.device._path = 'sim:' + driver
            self.clf = nfc.clf.ContactlessFrontend()
            self.clf.device = self.device
            return
        if driver == 'pn531':
            self.sim = cs.Pn53xSim('pn531', self.clock)
            self.device = nfc.clf.pn531.init(self.sim)
        elif driver == 'pn532':
            self.sim = cs.Pn53xSim('pn532', self.clock, tty=True)
            self.device = nfc.clf.pn532.Device(nfc.clf.pn532.Chipset(self.sim, logger=log), logger=log)
        elif driver == 'pn533':
            self.sim = cs.Pn53xSim('pn533', self.clock)
            self.device = nfc.clf.pn533.init(self.sim)
        elif driver == 'rcs956':
            self.sim = cs.Pn53xSim('rcs956', self.clock)
            self.device = nfc.clf.rcs956.init(self.sim)
        elif driver == 'acr122':
            self.sim = cs.Acr122Sim(self.clock)
            self.device = nfc.clf.acr122.init(self.sim)
        elif driver == 'arygon-a':
            self.sim = cs.Pn53xSim('pn531', self.clock, arygon=True)
            self.device = nfc.clf.arygon.DeviceA(nfc.clf.arygon.ChipsetA(self.sim, logger=log), logger=log)
        elif driver == 'arygon-b':
            self.sim = cs.Pn53xSim('pn532', self.clock, arygon=True)
            self.device = nfc.clf.arygon.DeviceB(nfc.clf.arygon.ChipsetB(self.sim, logger=log), logger=log)
        elif driver == 'rcs380':
            self.sim = cs.Rcs380Sim(self.clock)
            self.device = nfc.clf.rcs380.init(self.sim)
        elif driver == 'udp':
            self.sim = cs.UdpSim(self.clock)
            dev = object.__new__(nfc.clf.udp.Device)
            dev.addr = ('127.0.0.1', 54321)
            dev._path = '127.0.0.1:54321'
            dev.socket = self.sim
            dev.sent_data = dev.rcvd_data = 0
            self.device = dev
            nfc.clf.udp.select = cs.FakeSelectModule(self.sim)
        else:
            raise ValueError(driver)
        self.device._path = 'sim:' + driver
        self.clf = nfc.clf.ContactlessFrontend()
        self.clf.device = self.device
        self.chipset_error = getattr(getattr(self.device, 'chipset', None), 'Error', None)

    def _init_phys(self, driver, log):
        kind = PHYS_KIND[driver]
        if driver == 'pn531':
            self.sim = cs.Pn53xSim('pn531', self.clock)
            self.device = nfc.clf.pn531.init(physical(self.sim, kind))
        elif driver == 'pn532':
            self.sim = cs.Pn53xSim('pn532', self.clock, tty=True)
            self.device = nfc.clf.pn532.Device(nfc.clf.pn532.Chipset(physical(self.sim, kind), logger=log), logger=log)
        elif driver == 'pn533':
            self.sim = cs.Pn53xSim('pn533', self.clock)
            self.device = nfc.clf.pn533.init(physical(self.sim, kind))
        elif driver == 'rcs956':
            self.sim = cs.Pn53xSim('rcs956', self.clock)
            self.device = nfc.clf.rcs956.init(physical(self.sim, kind))
        elif driver == 'acr122':
            self.sim = cs.Acr122Sim(self.clock)
            self.device = nfc.clf.acr122.init(physical(self.sim, kind))
        elif driver == 'arygon-a':
            self.sim = cs.Pn53xSim('pn531', self.clock, arygon=True)
            self.device = nfc.clf.arygon.DeviceA(nfc.clf.arygon.ChipsetA(physical(self.sim, kind), logger=log), logger=log)
        elif driver == 'arygon-b':
            self.sim = cs.Pn53xSim('pn532', self.clock, arygon=True)
            self.device = nfc.clf.arygon.DeviceB(nfc.clf.arygon.ChipsetB(physical(self.sim, kind), logger=log), logger=log)
        elif driver == 'rcs380':
            self.sim = cs.Rcs380Sim(self.clock)
            self.device = nfc.clf.rcs380.init(physical(self.sim, kind))
        else:
            raise ValueError(driver)

    def activate(self):
        """modules share the `time` attribute; make this world's clock current again"""
        cs.install_clock(self.clock, DRIVER_MODULES)
        if self.driver == 'udp':
            nfc.clf.udp.select = cs.FakeSelectModule(self.sim)


HEX = bytes.fromhex
ATR_REQ = HEX('D400 30313233343536373839 00000032 46666d010113')
ATR_RES = HEX('D501 30313233343536373839 0000000932 46666d010113')
SENSF_RES = HEX('01 0102030405060708 0f0e0d0c0b0a0908 12fc')


def R(brty, **kw):
    kw = {k: (bytearray(v) if isinstance(v, (bytes, bytearray)) else v) for k, v in kw.items()}
    return nfc.clf.RemoteTarget(brty, **kw)


def L(brty, **kw):
    kw = {k: (bytearray(v) if isinstance(v, (bytes, bytearray)) else v) for k, v in kw.items()}
    return nfc.clf.LocalTarget(brty, **kw)


def tt1_remote(cmd):
    """a Topaz-like tag: answers RID, READ, RALL, READ8, RSEG with plausible data"""
    if not cmd:
        return b''
    c = cmd[0]
    if c == 0x78:
        return HEX('1148') + HEX('01020304')
    if c == 0x01:
        return bytes([cmd[1] if len(cmd) > 1 else 0, 0x5A])
    if c == 0x00:
        return HEX('1148') + bytes(range(120))
    if c == 0x02:
        return bytes([cmd[1] if len(cmd) > 1 else 0]) + bytes(range(8))
    if c in (0x53, 0x1A):
        return bytes([cmd[1] if len(cmd) > 1 else 0, cmd[2] if len(cmd) > 2 else 0])
    if c in (0x54, 0x1B):
        return bytes(cmd[1:10])
    return b''


def tt2_remote(cmd):
    d = bytes(range(16))
    return d + cs.crc_a(d)


def echo_remote(cmd):
    return bytes(cmd[:1]) + b'\x90\x00ok'


class Scenario(object):
    def __init__(self, name, kind, target, send, timeout, remote=None, cmds=None, drivers=None, field_off=False):
        self.name, self.kind, self.target, self.send, self.timeout = name, kind, target, send, timeout
        self.remote, self.cmds, self.drivers, self.field_off = remote, cmds, drivers, field_off


TT1_DRIVERS = {'pn532', 'pn533', 'rcs956', 'arygon-b', 'rcs380', 'udp'}
TTB_DRIVERS = {'pn532', 'pn533', 'rcs956', 'acr122', 'arygon-b', 'rcs380', 'udp'}
LISTEN_DRIVERS = {'pn531', 'pn532', 'pn533', 'rcs956', 'arygon-a', 'arygon-b', 'rcs380', 'udp'}
TT3_LISTEN = {'pn531', 'pn532', 'pn533', 'arygon-a', 'arygon-b', 'rcs380', 'udp'}   # rcs956: listen_ttf unsupported

SCENARIOS = [
    # ---- initiator side (RemoteTarget -> send_cmd_recv_rsp)
    Scenario('tt1-rid', 'Type1', lambda: R('106A', sens_res=HEX('000c'), rid_res=HEX('114801020304')),
             HEX('78000000000000'), 0.1, tt1_remote, drivers=TT1_DRIVERS),
    Scenario('tt1-read', 'Type1', lambda: R('106A', sens_res=HEX('000c'), rid_res=HEX('114801020304')),
             HEX('01080001020304'), 0.1, tt1_remote, drivers=TT1_DRIVERS),
    Scenario('tt1-read8', 'Type1', lambda: R('106A', sens_res=HEX('000c'), rid_res=HEX('124c01020304')),
             HEX('020301020304'), 0.1, tt1_remote, drivers=TT1_DRIVERS),
    Scenario('tt1-rseg', 'Type1', lambda: R('106A', sens_res=HEX('000c'), rid_res=HEX('124c01020304')),
             HEX('101000000000000000000001020304'), 0.1, tt1_remote, drivers=TT1_DRIVERS),
    Scenario('tt2-read', 'Type2', lambda: R('106A', sens_res=HEX('4400'), sel_res=HEX('00'), sdd_res=HEX('04112233445566')),
             HEX('3004'), 0.1, tt2_remote),
    Scenario('tt3-check', 'Type3', lambda: R('212F', sensf_res=SENSF_RES),
             HEX('10 06 0102030405060708 01 0b00 01 8000'), 0.1, lambda c: HEX('0c07010203040506070800')),
    Scenario('tt4a-apdu', 'Type4', lambda: R('106A', sens_res=HEX('4403'), sel_res=HEX('20'), sdd_res=HEX('04112233445566')),
             HEX('0200a4040007d276000085010100'), 0.1, echo_remote),
    Scenario('tt4b-apdu', 'Type4', lambda: R('106B', sensb_res=HEX('50E8253EEC00000011008185')),
             HEX('0200a4040007d276000085010100'), 0.1, echo_remote, drivers=TTB_DRIVERS),
    Scenario('dep-ini-passive-a', 'DEP-initiator', lambda: R('106A', sens_res=HEX('4400'), sel_res=HEX('40'), sdd_res=HEX('08112233'),
                                                             atr_req=ATR_REQ, atr_res=ATR_RES),
             HEX('f006d40600000102'), 0.1, lambda c: HEX('f006d50700000102')),
    Scenario('dep-ini-passive-f', 'DEP-initiator', lambda: R('424F', sensf_res=SENSF_RES, atr_req=ATR_REQ, atr_res=ATR_RES),
             HEX('06d40600000102'), 0.1, lambda c: HEX('06d50700000102')),
    Scenario('dep-ini-active', 'DEP-initiator', lambda: R('424F', atr_req=ATR_REQ, atr_res=ATR_RES),
             HEX('06d40600000102'), 0.1, lambda c: HEX('06d50700000102'), drivers={'pn531', 'pn532', 'pn533', 'rcs956', 'acr122', 'arygon-a', 'arygon-b'}),
    # ---- target side (LocalTarget -> send_rsp_recv_cmd): the listen modes
    Scenario('listen-tt2', 'listen-Type2', lambda: L('106A', tt2_cmd=HEX('3000'), sens_res=HEX('0101'), sdd_res=HEX('08010203'), sel_res=HEX('00')),
             bytes(range(16)), 0.1, cmds=[HEX('3004')], drivers=LISTEN_DRIVERS),
    Scenario('listen-tt3', 'listen-Type3', lambda: L('212F', tt3_cmd=HEX('060102030405060708010b00018000'), sensf_res=SENSF_RES),
             HEX('1d07010203040506070800000100112233445566778899aabbccddeeff'), 0.1,
             cmds=[HEX('10060102030405060708010b00018001')], drivers=TT3_LISTEN),
    Scenario('listen-tt3-first', 'listen-Type3', lambda: L('424F', tt3_cmd=HEX('060102030405060708010b00018000'), sensf_res=SENSF_RES),
             None, 0.1, cmds=[HEX('10060102030405060708010b00018001')], drivers=TT3_LISTEN),
    Scenario('listen-tt3-rfoff', 'listen-Type3', lambda: L('212F', tt3_cmd=HEX('060102030405060708010b00018000'), sensf_res=SENSF_RES),
             HEX('0507010203'), 0.1, cmds=[], drivers={'pn531', 'pn532', 'pn533', 'arygon-a', 'arygon-b'}, field_off=True),
    Scenario('listen-tt4', 'listen-Type4', lambda: L('106A', tt4_cmd=HEX('0200a4040007d276000085010100'), sens_res=HEX('0101'),
                                                     sdd_res=HEX('08010203'), sel_res=HEX('20')),
             HEX('029000'), 0.1, cmds=[HEX('0300b0000002')], drivers=LISTEN_DRIVERS),
    Scenario('dep-target', 'DEP-target', lambda: L('424F', dep_req=HEX('d40600000102'), atr_req=ATR_REQ, atr_res=ATR_RES, sensf_res=SENSF_RES),
             HEX('06d50700000102'), 0.1, cmds=[HEX('06d40601000102')], drivers=LISTEN_DRIVERS),
    Scenario('dep-target-silent', 'DEP-target', lambda: L('106A', dep_req=HEX('d40600000102'), atr_req=ATR_REQ, atr_res=ATR_RES,
                                                          sens_res=HEX('0101'), sdd_res=HEX('08010203'), sel_res=HEX('40')),
             None, 0.1, cmds=[HEX('f006d40601000102')], drivers=LISTEN_DRIVERS),
]


def scenarios_for(driver):
    return [s for s in SCENARIOS if s.drivers is None or driver in s.drivers]


def setup(world, sc):
    """prepare simulator RF side and the frontend target for one exchange"""
    sim = world.sim
    world.clf.target = sc.target()
    if world.driver == 'udp':
        world.clf.target._addr = ('127.0.0.1', 54321)
        if sc.remote is not None:
            sim.remote = lambda brty, data, f=sc.remote: (brty, f(data))
        else:
            cmds = list(sc.cmds or [])
            brty = world.clf.target.brty
            sim.remote = lambda b, data, q=cmds: ((b, q.pop(0)) if q else None)
            if sc.send is None:
                sim.pending = [('%s %s' % (brty, c.hex())).encode() for c in cmds]
        return
    sim.remote = sc.remote or (lambda d: b'')
    sim.initiator_cmds = list(sc.cmds or [])
    if hasattr(sim, 'field_off'):
        sim.field_off = sc.field_off
        sim.fifo = bytearray()
        sim.txfifo = bytearray()
        sim.commirq = sim.divirq = 0
        sim.rx_armed = sim.tt1_armed = False


USE_SCENARIO = object()


def outcome(world, sc, timeout=USE_SCENARIO):
    """run one ContactlessFrontend.exchange; returns (tag, detail) where tag is 'ok' or the
    fully qualified exception class name"""
    world.clock.restart()
    try:
        r = world.clf.exchange(sc.send, sc.timeout if timeout is USE_SCENARIO else timeout)
    except BaseException as e:  # noqa: everything is an observation here
        t = type(e)
        return 'exc', t, e
    return 'ok', r, None
