"""C16 environment: a fault-injecting contactless frontend in front of the tag simulators, the
ISO-DEP coupling of the Type 4 card simulator, NDEF-capable FeliCa Lite cards, and the
instrumentation that groups clf.exchange() calls by the tag-level command that issued them.

Nothing in here is a model of nfcpy: it is the air and the tags.

  FaultClf(inner)        exchange() number pos .. pos+burst-1 (counted from arm()) fail with the
                         chosen CommunicationError class; mode 'req' = the command never reaches
                         the tag, mode 'rsp' = the tag executes it and the response is lost.
  hook_commands(tag,clf) wraps transceive / send_cmd_recv_rsp of this tag object so that every
                         tag-level command is recorded with the outcomes of its attempts.
"""
import nfc.clf
import nfc.tag
import nfc.tag.tt1
import nfc.tag.tt2
import nfc.tag.tt3
import nfc.tag.tt4

from sim.tag_t1t2 import T2TSim, T1TSim, FakeClf as TlvClf
from sim.tag_t3t4 import SimT3Tag, T3Session, SimT4Card, T4Session, t3_attribute_block, t4_cc
from sim.isodep_card import Card
from sim.auth_tags import FelicaLiteCard, Ntag21xCard


class OtherCommError(nfc.clf.CommunicationError):
    """a CommunicationError subclass that is none of Timeout / Transmission / Protocol"""


KINDS = {'T': nfc.clf.TimeoutError, 'X': nfc.clf.TransmissionError, 'P': nfc.clf.ProtocolError,
         'B': nfc.clf.BrokenLinkError, 'O': OtherCommError, 'C': nfc.clf.CommunicationError}
KIND_NAME = {'T': 'timeout', 'X': 'transmission', 'P': 'protocol', 'B': 'brokenlink', 'O': 'other', 'C': 'base'}
# reason code the property text asks for ("the matching reason code")
KIND_ERRNO = {'T': nfc.tag.TIMEOUT_ERROR, 'X': nfc.tag.RECEIVE_ERROR, 'P': nfc.tag.PROTOCOL_ERROR}


class Runaway(Exception):
    """more exchanges than any bounded operation could need"""


class SimClock(object):
    """simulated time: stands in for the `time` module of the tag modules (and, while an operation runs, for
    time.time / time.monotonic / time.sleep globally).  The fake frontend advances it by the granted timeout on a
    timeout and by the card's response time otherwise."""

    def __init__(self):
        self.now = 1000.0

    def time(self):
        return self.now

    monotonic = perf_counter = time

    def sleep(self, s):
        self.now += max(0.0, s)

    def __getattr__(self, name):       # strftime etc.
        import time as _t
        return getattr(_t, name)

    def __enter__(self):
        import time as _t
        self.saved = (_t.time, _t.monotonic, _t.sleep)
        _t.time, _t.monotonic, _t.sleep = self.time, self.monotonic, self.sleep
        return self

    def __exit__(self, *a):
        import time as _t
        _t.time, _t.monotonic, _t.sleep = self.saved


CLOCK = SimClock()


def install_clock():
    """replace the `time` module object of every nfc.tag module that imported it"""
    import sys
    import time as _t
    for name, mod in list(sys.modules.items()):
        if name.startswith('nfc.tag') and mod is not None and getattr(mod, 'time', None) is _t:
            mod.time = CLOCK


class FaultClf(object):
    def __init__(self, inner, limit=20000):
        self.inner = inner
        self.plan = None          # (pos, kind, burst, mode)
        self.n = 0                # exchanges since arm()
        self.trace = []           # (command bytes, outcome, response) outcome: 'A' answered | injected kind letter (upper
        #                           case: response lost, lower case: command lost) | 's' simulator silent
        self.delivered = []       # (command bytes, answered) for every command the tag actually received
        self.calls = []           # per tag-level command, filled by hook_commands
        self.limit = limit
        self.senses = 0
        self.plan2 = None         # a second burst (same format), at an absolute exchange index
        self.slow = 0.05          # response time of the card as a fraction of the granted timeout
        self.longest = 0.0        # longest simulated duration of one exchange

    def tick(self, timeout, answered):
        dt = (timeout or 0.0) * (1.0 if not answered else self.slow)
        CLOCK.now += dt
        self.longest = max(self.longest, dt)

    def __getattr__(self, name):          # max_send_data_size, tag, ...
        return getattr(self.inner, name)

    def arm(self, plan=None, plan2=None):
        self.plan = plan
        self.plan2 = plan2
        self.n = 0
        self.trace = []
        self.delivered = []
        self.calls = []
        self.senses = 0

    def sense(self, *targets, **kw):
        self.senses += 1
        return self.inner.sense(*targets, **kw)

    def exchange(self, data, timeout):
        i = self.n
        self.n += 1
        if self.n > self.limit:
            raise Runaway()
        cmd = bytes(data)
        hit = None
        for pl in (self.plan, self.plan2):
            if pl is not None and pl[0] <= i < pl[0] + pl[2]:
                hit = pl
        if hit is not None:
            kind, mode = hit[1], hit[3]
            lost = None
            if mode == 'rsp':
                try:
                    lost = bytes(self.inner.exchange(data, timeout))
                except nfc.clf.CommunicationError:
                    pass
                self.delivered.append((cmd, False))
            self.trace.append((cmd, kind if mode == 'rsp' else kind.lower(), lost))
            self.tick(timeout, kind != 'T')
            raise KINDS[kind]("injected")
        try:
            rsp = self.inner.exchange(data, timeout)
        except nfc.clf.TimeoutError:
            self.delivered.append((cmd, False))
            self.trace.append((cmd, 's', None))
            self.tick(timeout, False)
            raise
        self.tick(timeout, True)
        self.delivered.append((cmd, True))
        self.trace.append((cmd, 'A', bytes(rsp)))
        return rsp


def hook_commands(tag, clf):
    """record every transceive()/send_cmd_recv_rsp() call of this tag object in clf.calls:
    dict(name, retries, present, attempts=[outcome letters], res=('ok',)|('tce',errno)|('exc',name))"""
    if isinstance(tag, nfc.tag.tt3.Type3Tag):
        name = 'send_cmd_recv_rsp'
    elif isinstance(tag, (nfc.tag.tt1.Type1Tag, nfc.tag.tt2.Type2Tag)):
        name = 'transceive'
    else:
        return
    orig = getattr(tag, name)

    def wrapped(*a, **kw):
        start = len(clf.trace)
        dstart = len(clf.delivered)
        rec = {'name': name, 'retries': kw.get('retries', 2), 'present': bool(getattr(tag, 'target', True))}
        try:
            r = orig(*a, **kw)
            rec['res'] = ('ok',)
            return r
        except nfc.tag.TagCommandError as e:
            rec['res'] = ('tce', e.errno)
            raise
        except BaseException as e:  # noqa
            rec['res'] = ('exc', type(e).__name__)
            raise
        finally:
            rec['attempts'] = [t[1] for t in clf.trace[start:]]
            rec['first'] = start
            rec['delivered'] = ''.join('a' if a else 'u' for (_c, a) in clf.delivered[dstart:])
            rec['cmd'] = clf.trace[start][0] if len(clf.trace) > start else b''
            clf.calls.append(rec)
    setattr(tag, name, wrapped)


# ----------------------------------------------------------------------------- Type 1 / Type 2 worlds
def t2_memory(npages, ndef=b'', cc_ro=False, extra_tlv=b'', size_byte=None):
    """a formatted Type 2 tag image: UID pages, CC, optional control TLVs, NDEF TLV, terminator"""
    mem = bytearray(4 * npages)
    mem[0:10] = bytes.fromhex('04517CA1E1ED25800A48')  # uid0-2 bcc0 uid3-6 bcc1 int
    data_area = 4 * npages - 16
    if npages > 16:
        data_area -= 8            # room for the dynamic lock bytes behind the data area
    if size_byte is None:
        size_byte = min(data_area // 8, 255)
    mem[12:16] = bytes([0xE1, 0x10, size_byte, 0x0F if cc_ro else 0x00])
    body = bytes(extra_tlv)
    if len(ndef) < 255:
        body += bytes([3, len(ndef)]) + bytes(ndef)
    else:
        body += bytes([3, 255, len(ndef) >> 8, len(ndef) & 255]) + bytes(ndef)
    body += b'\xFE'
    mem[16:16 + len(body)] = body
    return mem


def t1_memory(dynamic, ndef=b'', blank=False):
    hr = bytes([0x12, 0x4C]) if dynamic else bytes([0x11, 0x48])
    mem = bytearray(512 if dynamic else 120)
    mem[0:7] = bytes.fromhex('01020304050607')
    if not blank:
        if dynamic:
            mem[8:24] = bytes.fromhex('E1103F000103F230330203F002030300')
            body = bytes([3, len(ndef)]) + bytes(ndef) + b'\xFE' if len(ndef) < 255 else \
                bytes([3, 255, len(ndef) >> 8, len(ndef) & 255]) + bytes(ndef) + b'\xFE'
            # data continues after the reserved bytes 104..127 (lock/reserved) -> keep messages short
            pos = 22
            mem[pos:pos + len(body)] = body
        else:
            mem[8:12] = bytes.fromhex('E1100E00')
            body = bytes([3, len(ndef)]) + bytes(ndef) + b'\xFE'
            mem[12:12 + len(body)] = body
    return hr, mem


class World(object):
    """one activated tag: sim (tag side), clf (FaultClf), tag (nfcpy object)"""

    def memory(self):
        raise NotImplementedError

    def writes(self):
        """state-changing commands the tag executed, in order (canonical tuples)"""
        raise NotImplementedError


class TlvWorld(World):
    def __init__(self, sim, expect=None):
        self.sim = sim
        self.inner = TlvClf(sim)
        self.clf = FaultClf(self.inner)
        self.tag = nfc.tag.activate(self.clf, sim.target())
        if expect is not None:
            assert type(self.tag).__name__ == expect, (type(self.tag).__name__, expect)
        hook_commands(self.tag, self.clf)
        self.w0 = len(sim.log)

    def memory(self):
        return bytes(self.sim.mem)

    def writes(self):
        return [(a, req) for (a, _old, req, _res) in self.sim.log[self.w0:]]

    def is_write(self, cmd):
        return cmd[:1] in (b'\xA2', b'\x53', b'\x1A', b'\x54', b'\x1B')


# ----------------------------------------------------------------------------- NTAG21x (password protected)
class CardClf(object):
    """a card with process(cmd) -> bytes | None behind exchange(); sense() re-activates it"""

    def __init__(self, card, target=None):
        self.card = card
        self.target_ = target
        self.log = []                      # executed state-changing commands

    def exchange(self, data, timeout):
        cmd = bytes(data)
        before = self.snapshot()
        rsp = self.card.process(cmd)
        if self.snapshot() != before or self.is_write(cmd, rsp):
            self.log.append(cmd)
        if rsp is None:
            raise nfc.clf.TimeoutError("no response")
        return bytearray(rsp)

    def snapshot(self):
        return repr(sorted(self.card.mem.items()))

    def is_write(self, cmd, rsp):
        return False

    def sense(self, *targets, **kw):
        if hasattr(self.card, 'reselect'):
            self.card.reselect()
        return targets[0] if targets else self.target_


class NtagClf(CardClf):
    def is_write(self, cmd, rsp):
        return cmd[:1] == b'\xA2' and rsp == b'\x0a'


class NtagWorld(World):
    def __init__(self, cfg=41, init=None):
        self.card = Ntag21xCard(cfg=cfg, init=init)
        t = nfc.clf.RemoteTarget("106A")
        t.sens_res = bytearray.fromhex("4400")
        t.sel_res = bytearray.fromhex("00")
        t.sdd_res = bytearray.fromhex("04517CA1E1ED2580")
        self.inner = NtagClf(self.card, t)
        self.clf = FaultClf(self.inner)
        self.tag = nfc.tag.activate(self.clf, t)
        assert isinstance(self.tag, nfc.tag.tt2_nxp.NTAG21x), type(self.tag)
        hook_commands(self.tag, self.clf)
        self.inner.log = []

    def memory(self):
        return repr(sorted(self.card.mem.items()))

    def writes(self):
        return list(self.inner.log)


# ----------------------------------------------------------------------------- Type 3 worlds
class T3World(World):
    def __init__(self, blocks, **kw):
        self.sim = SimT3Tag(blocks, **kw)
        self.inner = T3Session(self.sim)
        self.clf = FaultClf(self.inner)
        self.tag = nfc.tag.activate(self.clf, self.inner.target())
        assert type(self.tag) is nfc.tag.tt3.Type3Tag, type(self.tag)
        hook_commands(self.tag, self.clf)

    def memory(self):
        return self.sim.memory()

    def writes(self):
        return [(tuple(r['blocks']), r['data']) for r in self.inner.log]


def t3_blocks(nblocks, ndef=b'', nbr=4, nbw=2, rw=1):
    a = t3_attribute_block(0x10, nbr, nbw, nblocks - 1, 0, rw, len(ndef))
    data = bytes(ndef) + bytes(-len(ndef) % 16)
    blocks = [bytes(a)] + [data[i:i + 16] for i in range(0, len(data), 16)]
    while len(blocks) < nblocks:
        blocks.append(bytes(16))
    return blocks[:nblocks]


class NdefLiteCard(FelicaLiteCard):
    """FeliCa Lite / Lite-S whose NDEF system (12FCh) can be polled when the MC block says so"""

    def process(self, cmd):
        cmd = bytes(cmd)
        if len(cmd) == 6 and cmd[1] == 0x00 and cmd[2:4] == b'\x12\xfc':
            if self.mem[0x88][3] & 1:
                rsp = bytes([1]) + self.idm + bytes([0, 0xF1 if self.lites else 0xF0]) + b'\xff' * 6
                if cmd[4] == 1:
                    rsp += b'\x12\xfc'
                return bytes([1 + len(rsp)]) + rsp
            return None
        return FelicaLiteCard.process(self, cmd)


class LiteClf(CardClf):
    def is_write(self, cmd, rsp):
        return len(cmd) > 1 and cmd[1] == 0x08 and rsp is not None and len(rsp) >= 12 and rsp[10] == 0

    def snapshot(self):
        return repr(sorted(self.card.mem.items())) + repr(self.card.ext)


class LiteWorld(World):
    def __init__(self, lites, init=None, ndef_sys=True):
        self.card = NdefLiteCard(lites=lites, init=init)
        t = nfc.clf.RemoteTarget("212F")
        sysc = b'\x12\xfc' if ndef_sys else b'\x88\xb4'
        t.sensf_res = bytearray(b'\x01' + self.card.idm + bytes([0, 0xF1 if lites else 0xF0]) + b'\xff' * 6 + sysc)
        self.inner = LiteClf(self.card, t)
        self.clf = FaultClf(self.inner)
        self.tag = nfc.tag.activate(self.clf, t)
        want = nfc.tag.tt3_sony.FelicaLiteS if lites else nfc.tag.tt3_sony.FelicaLite
        assert type(self.tag) is want, type(self.tag)
        hook_commands(self.tag, self.clf)
        self.inner.log = []

    def memory(self):
        return self.inner.snapshot()

    def writes(self):
        return list(self.inner.log)


def lite_init(ndef=b'', nmaxb=13, formatted=True, key=None):
    """initial blocks of a FeliCa Lite(-S): NDEF attribute block + data, MC with the NDEF flag"""
    init = {}
    if formatted:
        init[0] = bytes(t3_attribute_block(0x10, 4, 1, nmaxb, 0, 1, len(ndef)))
        data = bytes(ndef) + bytes(-len(ndef) % 16)
        for i in range(0, len(data), 16):
            init[1 + i // 16] = data[i:i + 16]
        init[0x88] = bytes([255, 255, 255, 1, 7, 0, 0, 0, 0, 0, 0, 0, 0, 0, 0, 0])
    else:
        init[0x88] = bytes([255, 255, 255, 0, 7, 0, 0, 0, 0, 0, 0, 0, 0, 0, 0, 0])
    if key is not None:
        init[0x87] = bytes(key[7::-1] + key[15:7:-1])
    return init


# ----------------------------------------------------------------------------- Type 4 over real ISO-DEP
class T4IsoClf(object):
    """fake clf: RATS is answered here, every other frame is an ISO-DEP block for the card of
    sim/isodep_card.py whose application is the Type 4 card of sim/tag_t3t4.py"""
    max_send_data_size = 256
    max_recv_data_size = 256

    def __init__(self, t4card, fwi=8, fsci=8, cmiu=253, wtx=()):
        self.t4 = T4Session(t4card)
        self.fwi = fwi
        self.rats = bytearray([0x06, 0x75, 0x77, (fwi << 4) | 1, 0x02, 0x80])
        self.rats[1] = 0x70 | fsci
        self.picc = Card(cfsc=(16, 24, 32, 40, 48, 64, 96, 128, 256)[fsci], cmiu=cmiu, app=self._app, plan=wtx)
        self.activated = False

    def _app(self, n, apdu):
        return self.t4.apdu(apdu)

    def exchange(self, data, timeout):
        if not self.activated:
            self.activated = True
            assert bytes(data[:1]) == b'\xE0'
            return bytearray(self.rats)
        rsp = self.picc.absorb(bytes(data))
        if rsp is None:
            raise nfc.clf.TimeoutError("mute")
        return bytearray(rsp)

    def sense(self, *targets, **kw):
        return targets[0] if targets else None


class T4World(World):
    def __init__(self, card, fwi=8, fsci=8, cmiu=253, wtx=()):
        self.card = card
        self.inner = T4IsoClf(card, fwi=fwi, fsci=fsci, cmiu=cmiu, wtx=wtx)
        self.clf = FaultClf(self.inner)
        t = nfc.clf.RemoteTarget("106A")
        t.sens_res = bytearray.fromhex("4403")
        t.sel_res = bytearray.fromhex("20")
        t.sdd_res = bytearray.fromhex("04832F9A272D80")
        self.tag = nfc.tag.activate(self.clf, t)
        assert type(self.tag) is nfc.tag.tt4.Type4ATag, type(self.tag)
        self.n_retry = self.tag._dep.n_retry_nak
        self.sent = []                     # command APDUs handed to the ISO-DEP layer
        dep_exchange = self.tag._dep.exchange

        def exchange(command, timeout=None):
            if command is not None:
                self.sent.append(bytes(command))
            return dep_exchange(command, timeout)
        self.tag._dep.exchange = exchange

    def memory(self):
        return repr(self.card.memory())

    def writes(self):
        return [(r['fid'], r['offset'], r['data']) for r in self.inner.t4.log]

    def apdus(self):
        return list(self.inner.picc.execs)


def t4_card(ndef=b'', mle=64, mlc=48, mfs=256, wf=0):
    fid = b'\xE1\x04'
    cc = t4_cc(2, mle, mlc, fid, mfs, 0, wf)
    f = bytearray(mfs)
    f[0:2] = len(ndef).to_bytes(2, 'big')
    f[2:2 + len(ndef)] = ndef
    return SimT4Card(cc, fid, f)


# ----------------------------------------------------------------------------- Mifare Ultralight C
class UlcSim(T2TSim):
    """MF0ICU2: 48 pages, 3DES mutual authentication (AUTHENTICATE 1Ah / AFh) with the key held in
    pages 44..47; the cipher is pyDes (the card is environment, the reader side under test is
    nfc.tag.tt2_nxp.MifareUltralightC)"""
    RNDB = bytes.fromhex('A1B2C3D4E5F60718')

    def __init__(self, mem):
        T2TSim.__init__(self, mem, version=None)
        assert self.npages == 48
        self.readonly = set(range(0, 10))
        self.oneway = set(range(10, 16)) | set(range(160, 164))
        self.auth_step = None
        self.authed = False

    def key(self):
        m = self.mem
        return bytes(reversed(m[176:184])) + bytes(reversed(m[184:192]))

    def command(self, data):
        from pyDes import triple_des, CBC
        data = bytes(data)
        if self.dead or self.mute:
            return T2TSim.command(self, data)
        if data == b'\x1A\x00':
            self.ncmd += 1
            self.m1 = triple_des(self.key(), CBC, bytes(8)).encrypt(self.RNDB)
            self.auth_step = 1
            return bytearray(b'\xAF' + self.m1)
        if len(data) == 17 and data[0] == 0xAF:
            self.ncmd += 1
            if self.auth_step != 1:
                self.auth_step = None
                return bytearray(b'\x00')
            self.auth_step = None
            m2 = data[1:17]
            plain = triple_des(self.key(), CBC, self.m1).decrypt(m2)
            ra, rb = plain[0:8], plain[8:16]
            if rb != self.RNDB[1:] + self.RNDB[:1]:
                self.authed = False
                return bytearray(b'\x00')
            self.authed = True
            self.log.append((-1, b'', b'auth', b'ok'))
            return bytearray(b'\x00' + triple_des(self.key(), CBC, m2[8:16]).encrypt(ra[1:] + ra[:1]))
        self.auth_step = None
        if len(data) == 2 and data[0] == 0x30 and data[1] >= 44 and data[1] < 48:
            self.ncmd += 1
            return bytearray(b'\x00')          # the key pages can not be read
        return T2TSim.command(self, data)


class UlcClf(TlvClf):
    def sense(self, *targets, **kw):
        self.tag.auth_step = None
        self.tag.authed = False
        return TlvClf.sense(self, *targets, **kw)


class UlcWorld(TlvWorld):
    def __init__(self, ndef=b''):
        mem = t2_memory(48, ndef, size_byte=18)
        mem[176:192] = b'BREAKMEIFYOUCAN!'
        mem[168] = 48                      # AUTH0: no page protected
        self.sim = UlcSim(mem)
        self.inner = UlcClf(self.sim)
        self.clf = FaultClf(self.inner)
        self.tag = nfc.tag.activate(self.clf, self.sim.target())
        assert type(self.tag).__name__ == 'MifareUltralightC', type(self.tag)
        hook_commands(self.tag, self.clf)
        self.w0 = len(self.sim.log)


# ----------------------------------------------------------------------------- FeliCa Standard
class FelicaStandardSim(SimT3Tag):
    """a FeliCa Standard card (IC code 01h, RC-S915) with one system (12FCh), one area and the two
    overlapped NDEF services; Request Service / Request Response / Search Service Code / Request
    System Code are answered in addition to the commands of SimT3Tag"""

    def __init__(self, blocks, **kw):
        SimT3Tag.__init__(self, blocks, pmm=bytes.fromhex('0101FFFFFFFFFFFF'), **kw)
        self.listing = [(0x0000, 0xFFFE), (0x0009,), (0x000B,)]
        self.mode = 0

    def command(self, frame):
        frame = bytearray(frame)
        if len(frame) >= 10 and frame[0] == len(frame) and frame[1] in (0x02, 0x04, 0x0A, 0x0C) and frame[2:10] == self.idm:
            code, body = frame[1], frame[10:]
            if code == 0x04 and len(body) == 0:
                rsp = self.idm + bytearray([self.mode])
            elif code == 0x0C and len(body) == 0:
                rsp = self.idm + bytearray([1]) + bytearray(b'\x12\xfc')
            elif code == 0x0A and len(body) == 2:
                i = body[0] | body[1] << 8
                if i < len(self.listing):
                    rsp = self.idm + b''.join(v.to_bytes(2, 'little') for v in self.listing[i])
                else:
                    rsp = self.idm + b'\xff\xff'
            elif code == 0x02 and len(body) >= 1 and len(body) == 1 + 2 * body[0]:
                vers = b''
                for j in range(body[0]):
                    sc = body[1 + 2 * j] | body[2 + 2 * j] << 8
                    vers += (b'\x00\x00' if sc in (0x0009, 0x000B, 0x0000) else b'\xff\xff')
                rsp = self.idm + bytearray([body[0]]) + vers
            else:
                return None, None
            return bytearray([2 + len(rsp), code + 1]) + rsp, None
        return SimT3Tag.command(self, frame)


class FelicaStandardWorld(T3World):
    def __init__(self, blocks):
        self.sim = FelicaStandardSim(blocks)
        self.inner = T3Session(self.sim)
        self.clf = FaultClf(self.inner)
        self.tag = nfc.tag.activate(self.clf, self.inner.target())
        assert type(self.tag) is nfc.tag.tt3_sony.FelicaStandard, type(self.tag)
        hook_commands(self.tag, self.clf)
