"""Simulated tags for C20: a FeliCa Lite / Lite-S card and an NTAG21x holding a key, with a
DES / 3DES / MAC computation written independently of nfcpy and of pyDes (integer arithmetic on
64-bit words, the card's little-endian view of its registers as in the FeliCa Lite-S user's
manual), plus the fake contactless frontend that couples real nfcpy tag objects to them and lets a
test modify responses in transit.
"""
import functools

import nfc
import nfc.clf

# ------------------------------------------------------------------ DES on integers (FIPS 46-3)
_IP = (58, 50, 42, 34, 26, 18, 10, 2, 60, 52, 44, 36, 28, 20, 12, 4, 62, 54, 46, 38, 30, 22, 14, 6,
       64, 56, 48, 40, 32, 24, 16, 8, 57, 49, 41, 33, 25, 17, 9, 1, 59, 51, 43, 35, 27, 19, 11, 3,
       61, 53, 45, 37, 29, 21, 13, 5, 63, 55, 47, 39, 31, 23, 15, 7)
_E = (32, 1, 2, 3, 4, 5, 4, 5, 6, 7, 8, 9, 8, 9, 10, 11, 12, 13, 12, 13, 14, 15, 16, 17,
      16, 17, 18, 19, 20, 21, 20, 21, 22, 23, 24, 25, 24, 25, 26, 27, 28, 29, 28, 29, 30, 31, 32, 1)
_P = (16, 7, 20, 21, 29, 12, 28, 17, 1, 15, 23, 26, 5, 18, 31, 10,
      2, 8, 24, 14, 32, 27, 3, 9, 19, 13, 30, 6, 22, 11, 4, 25)
_PC1 = (57, 49, 41, 33, 25, 17, 9, 1, 58, 50, 42, 34, 26, 18, 10, 2, 59, 51, 43, 35, 27, 19, 11, 3, 60, 52, 44, 36,
        63, 55, 47, 39, 31, 23, 15, 7, 62, 54, 46, 38, 30, 22, 14, 6, 61, 53, 45, 37, 29, 21, 13, 5, 28, 20, 12, 4)
_PC2 = (14, 17, 11, 24, 1, 5, 3, 28, 15, 6, 21, 10, 23, 19, 12, 4, 26, 8, 16, 7, 27, 20, 13, 2,
        41, 52, 31, 37, 47, 55, 30, 40, 51, 45, 33, 48, 44, 49, 39, 56, 34, 53, 46, 42, 50, 36, 29, 32)
_ROT = (1, 1, 2, 2, 2, 2, 2, 2, 1, 2, 2, 2, 2, 2, 2, 1)
_SBOX = (
    (14, 4, 13, 1, 2, 15, 11, 8, 3, 10, 6, 12, 5, 9, 0, 7, 0, 15, 7, 4, 14, 2, 13, 1, 10, 6, 12, 11, 9, 5, 3, 8,
     4, 1, 14, 8, 13, 6, 2, 11, 15, 12, 9, 7, 3, 10, 5, 0, 15, 12, 8, 2, 4, 9, 1, 7, 5, 11, 3, 14, 10, 0, 6, 13),
    (15, 1, 8, 14, 6, 11, 3, 4, 9, 7, 2, 13, 12, 0, 5, 10, 3, 13, 4, 7, 15, 2, 8, 14, 12, 0, 1, 10, 6, 9, 11, 5,
     0, 14, 7, 11, 10, 4, 13, 1, 5, 8, 12, 6, 9, 3, 2, 15, 13, 8, 10, 1, 3, 15, 4, 2, 11, 6, 7, 12, 0, 5, 14, 9),
    (10, 0, 9, 14, 6, 3, 15, 5, 1, 13, 12, 7, 11, 4, 2, 8, 13, 7, 0, 9, 3, 4, 6, 10, 2, 8, 5, 14, 12, 11, 15, 1,
     13, 6, 4, 9, 8, 15, 3, 0, 11, 1, 2, 12, 5, 10, 14, 7, 1, 10, 13, 0, 6, 9, 8, 7, 4, 15, 14, 3, 11, 5, 2, 12),
    (7, 13, 14, 3, 0, 6, 9, 10, 1, 2, 8, 5, 11, 12, 4, 15, 13, 8, 11, 5, 6, 15, 0, 3, 4, 7, 2, 12, 1, 10, 14, 9,
     10, 6, 9, 0, 12, 11, 7, 13, 15, 1, 3, 14, 5, 2, 8, 4, 3, 15, 0, 6, 10, 1, 13, 8, 9, 4, 5, 11, 12, 7, 2, 14),
    (2, 12, 4, 1, 7, 10, 11, 6, 8, 5, 3, 15, 13, 0, 14, 9, 14, 11, 2, 12, 4, 7, 13, 1, 5, 0, 15, 10, 3, 9, 8, 6,
     4, 2, 1, 11, 10, 13, 7, 8, 15, 9, 12, 5, 6, 3, 0, 14, 11, 8, 12, 7, 1, 14, 2, 13, 6, 15, 0, 9, 10, 4, 5, 3),
    (12, 1, 10, 15, 9, 2, 6, 8, 0, 13, 3, 4, 14, 7, 5, 11, 10, 15, 4, 2, 7, 12, 9, 5, 6, 1, 13, 14, 0, 11, 3, 8,
     9, 14, 15, 5, 2, 8, 12, 3, 7, 0, 4, 10, 1, 13, 11, 6, 4, 3, 2, 12, 9, 5, 15, 10, 11, 14, 1, 7, 6, 0, 8, 13),
    (4, 11, 2, 14, 15, 0, 8, 13, 3, 12, 9, 7, 5, 10, 6, 1, 13, 0, 11, 7, 4, 9, 1, 10, 14, 3, 5, 12, 2, 15, 8, 6,
     1, 4, 11, 13, 12, 3, 7, 14, 10, 15, 6, 8, 0, 5, 9, 2, 6, 11, 13, 8, 1, 4, 10, 7, 9, 5, 0, 15, 14, 2, 3, 12),
    (13, 2, 8, 4, 6, 15, 11, 1, 10, 9, 3, 14, 5, 0, 12, 7, 1, 15, 13, 8, 10, 3, 7, 4, 12, 5, 6, 11, 0, 14, 9, 2,
     7, 11, 4, 1, 9, 12, 14, 2, 0, 6, 10, 13, 15, 3, 5, 8, 2, 1, 14, 7, 4, 10, 8, 13, 15, 12, 9, 0, 3, 5, 6, 11),
)


def _perm(value, width, table):
    """bit i (1 = most significant of a width-bit word) of the result is bit table[i-1] of value"""
    out = 0
    for src in table:
        out = (out << 1) | ((value >> (width - src)) & 1)
    return out


_INV_IP = tuple(_IP.index(i) + 1 for i in range(1, 65))     # the final permutation is the inverse of IP

_subkey_cache = {}


def _subkeys(key64):
    ks = _subkey_cache.get(key64)
    if ks is None:
        cd = _perm(key64, 64, _PC1)
        c, d = cd >> 28, cd & 0xFFFFFFF
        ks = []
        for r in _ROT:
            c = ((c << r) | (c >> (28 - r))) & 0xFFFFFFF
            d = ((d << r) | (d >> (28 - r))) & 0xFFFFFFF
            ks.append(_perm((c << 28) | d, 56, _PC2))
        if len(_subkey_cache) > 4096:
            _subkey_cache.clear()
        _subkey_cache[key64] = ks = tuple(ks)
    return ks


def _f(r32, k48):
    x = _perm(r32, 32, _E) ^ k48
    out = 0
    for i in range(8):
        six = (x >> (42 - 6 * i)) & 0x3F
        row = ((six >> 4) & 2) | (six & 1)
        col = (six >> 1) & 0xF
        out = (out << 4) | _SBOX[i][16 * row + col]
    return _perm(out, 32, _P)


def des_int(key64, block64, decrypt=False):
    ks = _subkeys(key64)
    if decrypt:
        ks = ks[::-1]
    x = _perm(block64, 64, _IP)
    left, right = x >> 32, x & 0xFFFFFFFF
    for k in ks:
        left, right = right, left ^ _f(right, k)
    return _perm((right << 32) | left, 64, _INV_IP)


@functools.lru_cache(maxsize=1 << 16)
def tdes2_int(k1, k2, block64):
    """two-key triple DES, encrypt-decrypt-encrypt (memoised: a card is asked the same thing again
    whenever a test repeats a script with a different modification in transit)"""
    return des_int(k1, des_int(k2, des_int(k1, block64), decrypt=True))


def des_encrypt_bytes(key, block):
    return des_int(int.from_bytes(key, 'big'), int.from_bytes(block, 'big')).to_bytes(8, 'big')


def tdes_cbc_bytes(key16, iv8, data):
    k1, k2 = int.from_bytes(key16[:8], 'big'), int.from_bytes(key16[8:16], 'big')
    state = int.from_bytes(iv8, 'big')
    out = b''
    for i in range(0, len(data) - len(data) % 8, 8):
        state = tdes2_int(k1, k2, int.from_bytes(data[i:i + 8], 'big') ^ state)
        out += state.to_bytes(8, 'big')
    return out


# ------------------------------------------------------------------ the card's MAC (little-endian registers)
def le(b):
    return int.from_bytes(bytes(b), 'little')


def card_session_key(ck_block, rc_block):
    """(SK1, SK2) as the card computes them from the stored CK and RC blocks"""
    ck1, ck2 = le(ck_block[0:8]), le(ck_block[8:16])
    rc1, rc2 = le(rc_block[0:8]), le(rc_block[8:16])
    sk1 = tdes2_int(ck1, ck2, rc1)
    sk2 = tdes2_int(ck1, ck2, rc2 ^ sk1)
    return sk1, sk2


def card_mac(ka, kb, rc_block, data):
    """CBC-MAC over little-endian 8-byte words of data, keyed (ka, kb), starting from RC1"""
    state = le(rc_block[0:8])
    for i in range(0, len(data) - len(data) % 8, 8):
        state = tdes2_int(ka, kb, le(data[i:i + 8]) ^ state)
    return state.to_bytes(8, 'little') if len(data) >= 8 else b''


def key_to_ck_block(key16):
    """what the card must store in CK so that the reader-side key (as a byte string) matches"""
    key16 = bytes(key16)
    return key16[7::-1] + key16[15:7:-1]


def strip_parity(key):
    return bytes(b & 0xFE for b in bytes(key))


# ------------------------------------------------------------------ FeliCa Lite / Lite-S card
class FelicaLiteCard:
    MC_BLANK = bytes([255, 255, 255, 1, 7, 0, 0, 0, 0, 0, 0, 0, 0, 0, 0, 0])

    def __init__(self, lites=False, idm=bytes(range(1, 9)), init=None, ndef=False):
        self.lites = lites
        self.ndef = ndef          # answers the NFC Forum system code poll (12FCh)
        self.idm = bytes(idm)
        self.mem = {}
        for b in list(range(0, 15)) + list(range(0x80, 0x89)) + ([0x90, 0x91, 0x92] if lites else []):
            self.mem[b] = bytes(16)
        self.mem[0x88] = self.MC_BLANK
        if lites:
            self.mem[0x90] = bytes([0, 254, 255]) + bytes(13)
        for b, v in (init or {}).items():
            assert len(v) == 16
            self.mem[b] = bytes(v)
        self.ext = False

    def init_items(self):
        return dict(self.mem)

    # -- helpers
    def exists(self, b):
        return b in self.mem

    def mac_block(self, data):
        sk1, sk2 = card_session_key(self.mem[0x87], self.mem[0x80])
        m = card_mac(sk1, sk2, self.mem[0x80], data) if len(data) % 8 == 0 else None
        if m is None:
            return bytes(16)
        return m + bytes(16 - len(m))

    def status(self, code, s1, s2, rest=b''):
        body = bytes([code]) + self.idm + bytes([s1, s2]) + bytes(rest)
        return bytes([1 + len(body)]) + body

    def sys_open(self):
        return self.mem[0x88][2] == 0xFF

    def user_writable(self, b):
        mc = self.mem[0x88]
        return bool(((mc[0] | mc[1] << 8) >> b) & 1)

    def plain_writable(self, b):
        if 0 <= b <= 14:
            return self.user_writable(b)
        if b == 0x80:
            return True
        if b in (0x82, 0x83, 0x84, 0x86, 0x87, 0x88):
            return self.sys_open()
        return False

    def mac_writable(self, b):
        if 0 <= b <= 14:
            return self.user_writable(b)
        if b == 0x92:
            return True
        if b in (0x86, 0x87):
            return self.sys_open() or bool(self.mem[0x88][5] & 1)
        return False

    def do_write(self, b, d):
        if b == 0x80:
            self.mem[b] = bytes(d)
            self.ext = False
        elif b == 0x92:
            self.ext = d[0] == 1
        else:
            self.mem[b] = bytes(d)

    @staticmethod
    def parse_block_list(n, rest):
        blocks = []
        for _ in range(n):
            if len(rest) >= 2 and rest[0] == 0x80:
                blocks.append(rest[1])
                rest = rest[2:]
            elif len(rest) >= 3 and rest[0] == 0x00:
                blocks.append(rest[1] | rest[2] << 8)
                rest = rest[3:]
            else:
                return None, None
        return blocks, rest

    # -- command processing; returns response bytes or None (no answer)
    def process(self, cmd):
        cmd = bytes(cmd)
        if len(cmd) < 2 or cmd[0] != len(cmd):
            return None
        code, rest = cmd[1], cmd[2:]
        if code == 0x00:
            if len(rest) == 4 and rest[0] in (0x88, 0xFF) and rest[1] in (0xB4, 0xFF):
                return bytes([18, 1]) + self.idm + bytes([0, 0xF1 if self.lites else 0xF0]) + b'\xff' * 6
            if self.ndef and len(rest) == 4 and rest[0:2] == b'\x12\xfc':
                return bytes([18, 1]) + self.idm + bytes([0, 0xF1 if self.lites else 0xF0]) + b'\xff' * 6
            return None
        if rest[:8] != self.idm:
            return None
        body = rest[8:]
        if code == 0x06:
            if len(body) < 4 or body[:3] != b'\x01\x0b\x00':
                return self.status(7, 0xFF, 0xA1)
            nb = body[3]
            blocks, tail = self.parse_block_list(nb, body[4:])
            if blocks is None or tail != b'':
                return self.status(7, 0xFF, 0xA1)
            if nb < 1 or nb > 4:
                return self.status(7, 0xFF, 0xA2)
            acc = b''
            for b in blocks:
                if b == 0x81:
                    acc += self.mac_block(acc)
                elif not self.exists(b) or b in (0x87, 0x91):
                    return self.status(7, 0x01, 0xA8)
                elif b == 0x92:
                    acc += bytes([1 if self.ext else 0]) + bytes(15)
                else:
                    acc += self.mem[b]
            return self.status(7, 0, 0, bytes([nb]) + acc)
        if code == 0x08:
            if len(body) < 4 or body[:3] != b'\x01\x09\x00':
                return self.status(9, 0xFF, 0xA1)
            nb = body[3]
            blocks, d = self.parse_block_list(nb, body[4:])
            if blocks is None:
                return self.status(9, 0xFF, 0xA1)
            if len(blocks) == 1:
                b = blocks[0]
                if len(d) != 16:
                    return self.status(9, 0xFF, 0xA2)
                if self.exists(b) and self.plain_writable(b):
                    self.do_write(b, d)
                    return self.status(9, 0, 0)
                return self.status(9, 0x01, 0xA8)
            if len(blocks) == 2 and blocks[1] == 0x91:
                b = blocks[0]
                if len(d) != 32:
                    return self.status(9, 0xFF, 0xA2)
                if not (self.lites and self.exists(b) and self.mac_writable(b)):
                    return self.status(9, 0x01, 0xA8)
                data, maca, wcnt = d[0:16], d[16:24], d[24:27]
                w = self.mem[0x90]
                sk1, sk2 = card_session_key(self.mem[0x87], self.mem[0x80])
                expect = card_mac(sk2, sk1, self.mem[0x80], w[0:3] + bytes([0, b, 0, 0x91, 0]) + data)
                if wcnt == w[0:3] and maca == expect:
                    self.do_write(b, data)
                    v = (le(w[0:3]) + 1) & 0xFFFFFF
                    self.mem[0x90] = v.to_bytes(3, 'little') + w[3:]
                    return self.status(9, 0, 0)
                return self.status(9, 0x02, 0xB2)
            return self.status(9, 0xFF, 0xA1)
        return None


# ------------------------------------------------------------------ NTAG21x
class Ntag21xCard:
    VERSION = {16: bytes.fromhex('0004040101000B03'), 37: bytes.fromhex('0004040101000E03'),
               41: bytes.fromhex('0004040201000F03'), 131: bytes.fromhex('0004040201001103'),
               227: bytes.fromhex('0004040201001303')}

    def __init__(self, cfg=41, init=None):
        self.cfg = cfg
        self.mem = {p: bytes(4) for p in range(cfg + 4)}
        self.mem[cfg] = bytes([4, 0, 0, 255])
        self.mem[cfg + 2] = b'\xff\xff\xff\xff'
        self.mem[3] = bytes([0xE1, 0x10, 0x12, 0x00])
        for p, v in (init or {}).items():
            assert len(v) == 4
            self.mem[p] = bytes(v)
        self.reselect()

    def init_items(self):
        return dict(self.mem)

    def reselect(self):
        """activation: the access configuration is loaded from the EEPROM, authentication state is reset"""
        c = self.cfg
        self.auth0 = self.mem[c][3]
        self.prot = bool(self.mem[c + 1][0] & 0x80)
        self.pwd = self.mem[c + 2]
        self.pack = self.mem[c + 3][0:2]
        self.authed = False

    def read_page(self, p):
        q = p % (self.cfg + 4)
        if q == self.cfg + 2:
            return bytes(4)
        if q == self.cfg + 3:
            return bytes(2) + self.mem[q][2:]
        return self.mem[q]

    def process(self, cmd):
        cmd = bytes(cmd)
        npages = self.cfg + 4
        auth0, prot = self.auth0, self.prot
        if len(cmd) == 2 and cmd[0] == 0x30:
            p = cmd[1]
            if p >= npages:
                return b'\x00'
            if prot and not self.authed and p >= auth0:
                return b'\x00'
            return b''.join(self.read_page(p + i) for i in range(4))
        if len(cmd) == 6 and cmd[0] == 0xA2:
            p = cmd[1]
            if p < 2 or p >= npages:
                return b'\x00'
            if not self.authed and p >= auth0:
                return b'\x00'
            self.mem[p] = cmd[2:6]
            return b'\x0a'
        if len(cmd) == 5 and cmd[0] == 0x1B:
            if cmd[1:5] == self.pwd:
                self.authed = True
                return self.pack
            self.authed = False
            return b'\x00'
        if cmd == b'\x60':
            return self.VERSION[self.cfg]
        return None


# ------------------------------------------------------------------ fake frontend
class FakeClf(nfc.ContactlessFrontend):
    """exchange() hands the command to the simulated card; response number `mutate[0]` (counted
    over the responses that exist) is passed through `mutate[1]` (bytes -> bytes) on its way back;
    `tamper`, when set, sees every command/response pair (an adversary that keeps modifying).
    The transcript records what the reader saw."""

    def __init__(self, card):
        super(FakeClf, self).__init__()
        self.card = card
        self.mutations = {}
        self.transcript = []          # (command, response-as-seen | None)
        self.true_rsp = []            # responses as the card sent them
        self.nrsp = 0
        self.sense_target = None
        self.recording = True
        self.tamper = None            # persistent adversary: (command, response) -> response, applied to every response
        self.events = []              # what the card saw: ('x', command, response) | ('s',)

    def exchange(self, send_data, timeout):
        cmd = bytes(send_data)
        rsp = self.card.process(cmd)
        seen = rsp
        if rsp is not None:
            if self.nrsp in self.mutations:
                seen = bytes(self.mutations[self.nrsp](rsp))
            self.nrsp += 1
            if self.tamper is not None:
                seen = bytes(self.tamper(cmd, seen))
        if self.recording:
            self.transcript.append((cmd, seen))
            self.true_rsp.append(rsp)
            self.events.append(('x', cmd, rsp))
        if seen is None:
            raise nfc.clf.TimeoutError("no response")
        return bytearray(seen)

    def sense(self, *targets, **options):
        if hasattr(self.card, 'reselect'):
            self.card.reselect()
            if self.recording:
                self.events.append(('s',))
        return self.sense_target


def felica_block_tamper(masks, once=False):
    """adversary for FakeClf.tamper: whenever a Read Without Encryption response carries block n with n in
    `masks` (block number -> 16-byte xor mask; 81h is the MAC block) the mask is applied to that block's data.
    once=True: only the first response that carries such a block is modified."""
    state = {'done': False}

    def tamper(cmd, rsp):
        if once and state['done']:
            return rsp
        if len(cmd) < 14 or cmd[1] != 0x06 or len(rsp) < 13 or rsp[1] != 0x07 or rsp[10] != 0:
            return rsp
        n = cmd[13]
        blocks, pos = [], 14
        for _ in range(n):
            if pos < len(cmd) and cmd[pos] == 0x80:
                blocks.append(cmd[pos + 1])
                pos += 2
            else:
                return rsp
        out = bytearray(rsp)
        hit = False
        for i, b in enumerate(blocks):
            if b in masks and 13 + 16 * (i + 1) <= len(out):
                for k in range(16):
                    out[13 + 16 * i + k] ^= masks[b][k]
                hit = True
        if hit:
            state['done'] = True
        return bytes(out)
    return tamper
