"""ISO/IEC 14443-4 card (PICC) half-duplex block protocol, written from the standard
(7.5.3 block numbering rules C, D, E; 7.5.4 block handling rules 2, 3, 9-13; 7.5.6 error
handling: the PICC attempts no recovery and stays mute on any transmission/protocol error),
plus the scripted air used by C12 (and C16).

This file is the Python transliteration of the Coq PICC in coq/Model/IsoDep.v
(picc_absorb / picc_emit / demo_app / air).  harness/prop/c12.py checks it against the
extracted Coq PICC on random block sequences, so a wrong simulator cannot hide behind a
right model.

The card does not support CID or NAD (blocks carrying them are ignored).  Every
I-block or R(ACK) the card is about to send is an "opportunity" (rule 9) at which it
may first request waiting time extensions: `plan` is a list with one entry per
opportunity, each entry the list of WTXM values to request before the real block.
"""


def demo_app(n, apdu):
    """the card application: n = number of APDUs executed before this one.
    response body length L = (apdu[2]*256+apdu[3]) mod 1024 (or len(apdu) for short input), body byte i =
    (sum(apdu) + 31*i + 7*n) mod 256; status word appended unless apdu[0] == 0xFF:
    6A82 for INS EE, 6C05 for INS 6C, else 9000.  A second execution (other n) yields other bytes."""
    apdu = bytes(apdu)
    if len(apdu) >= 4:
        ln = (apdu[2] * 256 + apdu[3]) % 1024
    else:
        ln = len(apdu)
    seed = sum(apdu)
    body = bytes((seed + 31 * i + 7 * n) % 256 for i in range(ln))
    if len(apdu) >= 1 and apdu[0] == 0xFF:
        return body
    if len(apdu) >= 2 and apdu[1] == 0xEE:
        return body + b'\x6a\x82'
    if len(apdu) >= 2 and apdu[1] == 0x6C:
        return body + b'\x6c\x05'
    return body + b'\x90\x00'


class Card(object):
    def __init__(self, cfsc=256, cmiu=253, plan=(), app=demo_app):
        self.cfsc = cfsc          # largest block (PCB + INF + 2 EDC bytes) the card accepts
        self.cmiu = cmiu          # INF bytes per response block
        self.app = app
        self.bn = 1               # rule C
        self.last = b''           # last block sent (b'' = none)
        self.rxbuf = b''          # INF of chained command blocks received so far
        self.txrest = b''         # response bytes after the I-block sent/pending (non-empty = card is chaining)
        self.pend = None          # (wtxm requested, further wtxm values, block to send afterwards)
        self.plan = [list(p) for p in plan]
        self.execs = []           # executed APDUs, oldest first

    # -- helpers -------------------------------------------------------------
    def _emit(self, blk):
        """rule 9: send blk, or S(WTX) requests first as the plan says"""
        if self.plan:
            ws = self.plan.pop(0)
        else:
            ws = []
        if not ws:
            self.last = blk
            self.pend = None
            return blk
        req = bytes([0xF2, ws[0]])
        self.last = req
        self.pend = (ws[0], list(ws[1:]), blk)
        return req

    def _next_iblock(self, data):
        chunk, rest = data[:self.cmiu], data[self.cmiu:]
        self.txrest = rest
        return bytes([0x02 | (0x10 if rest else 0) | self.bn]) + chunk

    # -- one received block (error free) -> response block or None (mute) ----
    def absorb(self, blk):
        blk = bytes(blk)
        if len(blk) == 0 or len(blk) + 2 > self.cfsc:
            return None
        pcb, inf = blk[0], blk[1:]
        if pcb & 0xEE == 0x02:                       # I-block without CID/NAD
            self.bn ^= 1                             # rule D
            self.pend = None
            if pcb & 0x10:                           # chaining: rule 2
                self.rxbuf += inf
                self.txrest = b''
                return self._emit(bytes([0xA2 | self.bn]))
            apdu = self.rxbuf + inf
            resp = bytes(self.app(len(self.execs), apdu))
            self.execs.append(apdu)
            self.rxbuf = b''
            return self._emit(self._next_iblock(resp))   # rule 10
        if pcb & 0xEE == 0xA2:                       # R-block without CID
            if inf:
                return None
            if pcb & 1 == self.bn:                   # rule 11
                return self.last if self.last else None
            if pcb & 0x10:                           # R(NAK), rule 12
                if self.pend is not None:
                    return None
                self.last = bytes([0xA2 | self.bn])
                return self.last
            if self.pend is None and self.txrest:    # R(ACK), rules E and 13
                self.bn ^= 1
                return self._emit(self._next_iblock(self.txrest))
            return None
        if pcb == 0xF2:                              # S(WTX) response, rule 3
            if self.pend is not None and inf == bytes([self.pend[0]]):
                w, ws, nxt = self.pend
                if not ws:
                    self.last = nxt
                    self.pend = None
                    return nxt
                req = bytes([0xF2, ws[0]])
                self.last = req
                self.pend = (ws[0], list(ws[1:]), nxt)
                return req
            return None
        return None

    def state(self):
        """canonical state for the cross-check against the extracted Coq PICC"""
        p = '-' if self.pend is None else '%d/%s/%s' % (self.pend[0], ','.join(map(str, self.pend[1])) or '-', self.pend[2].hex())
        return 'bn=%d last=%s rx=%s tx=%s pend=%s plan=%s execs=%s' % (
            self.bn, self.last.hex() or '-', self.rxbuf.hex() or '-', self.txrest.hex() or '-', p,
            ';'.join(','.join(map(str, x)) or '-' for x in self.plan) or '-',
            ';'.join(e.hex() or '-' for e in self.execs) or '-')


class Air(object):
    """scripted half-duplex link: one (request fate, response fate) pair per exchanged block,
    fates D(eliver) L(ose) C(orrupt); past the end of the script everything is delivered.
    Returns ('rx', block) | ('timeout',) | ('txerr',)."""

    def __init__(self, card, script=()):
        self.card = card
        self.script = list(script)
        self.blocks = []          # every block the reader put on the air

    def exchange(self, blk):
        self.blocks.append(bytes(blk))
        f1, f2 = self.script.pop(0) if self.script else ('D', 'D')
        if f1 != 'D':
            return ('timeout',)       # card never saw an error-free block: mute
        rsp = self.card.absorb(blk)
        if rsp is None:
            return ('timeout',)
        if f2 == 'D':
            return ('rx', rsp)
        if f2 == 'L':
            return ('timeout',)
        return ('txerr',)
