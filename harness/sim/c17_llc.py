"""Driver for REAL nfc.llcp.llc.LogicalLinkController objects (C17).

Two controllers are built without a MAC and without their run loop; PDUs are moved between
them by the real collect() / pdu.encode / pdu.decode / dispatch().  Every API call is made from
the main thread, except calls that reach a wait(): connect() on a data link connection, close()
of an established connection and resolve() of an uncached name run in a helper thread that is
left blocked in the socket's own condition variable until a later dispatch() wakes it (this is
how an application thread behaves).  A wait() reached by the main thread itself can never be
woken: it raises Blocked, which is the observation "the call hangs".

Only module attributes / instance attributes are rebound (condition variables are replaced by an
instrumented subclass, receive queues by a logging deque, llc.random by a scripted chooser);
no source hook.  All calls are made through nfc.llcp.socket.Socket objects (the application handle).  Everything is deterministic: the main thread waits until a helper is either
finished or inside wait().
"""
import collections
import errno
import threading
import time

import nfc.llcp
import nfc.llcp.llc as L
import nfc.llcp.socket as SK
import nfc.llcp.pdu as P
import nfc.llcp.tco as T

MAIN = threading.main_thread()
LINK_MIU = 248


class Blocked(BaseException):
    """the main thread reached a wait() nobody can wake"""


class ICond(threading.Condition):
    """condition variable that counts waiters and refuses to block the main thread"""

    def __init__(self, lock):
        super().__init__(lock)
        self.nwait = 0

    def wait(self, timeout=None):
        if threading.current_thread() is MAIN:
            if timeout is not None:
                return False
            raise Blocked()
        self.nwait += 1
        try:
            return super().wait(timeout)
        finally:
            self.nwait -= 1


class LogDeque(collections.deque):
    """receive queue that reports every append (= a PDU handed to this socket)"""
    log = None
    owner = None

    def append(self, x):
        if self.log is not None:
            self.log.append((self.owner, x))
        super().append(x)


class Chooser(object):
    """stands in for the random module inside nfc.llcp.llc: choice() is scripted"""

    def __init__(self):
        self.k = 0

    def choice(self, seq):
        return seq[self.k % len(seq)]     # IndexError/ZeroDivisionError on an empty list like random.choice


CHOOSER = Chooser()
L.random = CHOOSER


def hexs(b):
    b = bytes(b)
    return b.hex() if b else '-'


def pdu_text(p):
    """canonical text of a PDU; None if it is outside the model's PDU language"""
    n = p.name
    if n == 'UI':
        return 'UI,%d,%d,%s' % (p.dsap, p.ssap, hexs(p.data))
    if n == 'CONNECT':
        if p.miu != 128 or p.rw != 1:
            return None
        return 'CONNECT,%d,%d,%s' % (p.dsap, p.ssap, hexs(p.sn) if p.sn else '-')
    if n == 'CC':
        if p.miu != 128 or p.rw != 1:
            return None
        return 'CC,%d,%d' % (p.dsap, p.ssap)
    if n == 'DISC':
        return 'DISC,%d,%d' % (p.dsap, p.ssap)
    if n == 'DM':
        return 'DM,%d,%d,%d' % (p.dsap, p.ssap, p.reason)
    if n == 'FRMR':
        if (p.ns, p.nr, p.vs, p.vr, p.vsa, p.vra) != (0, 0, 0, 0, 0, 0):
            return None
        return 'FRMR,%d,%d,%d,%d' % (p.dsap, p.ssap, p.rej_flags, p.rej_ptype)
    if n == 'SNL':
        a = ';'.join('%d:%s' % (t, hexs(nm)) for t, nm in p.sdreq)
        b = ';'.join('%d:%d' % (t, v) for t, v in p.sdres)
        return 'SNL,%s,%s' % (a or '-', b or '-')
    return None


def pdu_from_text(s):
    w = s.split(',')
    if w[0] == 'UI':
        return P.UnnumberedInformation(int(w[1]), int(w[2]), bytes.fromhex(w[3]) if w[3] != '-' else b'')
    if w[0] == 'CONNECT':
        return P.Connect(int(w[1]), int(w[2]), sn=(bytes.fromhex(w[3]) if w[3] != '-' else None))
    if w[0] == 'CC':
        return P.ConnectionComplete(int(w[1]), int(w[2]))
    if w[0] == 'DISC':
        return P.Disconnect(int(w[1]), int(w[2]))
    if w[0] == 'DM':
        return P.DisconnectedMode(int(w[1]), int(w[2]), int(w[3]))
    raise ValueError(s)


def enqueue_blocks():
    """which DataLinkConnection.enqueue this source has: True = a non connection-mode PDU makes it call close() in
    every state (before fixes/c07-7), False = in state ESTABLISHED only the FRMR is queued.  Decided by running it."""
    d = T.DataLinkConnection(128, 1)
    d.addr, d.peer = 32, 16
    d.state.ESTABLISHED = True
    d.recv_queue.append(P.Disconnect(32, 16))      # so that close() of the old code finds something and does not wait
    d.enqueue(P.UnnumberedInformation(32, 16, b''))
    return not d.state.ESTABLISHED


TYPES = {'raw': L.RAW_ACCESS_POINT, 'ldl': L.LOGICAL_DATA_LINK, 'dlc': L.DATA_LINK_CONNECTION}


def tname(s):
    if isinstance(s, T.RawAccessPoint):
        return 'raw'
    if isinstance(s, T.LogicalDataLink):
        return 'ldl'
    return 'dlc'


class Pending(object):
    def __init__(self, kind, sid, cond, fn, name=None):
        self.kind, self.sid, self.cond, self.name = kind, sid, cond, name
        self.result = None
        self.thread = threading.Thread(target=self._run, args=(fn,), daemon=True)

    def _run(self, fn):
        self.result = classify(fn)

    def settle(self):
        """wait until the helper has finished or sits in wait(); True if finished"""
        t0 = time.time()
        while self.thread.is_alive() and self.cond.nwait == 0:
            time.sleep(0.0002)
            if time.time() - t0 > 30:
                raise RuntimeError('helper thread neither finished nor waiting')
        if self.thread.is_alive():
            return False
        return True

    def finish(self):
        self.thread.join(30)
        if self.thread.is_alive():
            raise RuntimeError('helper thread did not finish after wake-up')
        return self.result


def classify(fn):
    """run fn; result in the model's result syntax"""
    try:
        r = fn()
        return ('ok', r)
    except nfc.llcp.Error as e:       # includes ConnectRefused
        return ('err', 'LlcpError:%d' % e.errno)
    except Blocked:
        return ('hang', None)
    except AttributeError:
        return ('crash', 'AttributeError')
    except TypeError:
        return ('crash', 'TypeError')
    except IndexError:
        return ('crash', 'IndexError')
    except ValueError:
        return ('err', 'ValueError')
    except RuntimeError:
        return ('err', 'RuntimeError')
    except AssertionError:
        return ('crash', 'AssertionError')
    except KeyError:
        return ('crash', 'KeyError')


class Side(object):
    def __init__(self, name, agf):
        self.name = name
        self.llc = L.LogicalLinkController(miu=LINK_MIU, agf=agf, sec=False)
        self.llc.cfg['send-miu'] = LINK_MIU
        self.llc.sec = None
        self.sd = self.llc.sap[1]
        self.sd.resp = ICond(self.llc.lock)
        self.socks = []                 # id -> tco object
        self.wraps = []                 # id -> nfc.llcp.socket.Socket wrapping it (the application's handle)
        self.anon = SK.Socket(self.llc, None)   # handle without transmission object (resolve, invalid ids)
        self.ids = {}                   # id(tco) -> id
        self.pending = {}               # sid -> Pending (connect / close)
        self.resolving = []             # Pending resolve calls, oldest first
        self.enqlog = []

    def adopt(self, wrap):
        tco = wrap._tco
        sid = len(self.socks)
        self.socks.append(tco)
        self.wraps.append(wrap)
        self.ids[id(tco)] = sid
        tco.recv_ready = ICond(tco.lock)
        tco.send_ready = ICond(tco.lock)
        q = LogDeque(tco.recv_queue)
        q.log, q.owner = self.enqlog, sid
        tco.recv_queue = q
        return sid

    def sock(self, i):
        return self.socks[i] if 0 <= i < len(self.socks) else object()

    def wrap(self, i):
        """the Socket object of id i; for an id that does not exist a Socket around something that is no socket"""
        if 0 <= i < len(self.wraps):
            return self.wraps[i]
        w = SK.Socket(self.llc, None)
        w._tco = object()
        return w

    # ---- digest (same text as extract/c17_run.ml)
    def digest(self):
        llc = self.llc
        listed = set()
        saps = []
        for a in range(64):
            sap = llc.sap[a]
            if isinstance(sap, L.ServiceAccessPoint):
                ids = [self.ids.get(id(s), -1) for s in sap.sock_list]
                listed.update(ids)
                if a == 0 and not ids and not sap.send_list:
                    continue
                saps.append('%d:%s/%d' % (a, '.'.join(str(i) for i in ids), len(sap.send_list)))
        snl = sorted('%s=%d' % (hexs(n), a) for n, a in llc.snl.items())
        socks = []
        for i, s in enumerate(self.socks):
            pd = ''
            if i in self.pending:
                pd = '+c' if self.pending[i].kind == 'connect' else '+x'
            socks.append('%d:%s:%s%s:%s:%s:%d:%d:%s' % (
                i, tname(s), str(s.state), pd, '-' if s.addr is None else s.addr,
                '-' if s.peer is None else s.peer, s.recv_buf, len(s.recv_queue),
                len(s.send_queue) if i in listed else '-'))
        sd = self.sd
        cache = sorted('%s=%d' % (hexs(n), a) for n, a in sd.snl.items())
        sent = sorted('%d=%s' % (t, hexs(n)) for t, n in sd.sent.items())
        rq = ['%d:%s' % (t, hexs(n)) for t, n in sd.sdreq]
        rs = ['%d:%d' % (t, v) for t, v in sd.sdres]
        return 'sap[%s] snl[%s] socks[%s] sd[%s|%d|%s|%s|%s|%d|%s]' % (
            ','.join(saps), ','.join(snl), ','.join(socks), ','.join(cache), len(sd.tids), ','.join(sent),
            ','.join(rq), ','.join(rs), len(sd.dmpdu), ','.join(hexs(p.name) for p in self.resolving))

    # ---- helpers for blocking calls
    def start_pending(self, kind, sid, cond, fn, name=None):
        p = Pending(kind, sid, cond, fn, name)
        p.thread.start()
        if p.settle():
            return p, p.finish()
        return p, None

    def reap(self):
        """after a dispatch: helpers whose wake-up condition holds must finish. returns event texts"""
        evs = []
        for sid in sorted(self.pending):
            p = self.pending[sid]
            s = self.socks[sid]
            if len(s.recv_queue) > 0 or s.state.SHUTDOWN or not p.thread.is_alive():
                r = p.finish()
                del self.pending[sid]
                if p.kind == 'connect':
                    evs.append('conn:%d:%s' % (sid, 'ok' if r[0] == 'ok' else r[1].split(':')[-1]))
                else:
                    evs.append('closed:%d' % sid if r[0] == 'ok' else 'closed:%d:%s' % (sid, r[1]))
        still = []
        for p in self.resolving:
            if (self.sd.snl is not None and p.name in self.sd.snl) or not p.thread.is_alive():
                r = p.finish()
                evs.append('resolved:%s:%s' % (hexs(p.name), r[1] if r[0] == 'ok' else r))
            else:
                still.append(p)
        self.resolving = still
        return evs

    def release_all(self):
        """end of a history: wake every helper so that no thread is left behind"""
        for sid, p in list(self.pending.items()):
            try:
                T.TransmissionControlObject.close(self.socks[sid])
            except Exception:      # noqa
                pass
            p.thread.join(10)
        self.pending.clear()
        if self.resolving:
            self.sd.shutdown()
            for p in self.resolving:
                p.thread.join(10)
            self.resolving = []


class Pair(object):
    """two controllers and the link between them"""

    def __init__(self, agf=False):
        self.agf = agf
        self.side = {'A': Side('A', agf), 'B': Side('B', agf)}

    def close(self):
        for s in self.side.values():
            s.release_all()

    def digests(self):
        return self.side['A'].digest(), self.side['B'].digest()

    # ---- local operations; returns the model-syntax result string
    def do(self, op):
        """op: tuple. returns result text like the model's show_res"""
        kind, sd = op[0], op[1]
        S = self.side[sd]
        llc = S.llc
        if kind == 'socket':
            return 'ok sock %d' % S.adopt(SK.Socket(llc, TYPES[op[2]]))
        i = op[2] if kind != 'resolve' else None
        s = S.sock(i) if i is not None else None
        w = S.wrap(i) if i is not None else None
        busy = i in S.pending
        if kind == 'bind':
            arg = op[3]
            if arg == 'none':
                r = classify(lambda: w.bind())
            elif arg == 'None':
                r = classify(lambda: w.bind(None))
            elif arg == 'bad':
                r = classify(lambda: w.bind(1.5))
            elif arg[0] == 'a':
                r = classify(lambda: w.bind(arg[1]))
            elif arg[0] == 's':                      # service name given as str
                r = classify(lambda: w.bind(bytes(arg[1]).decode('latin')))
            elif arg[0] == 'ba':                     # ... as bytearray
                r = classify(lambda: w.bind(bytearray(arg[1])))
            else:
                r = classify(lambda: w.bind(bytes(arg[1])))
            return fmt(r, 'unit')
        if kind == 'getsockname':
            r = classify(lambda: w.getsockname())
            if r[0] == 'ok':
                return 'ok unit' if r[1] is None else 'ok val %d' % r[1]
            return fmt(r, None)
        if kind == 'rawsend':
            pdu = pdu_from_text(op[3])
            r = classify(lambda: w.sendto(pdu, None, nfc.llcp.MSG_DONTWAIT))
            return fmt(r, 'bool')
        if kind == 'rcvbuf':
            r = classify(lambda: w.setsockopt(nfc.llcp.SO_RCVBUF, op[3]))
            return fmt(r, 'val')
        if kind == 'resolve':
            nm = bytes(op[2])
            CHOOSER.k = op[3]
            p, r = S.start_pending('resolve', None, S.sd.resp, lambda: S.anon.resolve(nm), nm)
            if r is None:
                S.resolving.append(p)
                return 'ok pending'
            return fmt(r, 'val')
        if busy:
            return 'ok busy'
        if kind == 'listen':
            return fmt(classify(lambda: w.listen(op[3])), 'unit')
        if kind == 'accept':
            if isinstance(s, T.DataLinkConnection) and s.state.LISTEN and len(s.recv_queue) == 0:
                return 'ok block'
            r = classify(lambda: w.accept())
            if r[0] == 'ok':
                return 'ok sock %d' % S.adopt(r[1])
            return fmt(r, None)
        if kind == 'connect':
            dest = op[3]
            dest = dest[1] if dest[0] == 'a' else bytes(dest[1])
            if isinstance(s, T.DataLinkConnection):
                p, r = S.start_pending('connect', i, s.recv_ready, lambda: w.connect(dest))
                if r is None:
                    S.pending[i] = p
                    return 'ok pending'
                return fmt(r, 'unit')
            return fmt(classify(lambda: w.connect(dest)), 'unit')
        if kind == 'sendto':
            return fmt(classify(lambda: w.sendto(bytes(op[3]), op[4], nfc.llcp.MSG_DONTWAIT)), 'bool')
        if kind == 'recvfrom':
            r = classify(lambda: w.recvfrom())
            if r[0] == 'hang':
                return 'ok block'
            if r[0] == 'ok':
                msg, peer = r[1]
                if isinstance(s, T.RawAccessPoint):
                    return 'ok raw %s' % pdu_text(msg)
                if isinstance(s, T.LogicalDataLink):
                    return 'ok dgram %s %d' % (hexs(msg), peer)
                if msg is None:
                    return 'ok nonefrom %s' % ('-' if peer is None else peer)
                return 'ok unmodelled'
            return fmt(r, None)
        if kind == 'close':
            if isinstance(s, T.DataLinkConnection):
                p, r = S.start_pending('close', i, s.recv_ready, lambda: w.close())
                if r is None:
                    S.pending[i] = p
                    return 'ok pending'
                return fmt(r, 'unit')
            return fmt(classify(lambda: w.close()), 'unit')
        raise ValueError(op)

    # ---- the link
    def pump(self, sd):
        """one real collect() on side sd; every PDU of the collected frame goes through
        encode/decode and the peer's real dispatch().  returns a list of
        (sap, miu, pdu_text, events:list, hang:bool, real_pdu) in frame order, or [] if nothing to send"""
        S, Pp = self.side[sd], self.side['B' if sd == 'A' else 'A']
        send = S.llc.collect()
        if send is None:
            return []
        rcvd = P.decode(P.encode(send))
        subs = list(rcvd) if rcvd.name == 'AGF' else [rcvd]
        out = []
        used = 2
        for k, p in enumerate(subs):
            miu = LINK_MIU if k == 0 else LINK_MIU - used - 3
            used += 2 + len(p)
            del Pp.enqlog[:]
            ptxt = pdu_text(p)            # before dispatch: the receiver gets the object itself
            r = classify(lambda: Pp.llc.dispatch(p))
            evs = ['enq:%d:%s' % (sid, pdu_text(x)) for sid, x in Pp.enqlog]
            hang = r[0] == 'hang'
            crashed = None if r[0] in ('ok', 'hang') else r
            if not hang:
                evs += Pp.reap()
            out.append((p.ssap if p.name != 'SNL' else 1, miu, ptxt, sorted(evs), hang, p, crashed))
            if hang or crashed:
                break
        return out


def fmt(r, okkind):
    if r[0] == 'ok':
        if okkind == 'unit':
            return 'ok unit'
        if okkind == 'bool':
            return 'ok bool %s' % ('true' if r[1] else 'false')
        if okkind == 'val':
            return 'ok val %d' % r[1]
        return 'ok ?%r' % (r[1],)
    if r[0] == 'err':
        return 'err ' + r[1]
    if r[0] == 'crash':
        return 'crash ' + r[1]
    return 'hang'
