"""Two real nfc.llcp.llc.LogicalLinkController instances (one NFC-DEP initiator, one target)
whose MACs hand LLCP PDUs to each other through in-memory queues: no radio, no NFC-DEP
framing, everything above it unmodified (run loops, PDU encoding, aggregation, service
discovery, data link connections with their MIU / receive window, real sockets, real
SnepServer / HandoverServer threads, real clients).  Sampled full-stack validation for C06.
Environment, not model.

Two variants of the layer below LLCP:
  dep=False  `activate / exchange / deactivate` of real nfc.dep.Initiator / nfc.dep.Target objects are
             replaced (instance attributes): LLCP PDUs are handed over whole, nfc.dep is NOT in the loop.
  dep=True   only `activate` is replaced; the real nfc.dep.Initiator.exchange / Target.exchange /
             deactivate run (NFC-DEP information PDUs, chaining of PDUs longer than LR-3 = 251
             octets, ACK / packet numbers, DSL) over a loopback `clf` pair that hands the NFC-DEP
             frames to each other.  nfc.dep computes deadlines from time.time(): its `time` is a
             virtual clock here that only advances when the loopback reports a timeout, so machine
             load cannot make a deadline pass.  The run loops are real threads; `time.sleep` inside
nfc.llcp.llc is shortened.  All waits have generous real-time limits which serve as deadlock
detection only: a run that hits one is reported as inconclusive, never as a violation.
"""
import queue
import threading
import time as _time

import nfc.clf
import nfc.dep
import nfc.llcp
import nfc.llcp.llc as llcmod
import nfc.snep.server
import nfc.handover.server

LIMIT = 8.0      # real seconds; only reached when something is stuck


class _FastTime(object):
    """stands in for the `time` module inside nfc.llcp.llc"""
    time = staticmethod(_time.time)

    @staticmethod
    def sleep(s):
        _time.sleep(min(s, 0.0002))


class _DaemonThread(threading.Thread):
    def __init__(self, *a, **kw):
        threading.Thread.__init__(self, *a, **kw)
        self.daemon = True


class _Threading(object):
    """stands in for the `threading` module inside the server modules: serve threads are daemons"""
    Thread = _DaemonThread

    def __getattr__(self, name):
        return getattr(threading, name)


class _DepClock(object):
    """stands in for the `time` module inside nfc.dep: advances only on a (simulated) timeout"""
    now = 1000.0

    @classmethod
    def time(cls):
        return cls.now

    @staticmethod
    def sleep(s):
        pass


def install():
    llcmod.time = _FastTime
    nfc.dep.time = _DepClock
    nfc.snep.server.threading = _Threading()
    nfc.handover.server.threading = _Threading()


class Inconclusive(Exception):
    pass


ON_STUCK = None   # investigation hook: called (in the waiting thread) when an operation does not finish


class Pipe(object):
    def __init__(self):
        self.i2t = queue.Queue()
        self.t2i = queue.Queue()
        self.act_i = queue.Queue()
        self.act_t = queue.Queue()
        self.frames = []          # ('i'|'t', bytes) every PDU handed to the MAC
        self.stuck = False

    def _get(self, q):
        try:
            x = q.get(timeout=LIMIT)
        except queue.Empty:
            self.stuck = True
            raise nfc.clf.TimeoutError("sim: peer silent")
        if x is None:                 # the peer's run loop has ended: the link is gone
            q.put(None)
            raise nfc.clf.TimeoutError("sim: link lost")
        return x

    def link_lost(self):
        for q in (self.i2t, self.t2i, self.act_i, self.act_t):
            q.put(None)
        if getattr(self, 'air', None) is not None:
            self.air.link_lost()


def make_macs(pipe):
    ini = nfc.dep.Initiator(clf=None)
    tgt = nfc.dep.Target(clf=None)

    def ini_activate(target=None, **options):
        pipe.act_i.put(bytes(options.get('gbi', b'')))
        return pipe._get(pipe.act_t)

    def tgt_activate(timeout=None, **options):
        gbi = pipe._get(pipe.act_i)
        pipe.act_t.put(bytes(options.get('gbt', b'')))
        return gbi

    def ini_exchange(send_data, timeout):
        pipe.frames.append(('i', bytes(send_data)))
        pipe.i2t.put(bytes(send_data))
        return bytearray(pipe._get(pipe.t2i))

    def tgt_exchange(send_data, timeout):
        if send_data is not None:
            pipe.frames.append(('t', bytes(send_data)))
            pipe.t2i.put(bytes(send_data))
        return bytearray(pipe._get(pipe.i2t))

    def ini_deactivate(release=True):
        return True

    def tgt_deactivate(data=bytearray()):
        if data:
            pipe.t2i.put(bytes(data))
        return True

    ini.activate, ini.exchange, ini.deactivate = ini_activate, ini_exchange, ini_deactivate
    tgt.activate, tgt.exchange, tgt.deactivate = tgt_activate, tgt_exchange, tgt_deactivate
    ini.rwt = 0.001
    tgt.rwt = 0.001
    return ini, tgt


class _Air(object):
    """NFC-DEP frames in flight between the two loopback clfs.  All state changes under one lock, so
    "both sides wait and nothing is in flight" is decided exactly: that (and only that) is when the
    initiator's response timer expires - in simulated time, the real time spent does not matter."""

    def __init__(self, pipe):
        self.pipe = pipe
        self.cond = threading.Condition()
        self.q = {'i': [], 't': []}          # frames to be received by that role
        self.waiting = {'i': False, 't': False}
        self.lost = False

    def put(self, to, frame):
        with self.cond:
            self.q[to].append(frame)
            self.cond.notify_all()

    def link_lost(self):
        with self.cond:
            self.lost = True
            self.cond.notify_all()

    def get(self, role, timeout):
        other = 't' if role == 'i' else 'i'
        t0 = _time.time()
        with self.cond:
            self.waiting[role] = True
            self.cond.notify_all()
            try:
                while not self.q[role]:
                    if timeout is not None and timeout <= 0:
                        raise nfc.clf.TimeoutError("sim: no time left")
                    if self.lost:
                        _DepClock.now += max(timeout or 0, 1.0)
                        raise nfc.clf.TimeoutError("sim: link lost")
                    if role == 'i' and self.waiting[other] and not self.q[other]:
                        _DepClock.now += timeout     # the initiator waited its full response time
                        raise nfc.clf.TimeoutError("sim: no response")
                    if _time.time() - t0 > LIMIT:
                        self.pipe.stuck = True
                        _DepClock.now += max(timeout or 0, 1.0)
                        raise nfc.clf.TimeoutError("sim: peer silent")
                    self.cond.wait(0.25)
                return bytearray(self.q[role].pop(0))
            finally:
                self.waiting[role] = False


class _LoopClf(object):
    """the `clf` of a real nfc.dep.Initiator / Target: exchange() moves one NFC-DEP frame each way"""

    def __init__(self, air, role):
        self.air = air
        self.role = role

    def exchange(self, data, timeout):
        other = 't' if self.role == 'i' else 'i'
        if data is not None:
            self.air.pipe.frames.append((self.role, bytes(data)))
            self.air.put(other, bytes(data))
        return self.air.get(self.role, timeout)


def make_dep_macs(pipe, lr=254):
    """real nfc.dep objects with their real exchange()/deactivate(); only the activation (ATR exchange,
    parameter selection) is replaced: general bytes are swapped, MIU = LR - 3, DID/NAD unused"""
    air = pipe.air = _Air(pipe)
    ini = nfc.dep.Initiator(clf=_LoopClf(air, 'i'))
    tgt = nfc.dep.Target(clf=_LoopClf(air, 't'))

    def ini_activate(target=None, **options):
        ini.did = ini.nad = None
        ini.target = nfc.clf.RemoteTarget("424F")
        pipe.act_i.put(bytes(options.get('gbi', b'')))
        ini.gbt = bytearray(pipe._get(pipe.act_t))
        ini.miu = lr - 3
        ini.rwt = 0.01     # simulated seconds: several ATN / NAK attempts fit into an LLCP link timeout
        ini.pni = 0
        return ini.gbt

    def tgt_activate(timeout=None, **options):
        tgt.did = tgt.nad = None
        tgt.target = nfc.clf.LocalTarget("424F")
        tgt.gbi = bytearray(pipe._get(pipe.act_i))
        pipe.act_t.put(bytes(options.get('gbt', b'')))
        tgt.miu = lr - 3
        tgt.rwt = 0.3
        tgt.pni = None
        tgt.acm = False
        tgt.cmd = air.get('t', None)                 # the first command frame is captured in activate
        return tgt.gbi

    ini.activate, tgt.activate = ini_activate, tgt_activate
    return ini, tgt


class Link(object):
    """llc['i'] runs as initiator, llc['t'] as target"""

    def __init__(self, opt_i, opt_t, dep=False):
        install()
        self.pipe = Pipe()
        self.dep = dep
        self.mac_i, self.mac_t = make_dep_macs(self.pipe) if dep else make_macs(self.pipe)
        self.llc = {'i': llcmod.LogicalLinkController(**opt_i), 't': llcmod.LogicalLinkController(**opt_t)}
        self.stop = False
        self.threads = []
        self.activated = {}

    def start(self):
        def runner(side, mac):
            try:
                self.activated[side] = self.llc[side].activate(mac)
                if self.activated[side]:
                    self.llc[side].run(terminate=lambda: self.stop)
            except SystemExit:
                pass
            finally:
                self.pipe.link_lost()
        for side, mac in (('t', self.mac_t), ('i', self.mac_i)):
            th = threading.Thread(target=runner, args=(side, mac))
            th.daemon = True
            th.start()
            self.threads.append(th)
        t0 = _time.time()
        while not (self.llc['i'].link.ESTABLISHED and self.llc['t'].link.ESTABLISHED):
            if _time.time() - t0 > LIMIT:
                raise Inconclusive('link not established')
            _time.sleep(0.0005)

    def close(self):
        self.stop = True
        for th in self.threads:
            th.join(LIMIT)
        return not any(th.is_alive() for th in self.threads)


class Stalled(Exception):
    """the operation was still unfinished after `budget` link turns (PDU exchanges, idle ones are SYMM) on a
    live link: decided in link turns, not in seconds, so machine load cannot cause it"""


def with_limit(fn, pipe=None, budget=None):
    """run fn() in a thread; Stalled if the link did more than `budget` turns meanwhile; Inconclusive if it
    does not finish within LIMIT * 2 real seconds"""
    box = {}

    def body():
        try:
            box['r'] = fn()
        except BaseException as e:  # noqa
            box['e'] = e
    th = threading.Thread(target=body)
    th.daemon = True
    th.start()
    if pipe is not None and budget is not None:
        start, t0 = len(pipe.frames), _time.time()
        while th.is_alive() and _time.time() - t0 < 2 * LIMIT:
            th.join(0.005)
            if len(pipe.frames) - start > budget:
                break
        if th.is_alive() and len(pipe.frames) - start > budget:
            raise Stalled('unfinished after %d link turns' % (len(pipe.frames) - start))
    else:
        th.join(2 * LIMIT)
    if th.is_alive():
        if ON_STUCK:
            ON_STUCK()
        raise Inconclusive('operation did not finish')
    if 'e' in box:
        raise box['e']
    return box.get('r')
