"""A scripted remote LLCP peer behind a fake NFC-DEP MAC, and a runner that drives a REAL
nfc.llcp.llc.LogicalLinkController run loop plus application threads under sim/sched.py (C09).

Environment, not model.  The local side is unmodified nfcpy: LogicalLinkController.activate(),
run_as_initiator()/run_as_target(), real sockets, SnepServer/HandoverServer threads.  Only
`mac.activate/exchange/deactivate` of a real nfc.dep.Initiator/Target object are replaced
(instance attributes) by this scripted peer; every exchange is a scheduler yield point.

The conversation *ends* at exchange number `end_at` by one of the causes
    disc       the peer answers DISC(0,0)                        (remote disconnect)
    none       mac.exchange returns None                         (link disruption)
    commerr    mac.exchange raises nfc.clf.TimeoutError          (link disruption, caught in llc.exchange)
    terminate  the terminate() callback of run() turns true      (local terminate request)
    ioerror    mac.exchange raises IOError                       (error in the link loop)
    secerr     mac.exchange raises sec.DecryptionError           (error in the link loop)
    kbdint     mac.exchange raises KeyboardInterrupt             (operator interrupt)
"""
import errno as _errno

import nfc
import nfc.clf
import nfc.dep
import nfc.llcp
import nfc.llcp.llc as llcmod
import nfc.llcp.pdu as pdu
import nfc.llcp.sec as sec
import nfc.llcp.tco as tco
import nfc.snep.server
import nfc.handover.server

from sim import sched as S

MODULES = [tco, llcmod, nfc.snep.server, nfc.handover.server]
CAUSES = ('disc', 'none', 'commerr', 'terminate', 'ioerror', 'secerr', 'kbdint')


class ScriptedDeviceError(IOError):
    """what driver libraries raise: a subclass of IOError (serial.SerialException, usb1.USBError, ...)"""


class ScriptedDecryptionError(sec.DecryptionError):
    pass


# An error cause may name a member of the family of exceptions the run loop has to treat alike
# ('ioerror:timedout' ...) and the place where it is raised ('...@collect', '...@dispatch'; default: in
# mac.exchange).  Python 3 turns IOError(ETIMEDOUT) / IOError(EPIPE) into the builtin subclasses TimeoutError /
# BrokenPipeError; nfc.clf.transport raises IOError(errno.ETIMEDOUT) and IOError(errno.EPIPE).
ERROR_FAMILY = {
    'ioerror': lambda: IOError(_errno.EIO, 'scripted'),
    'ioerror:timedout': lambda: IOError(_errno.ETIMEDOUT, 'scripted'),
    'ioerror:epipe': lambda: IOError(_errno.EPIPE, 'scripted'),
    'ioerror:enodev': lambda: IOError(_errno.ENODEV, 'scripted'),
    'ioerror:eacces': lambda: IOError(_errno.EACCES, 'scripted'),
    'ioerror:sub': lambda: ScriptedDeviceError(_errno.EIO, 'scripted'),
    'secerr': lambda: sec.DecryptionError('scripted'),
    'secerr:keyagree': lambda: sec.KeyAgreementError('scripted'),
    'secerr:encrypt': lambda: sec.EncryptionError('scripted'),
    'secerr:sub': lambda: ScriptedDecryptionError('scripted'),
}
PLACES = ('exchange', 'collect', 'dispatch')


def base_cause(cause):
    return cause.split('@')[0].split(':')[0]
GB = b'Ffm' + bytes.fromhex('010113' '02020078' '040132')     # version 1.3, MIUX 120 (MIU 248), LTO 500 ms


class Peer(object):
    """reactive scripted peer; behaviour switches:
       cc    answer CONNECT with CC          snl   answer SNL requests
       ack   acknowledge I PDUs with RR      dm    answer DISC with DM
       push  {exchange index: [pdu, ...]}    PDUs the peer sends on its own"""

    def __init__(self, sch, cause, end_at, cc=True, snl=True, ack=True, dm=True, push=None):
        self.sch, self.full_cause, self.end_at = sch, cause, end_at
        self.cause = base_cause(cause)
        self.member = cause.split('@')[0]
        self.where = cause.split('@')[1] if '@' in cause else 'exchange'
        if self.cause in ('ioerror', 'secerr') and self.member not in ERROR_FAMILY:
            raise ValueError('unknown error cause ' + cause)
        self.cc, self.snl, self.ack, self.dm = cc, snl, ack, dm
        self.push = dict(push or {})
        self.k = 0
        self.pending = []
        self.vr = {}      # (dsap, ssap) -> next expected N(S) from the local side
        self.sent_names = []
        self.ended = False

    def terminate_cb(self):
        return self.cause == 'terminate' and self.k >= self.end_at

    def react(self, p):
        if p is None or p.name == 'SYMM':
            return
        if p.name == 'AGF':
            for q in p:
                self.react(q)
            return
        self.sent_names.append(p.name)
        if p.name == 'CONNECT' and (self.cc is True or (self.cc and p.dsap in self.cc)):      # cc may be a set of addresses
            ssap = 17 if p.dsap == 1 else p.dsap
            self.pending.append(pdu.ConnectionComplete(p.ssap, ssap, miu=128, rw=1))
        elif p.name == 'SNL' and self.snl:
            res = [(tid, 17) for tid, name in p.sdreq]
            if res:
                self.pending.append(pdu.ServiceNameLookup(1, 1, sdres=res))
        elif p.name == 'I' and self.ack:
            self.pending.append(pdu.ReceiveReady(p.ssap, p.dsap, (p.ns + 1) % 16))
        elif p.name == 'DISC' and self.dm and (p.dsap, p.ssap) != (0, 0):
            self.pending.append(pdu.DisconnectedMode(p.ssap, p.dsap, 0))

    def exchange(self, send_data, timeout):
        self.sch.point('exchange')
        k = self.k
        self.k += 1
        sent = pdu.decode(send_data) if send_data is not None else None
        if self.ended:
            return None
        if k >= self.end_at and self.cause in ('ioerror', 'secerr') and self.where != 'exchange':
            pass          # the error is raised by the wrapped llc.collect / llc.dispatch (see arm())
        elif k >= self.end_at and self.cause != 'terminate':
            self.ended = True
            self.sch.note('end', self.cause)
            if self.cause == 'disc':
                return pdu.encode(pdu.Disconnect(0, 0))
            if self.cause == 'none':
                return None
            if self.cause == 'commerr':
                raise nfc.clf.TimeoutError('scripted')
            if self.cause in ('ioerror', 'secerr'):
                raise ERROR_FAMILY[self.member]()
            if self.cause == 'kbdint':
                raise KeyboardInterrupt()
        self.react(sent)
        for q in self.push.pop(k, []):
            self.pending.append(q)
        if self.pending:
            q = self.pending.pop(0)
            # raw octets are sent as they are (crafted PDUs: reserved types / field values, malformed content)
            return bytes(q) if isinstance(q, (bytes, bytearray)) else pdu.encode(q)
        return pdu.encode(pdu.Symmetry())


def arm(peer, llc):
    """errors raised inside the link loop but outside mac.exchange: in collect() or dispatch()"""
    if peer.cause not in ('ioerror', 'secerr') or peer.where == 'exchange':
        return
    real = getattr(llc, peer.where)

    def wrapped(*a, **kw):
        if peer.k >= peer.end_at and not peer.ended:
            peer.ended = True
            peer.sch.note('end', peer.full_cause)
            raise ERROR_FAMILY[peer.member]()
        return real(*a, **kw)
    setattr(llc, peer.where, wrapped)


def make_llc(peer, role='initiator', **options):
    """a real, activated LogicalLinkController whose MAC is the scripted peer"""
    options.setdefault('sec', False)
    llc = llcmod.LogicalLinkController(**options)
    if role == 'initiator':
        mac = nfc.dep.Initiator(clf=None)
        mac.activate = lambda gbi=None, **kw: GB
    else:
        mac = nfc.dep.Target(clf=None)
        mac.activate = lambda gbt=None, **kw: GB
        mac.rwt = 0.001
    mac.exchange = peer.exchange
    mac.deactivate = lambda **kw: None
    if not llc.activate(mac):
        raise RuntimeError('activation of the simulated link failed')
    return llc


ITEM = {'CONNECT': 'CONNECT', 'CC': 'CC', 'DM': 'DM', 'I': 'I', 'DISC': 'DISC'}


def snapshot(llc, o):
    """the observable part of a socket (or of the service discovery object) in the vocabulary of the
    LlcLife model: kind state bound intab rq sq rbuf sbuf slots acks"""
    if isinstance(o, llcmod.ServiceDiscovery):
        there = llc.sap[1] is o
        return ('SDP', 'SHUTDOWN' if o.snl is None else 'ESTABLISHED', int(there), int(there), '-', len(o.sdreq), 1, 1, 0, 0)
    kind = 'RAW' if isinstance(o, tco.RawAccessPoint) else 'LDL' if isinstance(o, tco.LogicalDataLink) else 'DLC'
    addr = o.addr
    sap = llc.sap[addr] if addr is not None else None
    intab = int(isinstance(sap, llcmod.ServiceAccessPoint) and any(x is o for x in sap.sock_list))
    rq = ','.join(ITEM.get(getattr(x, 'name', '?'), 'OTHER') for x in o.recv_queue) or '-'
    slots = o.send_window_slots if kind == 'DLC' and o.send_win is not None else 0
    return (kind, str(o.state), int(addr is not None), intab, rq, len(o.send_queue), o.recv_buf, o.send_buf, slots,
            getattr(o, 'acks_recvd', 0))


class Observer(object):
    """records, per socket call, the lock-hold segments the calling thread executes (pre-state after the
    outermost acquire / re-acquire, post-state before wait / final release) and what terminate() does"""

    def __init__(self, sch, llc):
        self.sch, self.llc = sch, llc
        self.sd = llc.sap[1]
        self.locks = {id(llc.lock): None}
        self.cur = {}            # thread id -> record of the call in progress
        self.records = []
        self.link_segs = []      # segments of the link thread inside terminate()
        self.in_term = False
        self._link_open = None

    def register(self, o):
        self.locks[id(o.lock)] = o

    def cond_name(self, o, c):
        for n in ('recv_ready', 'send_ready', 'acks_ready', 'send_token', 'resp'):
            if getattr(o, n, None) is c:
                return n
        return '?'

    def begin(self, api, obj):
        me = self.sch._me()
        if me is None or obj is None:
            return None
        target = self.sd if obj == 'sd' else getattr(obj, '_tco', obj)
        rec = {'api': api, 'obj': target, 'term_at_call': int(self.llc.sap[1] is None),
               'at_call': snapshot(self.llc, target) if target is not None else None, 'segs': [], 'open': None, 'result': None}
        self.cur[me.id] = rec
        self.records.append(rec)
        return rec

    def end(self, rec, result):
        me = self.sch._me()
        if rec is not None:
            rec['result'] = result
            self.cur.pop(me.id, None)

    def hook(self, me, op, obj, extra):
        lock = getattr(obj, 'lock', obj)
        if id(lock) not in self.locks:
            return
        owner = self.locks[id(lock)]            # a tco, or None for llc.lock
        rec = self.cur.get(me.id)
        if rec is not None and rec['obj'] is not None:
            target = rec['obj']
            mine = (owner is target) or (owner is None)      # the call's own socket lock, or llc.lock
            if isinstance(target, llcmod.ServiceDiscovery):
                mine = owner is None
            if mine:
                lk = 'llc' if owner is None else 'sock'
                if op in ('acq', 'woken', 'timeout'):
                    rec['open'] = {'lock': lk, 'pre': snapshot(self.llc, target), 'term': int(self.llc.sap[1] is None), 'nall': []}
                elif op == 'notify' and rec['open'] is not None:
                    rec['open']['nall'].append(self.cond_name(target if lk == 'sock' else self.sd, obj))
                elif op in ('wait', 'rel') and rec['open'] is not None:
                    sg = rec['open']
                    sg['post'] = snapshot(self.llc, target)
                    sg['end'] = ('wait', self.cond_name(target if lk == 'sock' else self.sd, obj)) if op == 'wait' else ('rel',)
                    rec['segs'].append(sg)
                    rec['open'] = None
        elif self.in_term and owner is not None and me.name == 'link':
            # the link thread closes a socket inside terminate()
            if op == 'acq':
                self._link_open = {'obj': owner, 'pre': snapshot(self.llc, owner), 'nall': []}
            elif op == 'notify' and self._link_open is not None:
                self._link_open['nall'].append(self.cond_name(owner, obj))
            elif op == 'rel' and self._link_open is not None:
                self._link_open['post'] = snapshot(self.llc, owner)
                self.link_segs.append(self._link_open)
                self._link_open = None


class Ctx(object):
    """what a scenario uses to record the socket calls of its application threads"""

    def __init__(self, sch):
        self.sch = sch
        self.calls = []
        self.term_begin = None
        self.term_end = None
        self.run_result = None
        self.after_term = None      # scheduler Event set when the run loop has ended
        self.obs = None

    @staticmethod
    def infer_obj(api, fn):
        """the socket a recorded call works on: the bound method's object, or the first Socket among
        the closure cells / default arguments of the lambda; 'sd' for resolve"""
        if api.endswith('resolve'):
            return 'sd'
        cands = [getattr(fn, '__self__', None)]
        cands += [c.cell_contents for c in (getattr(fn, '__closure__', None) or ())]
        cands += list(getattr(fn, '__defaults__', None) or ())
        for c in cands:
            if isinstance(c, nfc.llcp.Socket):
                return c
        return None

    def call(self, api, fn, obj=None):
        if obj is None and self.obs is not None:
            obj = self.infer_obj(api, fn)
        orec = self.obs.begin(api, obj) if self.obs is not None else None
        rec = {'api': api, 'thread': self.sch._me().name if self.sch._me() else 'main',
               'issued': self.sch.step, 'issued_after_term': self.term_end is not None,
               'issued_after_term_begin': self.term_begin is not None, 'result': None}
        self.calls.append(rec)
        self.sch.note('call', api)
        try:
            r = fn()
            rec['result'] = ('ret', _short(r))
        except nfc.llcp.Error as e:
            rec['result'] = ('llcp', _errno.errorcode.get(e.errno, str(e.errno)), e.errno)
        except S.Abort:
            raise
        except Exception as e:  # noqa: the monitor decides
            rec['result'] = ('exc', type(e).__name__ + ': ' + str(e)[:80])
        rec['done'] = self.sch.step
        if self.obs is not None:
            self.obs.end(orec, rec['result'])
        self.sch.note('return', api, rec['result'][0])
        return rec['result']


def _short(r):
    if isinstance(r, (bytes, bytearray)):
        return 'bytes:' + bytes(r).hex()[:16]
    if isinstance(r, tuple):
        return tuple(_short(x) for x in r)
    if r is None or isinstance(r, (bool, int, str)):
        return r
    return type(r).__name__


def run_scenario(build, cause, end_at, chooser=None, role='initiator', peer_kw=None, link_first=False,
                 post=None, max_steps=4000, llc_options=None, observe=False):
    """build(llc, ctx) -> [(thread name, function)]: application threads (started in this order, before
    the link thread unless link_first).  post(llc, ctx) -> [(name, fn)]: threads started by the
    link thread after run() has ended (calls issued after termination).
    Returns a dict with everything the monitor needs."""
    sch = S.Sched(chooser, max_steps=max_steps)
    out = {}
    with S.install(sch, MODULES):
        peer = Peer(sch, cause, end_at, **(peer_kw or {}))
        llc = make_llc(peer, role, **(llc_options or {}))
        arm(peer, llc)
        ctx = Ctx(sch)
        ctx.peer = peer
        saved_init = tco.TransmissionControlObject.__init__
        if observe:
            obs = ctx.obs = Observer(sch, llc)

            def tco_init(self, *a, **kw):
                saved_init(self, *a, **kw)
                obs.register(self)
            tco.TransmissionControlObject.__init__ = tco_init
            sch.hook = obs.hook
        ctx.after_term = sch.threading.Event()
        ctx.term_started = sch.threading.Event()     # set when terminate() begins
        ctx.llc = llc
        if chooser is not None and hasattr(chooser, 'attach'):
            chooser.attach(sch, llc, ctx)
        real_terminate = llc.terminate

        def terminate(reason):
            ctx.term_started.set()
            ctx.term_begin = sch.step
            sch.note('term-begin', reason)
            if ctx.obs is not None:
                ctx.obs.in_term = True
            try:
                return real_terminate(reason)
            finally:
                if ctx.obs is not None:
                    ctx.obs.in_term = False
                ctx.term_end = sch.step
                sch.note('term-end', reason)

        llc.terminate = terminate

        def link():
            try:
                llc.run(terminate=peer.terminate_cb)
                ctx.run_result = 'returned'
            except SystemExit:
                ctx.run_result = 'SystemExit'
            except KeyboardInterrupt:
                ctx.run_result = 'KeyboardInterrupt'
            except S.Abort:
                raise
            except BaseException as e:  # noqa
                ctx.run_result = 'exc ' + type(e).__name__ + ': ' + str(e)[:80]
            sch.note('run-end', ctx.run_result)
            ctx.after_term.set()
            if post is not None:
                for name, fn in post(llc, ctx):
                    sch.spawn(fn, name)

        apps = build(llc, ctx) if build is not None else []
        if link_first:
            sch.spawn(link, 'link')
        for name, fn in apps:
            if isinstance(fn, S._real.Thread):
                fn.start()          # a server object (SnepServer / HandoverServer)
            else:
                sch.spawn(fn, name)
        if not link_first:
            sch.spawn(link, 'link')
        try:
            blocked = sch.run()
        finally:
            tco.TransmissionControlObject.__init__ = saved_init
        out['records'] = ctx.obs.records if ctx.obs is not None else []
        out['link_segs'] = ctx.obs.link_segs if ctx.obs is not None else []
        out['blocked'] = [sch.describe(b) for b in blocked]
        out['livelock'] = sch.livelock
        out['schedule'] = list(sch.schedule)
        out['enabled'] = sch.enabled_log
        out['log'] = sch.log
        out['calls'] = ctx.calls
        out['run_result'] = ctx.run_result
        out['term'] = (ctx.term_begin, ctx.term_end)
        out['threads'] = [(r.id, r.name, r.state, None if r.exc is None else type(r.exc).__name__ + ': ' + str(r.exc)[:80])
                          for r in sch.recs]
        out['steps'] = sch.step
        out['peer_saw'] = peer.sent_names
        out['link_state'] = str(llc.link)
        sch.shutdown()
    return out
