"""A scripted remote LLCP peer behind a fake NFC-DEP MAC, and a runner that drives a REAL
nfc.llcp.llc.LogicalLinkController run loop plus application threads under sim/sched.py (C09).

Environment, not model.  The local side is unmodified nfcpy: LogicalLinkController.activate(),
run_as_initiator()/run_as_target(), real sockets, SnepServer/HandoverServer threads.  Only
`mac.activate/exchange/deactivate` of a real nfc.dep.Initiator/Target object are replaced
(instance attributes) by this scripted peer; every exchange is a scheduler yield point.

The conversation *ends* at exchange number `end_at` by one of the causes
    disc       the peer answers DISC(0,0)                        (remote disconnect)
    none       mac.exchange returns None                         (link disruption)
    commerr    mac.exchange raises nfc.clf.TimeoutError          (link disruption, caught in llc.exchange)
    terminate  the terminate() callback of run() turns true      (local terminate request)
    ioerror    mac.exchange raises IOError                       (error in the link loop)
    secerr     mac.exchange raises sec.DecryptionError           (error in the link loop)
    kbdint     mac.exchange raises KeyboardInterrupt             (operator interrupt)
"""
import errno as _errno

import nfc
import nfc.clf
import nfc.dep
import nfc.llcp
import nfc.llcp.llc as llcmod
import nfc.llcp.pdu as pdu
import nfc.llcp.sec as sec
import nfc.llcp.tco as tco
import nfc.snep.server
import nfc.handover.server

from sim import sched as S

MODULES = [tco, llcmod, nfc.snep.server, nfc.handover.server]
CAUSES = ('disc', 'none', 'commerr', 'terminate', 'ioerror', 'secerr', 'kbdint')
GB = b'Ffm' + bytes.fromhex('010113' '02020078' '040132')     # version 1.3, MIUX 120 (MIU 248), LTO 500 ms


class Peer(object):
    """reactive scripted peer; behaviour switches:
       cc    answer CONNECT with CC          snl   answer SNL requests
       ack   acknowledge I PDUs with RR      dm    answer DISC with DM
       push  {exchange index: [pdu, ...]}    PDUs the peer sends on its own"""

    def __init__(self, sch, cause, end_at, cc=True, snl=True, ack=True, dm=True, push=None):
        self.sch, self.cause, self.end_at = sch, cause, end_at
        self.cc, self.snl, self.ack, self.dm = cc, snl, ack, dm
        self.push = dict(push or {})
        self.k = 0
        self.pending = []
        self.vr = {}      # (dsap, ssap) -> next expected N(S) from the local side
        self.sent_names = []
        self.ended = False

    def terminate_cb(self):
        return self.cause == 'terminate' and self.k >= self.end_at

    def react(self, p):
        if p is None or p.name == 'SYMM':
            return
        if p.name == 'AGF':
            for q in p:
                self.react(q)
            return
        self.sent_names.append(p.name)
        if p.name == 'CONNECT' and self.cc:
            ssap = 17 if p.dsap == 1 else p.dsap
            self.pending.append(pdu.ConnectionComplete(p.ssap, ssap, miu=128, rw=1))
        elif p.name == 'SNL' and self.snl:
            res = [(tid, 17) for tid, name in p.sdreq]
            if res:
                self.pending.append(pdu.ServiceNameLookup(1, 1, sdres=res))
        elif p.name == 'I' and self.ack:
            self.pending.append(pdu.ReceiveReady(p.ssap, p.dsap, (p.ns + 1) % 16))
        elif p.name == 'DISC' and self.dm and (p.dsap, p.ssap) != (0, 0):
            self.pending.append(pdu.DisconnectedMode(p.ssap, p.dsap, 0))

    def exchange(self, send_data, timeout):
        self.sch.point('exchange')
        k = self.k
        self.k += 1
        sent = pdu.decode(send_data) if send_data is not None else None
        if self.ended:
            return None
        if k >= self.end_at and self.cause != 'terminate':
            self.ended = True
            self.sch.note('end', self.cause)
            if self.cause == 'disc':
                return pdu.encode(pdu.Disconnect(0, 0))
            if self.cause == 'none':
                return None
            if self.cause == 'commerr':
                raise nfc.clf.TimeoutError('scripted')
            if self.cause == 'ioerror':
                raise IOError(_errno.EIO, 'scripted')
            if self.cause == 'secerr':
                raise sec.DecryptionError('scripted')
            if self.cause == 'kbdint':
                raise KeyboardInterrupt()
        self.react(sent)
        for q in self.push.pop(k, []):
            self.pending.append(q)
        if self.pending:
            return pdu.encode(self.pending.pop(0))
        return pdu.encode(pdu.Symmetry())


def make_llc(peer, role='initiator', **options):
    """a real, activated LogicalLinkController whose MAC is the scripted peer"""
    options.setdefault('sec', False)
    llc = llcmod.LogicalLinkController(**options)
    if role == 'initiator':
        mac = nfc.dep.Initiator(clf=None)
        mac.activate = lambda gbi=None, **kw: GB
    else:
        mac = nfc.dep.Target(clf=None)
        mac.activate = lambda gbt=None, **kw: GB
        mac.rwt = 0.001
    mac.exchange = peer.exchange
    mac.deactivate = lambda **kw: None
    if not llc.activate(mac):
        raise RuntimeError('activation of the simulated link failed')
    return llc


class Ctx(object):
    """what a scenario uses to record the socket calls of its application threads"""

    def __init__(self, sch):
        self.sch = sch
        self.calls = []
        self.term_begin = None
        self.term_end = None
        self.run_result = None
        self.after_term = None      # scheduler Event set when the run loop has ended

    def call(self, api, fn):
        rec = {'api': api, 'thread': self.sch._me().name if self.sch._me() else 'main',
               'issued': self.sch.step, 'issued_after_term': self.term_end is not None,
               'issued_after_term_begin': self.term_begin is not None, 'result': None}
        self.calls.append(rec)
        self.sch.note('call', api)
        try:
            r = fn()
            rec['result'] = ('ret', _short(r))
        except nfc.llcp.Error as e:
            rec['result'] = ('llcp', _errno.errorcode.get(e.errno, str(e.errno)))
        except S.Abort:
            raise
        except Exception as e:  # noqa: the monitor decides
            rec['result'] = ('exc', type(e).__name__ + ': ' + str(e)[:80])
        rec['done'] = self.sch.step
        self.sch.note('return', api, rec['result'][0])
        return rec['result']


def _short(r):
    if isinstance(r, (bytes, bytearray)):
        return 'bytes:' + bytes(r).hex()[:16]
    if isinstance(r, tuple):
        return tuple(_short(x) for x in r)
    if r is None or isinstance(r, (bool, int, str)):
        return r
    return type(r).__name__


def run_scenario(build, cause, end_at, chooser=None, role='initiator', peer_kw=None, link_first=False,
                 post=None, max_steps=4000, llc_options=None):
    """build(llc, ctx) -> [(thread name, function)]: application threads (started in this order, before
    the link thread unless link_first).  post(llc, ctx) -> [(name, fn)]: threads started by the
    link thread after run() has ended (calls issued after termination).
    Returns a dict with everything the monitor needs."""
    sch = S.Sched(chooser, max_steps=max_steps)
    out = {}
    with S.install(sch, MODULES):
        peer = Peer(sch, cause, end_at, **(peer_kw or {}))
        llc = make_llc(peer, role, **(llc_options or {}))
        ctx = Ctx(sch)
        ctx.peer = peer
        ctx.after_term = sch.threading.Event()
        real_terminate = llc.terminate

        def terminate(reason):
            ctx.term_begin = sch.step
            sch.note('term-begin', reason)
            try:
                return real_terminate(reason)
            finally:
                ctx.term_end = sch.step
                sch.note('term-end', reason)

        llc.terminate = terminate

        def link():
            try:
                llc.run(terminate=peer.terminate_cb)
                ctx.run_result = 'returned'
            except SystemExit:
                ctx.run_result = 'SystemExit'
            except KeyboardInterrupt:
                ctx.run_result = 'KeyboardInterrupt'
            except S.Abort:
                raise
            except BaseException as e:  # noqa
                ctx.run_result = 'exc ' + type(e).__name__ + ': ' + str(e)[:80]
            sch.note('run-end', ctx.run_result)
            ctx.after_term.set()
            if post is not None:
                for name, fn in post(llc, ctx):
                    sch.spawn(fn, name)

        apps = build(llc, ctx) if build is not None else []
        if link_first:
            sch.spawn(link, 'link')
        for name, fn in apps:
            if isinstance(fn, S._real.Thread):
                fn.start()          # a server object (SnepServer / HandoverServer)
            else:
                sch.spawn(fn, name)
        if not link_first:
            sch.spawn(link, 'link')
        blocked = sch.run()
        out['blocked'] = [sch.describe(b) for b in blocked]
        out['livelock'] = sch.livelock
        out['schedule'] = list(sch.schedule)
        out['enabled'] = sch.enabled_log
        out['log'] = sch.log
        out['calls'] = ctx.calls
        out['run_result'] = ctx.run_result
        out['term'] = (ctx.term_begin, ctx.term_end)
        out['threads'] = [(r.id, r.name, r.state, None if r.exc is None else type(r.exc).__name__ + ': ' + str(r.exc)[:80])
                          for r in sch.recs]
        out['steps'] = sch.step
        out['peer_saw'] = peer.sent_names
        out['link_state'] = str(llc.link)
        sch.shutdown()
    return out
