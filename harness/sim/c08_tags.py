"""Adversarial tag simulators for C08 (environment, not model).

Unlike the honest tags of sim/tag_t1t2.py and sim/tag_t3t4.py these answer from an ARBITRARY
memory image / attribute block / file set, may answer with data where a real product would not,
and stop answering after any number of commands.

  AnyClf(tag, stop=k, stop_mode='timeout'|'txerr')   fake ContactlessFrontend
      the first k exchange() calls reach the tag, every later call raises nfc.clf.TimeoutError
      (or TransmissionError); sense() finds the tag only while fewer than k commands were
      answered (stop=None: never stops).  ncmd = number of exchange() calls, nsense = sense()
      calls.  More than `limit` exchange() calls raise Loop (the harness's verdict "does not stop").

A tag object has  target() -> nfc.clf.RemoteTarget  and  command(bytes) -> bytes | None (mute)
| 'txerr'.
"""
import nfc.clf

LIMIT = 20000


class Loop(Exception):
    """more commands than any bound the property allows: the reader does not stop"""


class AnyClf(object):
    def __init__(self, tag, stop=None, stop_mode='timeout', limit=LIMIT, max_send=256, max_recv=256):
        self.tag = tag
        self.stop = stop
        self.stop_mode = stop_mode
        self.limit = limit
        self.max_send_data_size = max_send
        self.max_recv_data_size = max_recv
        self.ncmd = 0
        self.nsense = 0
        self.cmds = []

    def alive(self):
        return self.stop is None or self.ncmd < self.stop

    def exchange(self, data, timeout):
        if self.ncmd >= self.limit:
            raise Loop()
        if len(self.cmds) < 64:
            self.cmds.append(bytes(data))
        if not self.alive():
            self.ncmd += 1
            if self.stop_mode == 'txerr':
                raise nfc.clf.TransmissionError("garbled")
            raise nfc.clf.TimeoutError("tag has left the field")
        self.ncmd += 1
        r = self.tag.command(bytes(data))
        if r is None:
            raise nfc.clf.TimeoutError("no answer")
        if isinstance(r, str):
            raise nfc.clf.TransmissionError(r)
        return bytearray(r)

    def sense(self, *targets, **kw):
        self.nsense += 1
        if not self.alive():
            return None
        if hasattr(self.tag, 'sensed'):
            self.tag.sensed()
        return targets[0] if targets else None


# ------------------------------------------------------------------------------- Type 2
class T2Any(object):
    """READ answers 16 bytes from `image` (rolling over to page 0 at its end) for every page below
    len(image)/4; pages beyond: `beyond` = 'nak' (00h), 'timeout', 'short' (8 bytes), 'zeros'
    (16 zero bytes for ANY page: a memory without end).  SECTOR SELECT is served when `sectors`.
    `auth` / `version`: answers to 1A 00 and 60 (None = mute, 'txerr', or bytes)."""

    def __init__(self, image, uid=b'\x04\x01\x02\x03\x04\x05\x06', beyond='nak', sectors=True,
                 auth=None, version=None, sel_res=0x00):
        self.image = bytes(image)
        assert len(self.image) % 4 == 0 and len(self.image) >= 16
        self.uid = bytes(uid)
        self.beyond = beyond
        self.sectors = sectors
        self.auth = auth
        self.version = version
        self.sel_res = sel_res
        self.sector = 0
        self.pending = False

    def target(self):
        t = nfc.clf.RemoteTarget("106A")
        t.sens_res = bytearray(b"\x44\x00")
        t.sel_res = bytearray([self.sel_res])
        t.sdd_res = bytearray(self.uid)
        return t

    def sensed(self):
        self.pending = False

    def page16(self, page):
        """what READ(page) delivers, or None / bytes of another length"""
        n = len(self.image) // 4
        if page >= n:
            return {'nak': b'\x00', 'timeout': None, 'short': bytes(8), 'zeros': bytes(16)}[self.beyond]
        out = b''
        for p in range(page, page + 4):
            p %= n
            out += self.image[4 * p:4 * p + 4]
        return out

    def command(self, data):
        if self.pending:
            self.pending = False
            if len(data) == 4:
                self.sector = data[0]
                return None                      # passive ack
            return b'\x00'
        if len(data) == 2 and data[0] == 0x30:
            return self.page16(self.sector * 256 + data[1])
        if data == b'\x1a\x00':
            return self.auth
        if data == b'\x60':
            return self.version
        if data == b'\xc2\xff':
            if self.sectors:
                self.pending = True
                return b'\x0a'
            return b'\x00'
        if len(data) >= 1 and data[0] == 0xA2:
            return b'\x00'
        return None

    def view(self, budget, limit=300000, mode='timeout', sector=0):
        """everything (up to `limit` bytes) a reader that loads 16 bytes at a time in ascending order obtains with `budget`
        commands (None = unlimited), and the number of commands that takes; stops at the first
        command that is not answered with 16 bytes.  Independent of the code under test: READ of
        page 4k, preceded by the two SECTOR SELECT packets at every 1 KiB boundary."""
        out = bytearray()
        used = 0
        index = 0
        while len(out) < limit:
            if index >> 10 != sector:
                if not self.sectors:
                    break
                if budget is not None and used + 1 > budget:
                    break             # the first SECTOR SELECT packet is not answered
                if budget is not None and used + 2 > budget and mode == 'txerr':
                    break             # the second packet ends in a transmission error (a timeout is the passive ack)
                used += 2
                sector = index >> 10
                if sector > 255:
                    break
            if budget is not None and used + 1 > budget:
                break
            d = self.page16(sector * 256 + ((index >> 2) % 256))
            used += 1
            if d is None or len(d) != 16:
                break
            out += d
            index += 16
        return bytes(out)


# ------------------------------------------------------------------------------- Type 1
class T1Any(object):
    """RALL answers HR0 HR1 + image[0:120]; READ8(b) answers image[8b:8b+8], RSEG(s) image[128s:128s+128]
    while that lies inside the image; beyond: 'timeout' or 'zeros' (answers every block / segment)."""

    def __init__(self, hr, image, uid=b'\x01\x02\x03\x04', beyond='timeout', rid=None):
        self.hr = bytes(hr)
        self.image = bytes(image)
        assert len(self.image) >= 120
        self.uid = bytes(uid)
        self.beyond = beyond
        self.rid = rid

    def target(self):
        t = nfc.clf.RemoteTarget("106A")
        t.sens_res = bytearray(b"\x00\x0C")
        t.rid_res = bytearray(self.rid if self.rid is not None else self.hr + self.uid)
        return t

    def chunk(self, a, n):
        if a + n <= len(self.image):
            return self.image[a:a + n]
        if self.beyond == 'zeros':
            return (self.image[a:a + n] + bytes(n))[:n]
        return None

    def command(self, data):
        c = data[0] if data else None
        if c == 0x78 and len(data) == 7:
            return self.hr + self.uid
        if c == 0x00 and len(data) == 7:
            return self.hr + self.image[0:120]
        if c == 0x02 and len(data) == 14:
            d = self.chunk(8 * data[1], 8)
            return None if d is None else bytes([data[1]]) + d
        if c == 0x10 and len(data) == 14:
            d = self.chunk(128 * (data[1] >> 4), 128)
            return None if d is None else bytes([data[1]]) + d
        return None

    def view(self, budget):
        """what the memory reader (RALL, READ8 block 15, RSEG 1..15) can load with `budget` commands"""
        out = bytearray()
        used = 0

        def can():
            return budget is None or used < budget
        if not can():
            return b''
        used += 1
        out += self.image[0:120]
        if not can():
            return bytes(out)
        d = self.chunk(120, 8)
        used += 1
        if d is None:
            return bytes(out)
        out += d
        for seg in range(1, 16):
            if not can():
                break
            d = self.chunk(128 * seg, 128)
            used += 1
            if d is None:
                break
            out += d
        return bytes(out)


# ------------------------------------------------------------------------------- Type 3
class T3Any(object):
    """Polling and Read Without Encryption from a list of 16-byte blocks.  Reads are served for up
    to `max_read` blocks per command, block numbers below len(blocks) (or any block when
    beyond='zeros'); otherwise status FF A2 / 01 A8."""

    def __init__(self, blocks, idm=bytes.fromhex('0102030405060708'), pmm=bytes.fromhex('FFFFFFFFFFFFFFFF'),
                 sys_in_sensf=True, sensf=None, max_read=15, beyond='status', poll=True, poll_extra=b''):
        self.blocks = [bytes(b) for b in blocks]
        self.idm = bytes(idm)
        self.pmm = bytes(pmm)
        self.sys_in_sensf = sys_in_sensf
        self.sensf = sensf
        self.max_read = max_read
        self.beyond = beyond
        self.poll = poll
        self.poll_extra = bytes(poll_extra)      # appended to every polling response (request data nobody asked for)

    def target(self):
        t = nfc.clf.RemoteTarget("212F")
        if self.sensf is not None:
            t.sensf_res = bytearray(self.sensf)
        else:
            t.sensf_res = bytearray(b'\x01' + self.idm + self.pmm + (b'\x12\xFC' if self.sys_in_sensf else b''))
        return t

    def command(self, frame):
        if len(frame) < 2 or frame[0] != len(frame):
            return None
        code = frame[1]
        if code == 0x00:
            if not self.poll or len(frame) != 6 or frame[2:4] not in (b'\x12\xfc', b'\xff\xff'):
                return None
            rsp = self.idm + self.pmm + (b'\x12\xfc' if frame[4] == 1 else b'') + self.poll_extra
            return bytes([2 + len(rsp), 1]) + rsp
        if code != 0x06 or frame[2:10] != self.idm:
            return None
        body = frame[10:]

        def status(a, b):
            return bytes([12, 7]) + self.idm + bytes([a, b])
        try:
            nsvc = body[0]
            pos = 1 + 2 * nsvc
            nblk = body[pos]
            pos += 1
            nums = []
            for i in range(nblk):
                if body[pos] & 0x80:
                    nums.append(body[pos + 1])
                    pos += 2
                else:
                    nums.append(body[pos + 1] | body[pos + 2] << 8)
                    pos += 3
        except IndexError:
            return status(0xFF, 0xA1)
        if nblk < 1 or nblk > self.max_read:
            return status(0xFF, 0xA2)
        data = b''
        for i, n in enumerate(nums):
            if n < len(self.blocks):
                data += self.blocks[n]
            elif self.beyond == 'zeros':
                data += bytes(16)
            else:
                return status(1 << (i % 8), 0xA8)
        rsp = self.idm + bytes([0, 0, nblk]) + data
        if 2 + len(rsp) > 255:
            return None
        return bytes([2 + len(rsp), 7]) + rsp


# ------------------------------------------------------------------------------- Type 4
class T4Any(object):
    """ISO-DEP card (block numbers, response chaining by `cmiu`, command chaining) over an APDU function.
    The default APDU function serves SELECT / READ BINARY from arbitrary files:
      files: {fid bytes: content}, aids: names the card knows
      rb_mode: 'honest' | 'empty' (READ BINARY beyond offset `rb_from` answers 9000 without data)
               | 'over' (answers `rb_extra` bytes more than asked)
    activation: `ats` is the answer to RATS (Type A) / `attrib` the answer to ATTRIB (Type B)."""

    def __init__(self, files, aids=(bytes.fromhex('D2760000850101'),), ats=bytes.fromhex('067577810280'),
                 typeb=False, sensb=bytes.fromhex('5030702A1C00000011008185'), attrib=b'\x00', cmiu=253,
                 rb_mode='honest', rb_from=0, rb_extra=1, apdu_fn=None):
        self.files = {bytes(k): bytes(v) for k, v in files.items()}
        self.aids = [bytes(a) for a in aids]
        self.ats = ats
        self.typeb = typeb
        self.sensb = bytes(sensb)
        self.attrib = attrib
        self.cmiu = cmiu
        self.rb_mode = rb_mode
        self.rb_from = rb_from
        self.rb_extra = rb_extra
        self.apdu_fn = apdu_fn
        self.app = False
        self.sel = None
        self.bn = 1
        self.rx = b''
        self.tx = b''
        self.last = None
        self.napdu = 0
        self.activated = False

    def target(self):
        if self.typeb:
            t = nfc.clf.RemoteTarget("106B")
            t.sensb_res = bytearray(self.sensb)
        else:
            t = nfc.clf.RemoteTarget("106A")
            t.sens_res = bytearray.fromhex("4403")
            t.sel_res = bytearray.fromhex("20")
            t.sdd_res = bytearray.fromhex("04832F9A272D80")
        return t

    # ---- APDU level
    def apdu(self, apdu):
        self.napdu += 1
        if self.apdu_fn is not None:
            return self.apdu_fn(self.napdu, apdu)
        if len(apdu) < 4:
            return b'\x67\x00'
        cla, ins, p1, p2 = apdu[:4]
        data, le = b'', None
        if len(apdu) == 5:
            le = apdu[4] or 256
        elif len(apdu) > 5:
            lc = apdu[4]
            if len(apdu) == 5 + lc:
                data = apdu[5:]
            elif len(apdu) == 6 + lc:
                data = apdu[5:5 + lc]
                le = apdu[-1] or 256
            else:
                return b'\x67\x00'
        if ins == 0xA4:
            if p1 == 0x04:
                if data in self.aids:
                    self.app, self.sel = True, None
                    return b'\x90\x00'
                return b'\x6A\x82'
            if p1 == 0x00 and self.app and data in self.files:
                self.sel = data
                return b'\x90\x00'
            return b'\x6A\x82'
        if self.sel is None:
            return b'\x69\x86'
        f = self.files[self.sel]
        off = p1 << 8 | p2
        if ins == 0xB0:
            if le is None:
                return b'\x90\x00'
            if self.rb_mode == 'empty' and off >= self.rb_from:
                return b'\x90\x00'
            if self.rb_mode == 'over' and off >= self.rb_from:
                return (f[off:off + le] + bytes(le + self.rb_extra))[:le + self.rb_extra] + b'\x90\x00'
            if off > len(f):
                return b'\x6B\x00'
            return f[off:off + le] + b'\x90\x00'
        if ins == 0xD6:
            if not data or off + len(data) > len(f):
                return b'\x6A\x84'
            self.files[self.sel] = f[:off] + data + f[off + len(data):]
            return b'\x90\x00'
        return b'\x6D\x00'

    # ---- block level
    def iblock(self):
        chunk, self.tx = self.tx[:self.cmiu], self.tx[self.cmiu:]
        self.last = bytes([0x02 | (0x10 if self.tx else 0) | self.bn]) + chunk
        return self.last

    def command(self, blk):
        if not self.activated:
            self.activated = True
            return self.attrib if self.typeb else self.ats
        if len(blk) == 0:
            return None
        pcb, inf = blk[0], blk[1:]
        if pcb & 0xEE == 0x02:
            self.bn ^= 1
            if pcb & 0x10:
                self.rx += inf
                self.last = bytes([0xA2 | self.bn])
                return self.last
            apdu, self.rx = self.rx + inf, b''
            self.tx = bytes(self.apdu(apdu))
            return self.iblock()
        if pcb & 0xEE == 0xA2:
            if pcb & 1 == self.bn:
                return self.last
            if pcb & 0x10:
                self.last = bytes([0xA2 | self.bn])
                return self.last
            if self.tx:
                self.bn ^= 1
                return self.iblock()
            return None
        return None


class T4ApduAdv(T4Any):
    """a card whose ISO-DEP layer behaves, that answers the first `good` APDUs like T4Any and EVERY later APDU, for ever,
    with the same response `answer` (data + status word, or any other byte string)"""

    def __init__(self, good, answer, **kw):
        T4Any.__init__(self, **kw)
        self.good_apdus = good
        self.answer = bytes(answer)

    def apdu(self, apdu):
        if self.napdu >= self.good_apdus:
            self.napdu += 1
            return self.answer
        return T4Any.apdu(self, apdu)


class T4Adv(object):
    """ISO-DEP card that behaves (an inner T4Any) for activation and the first `good` blocks and then answers EVERY block,
    for ever, in one way:  rack_other / rack_same - R(ACK) with the other / the same block number as the block received,
    rnak - R(NAK), wtx - S(WTX) request, chain / chain0 - I-block with the chaining bit set (one INF byte / no INF),
    empty - an empty frame, one - a single byte `byte`."""

    def __init__(self, inner, good, mode, byte=0x02):
        self.inner = inner
        self.good = good
        self.mode = mode
        self.byte = byte
        self.n = 0

    def target(self):
        return self.inner.target()

    def command(self, blk):
        if not self.inner.activated:
            return self.inner.command(blk)
        if self.n < self.good:
            self.n += 1
            return self.inner.command(blk)
        bn = blk[0] & 1 if len(blk) else 0
        return {'rack_other': bytes([0xA2 | (bn ^ 1)]), 'rack_same': bytes([0xA2 | bn]), 'rnak': bytes([0xB2 | bn]),
                'wtx': b'\xf2\x01', 'chain': bytes([0x12 | bn, 0xAA]), 'chain0': bytes([0x12 | bn]),
                'empty': b'', 'one': bytes([self.byte])}[self.mode]


class Scripted(object):
    """answers the n-th command with script[n] (bytes | None = mute | 'txerr'); past the end: `tail`"""

    def __init__(self, target, script, tail=None):
        self._target = target
        self.script = list(script)
        self.tail = tail
        self.n = 0

    def target(self):
        return self._target

    def command(self, data):
        r = self.script[self.n] if self.n < len(self.script) else self.tail
        self.n += 1
        return r
