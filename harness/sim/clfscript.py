"""Scripted counterparts for nfc.clf.ContactlessFrontend (property C18).

The REAL ContactlessFrontend (connect/_rdwr_connect/_llcp_connect/_card_connect/sense/listen/
exchange) runs over
  * ScriptedDevice    - a nfc.clf.device.Device subclass returned from a rebound
                        nfc.clf.device.connect; every driver call is recorded and answered from
                        the oracle tables of the case,
  * ScriptedTag       - what the rebound nfc.tag.activate returns (a nfc.tag.Tag subclass whose
                        presence check is answered from the oracle),
  * ScriptedLLC       - subclass of the real LogicalLinkController, bound to
                        nfc.llcp.llc.LogicalLinkController; activate()/run() answered from the oracle,
  * ScriptedEmulation - what the rebound nfc.tag.emulate returns (nfc.tag.TagEmulation subclass),
  * nfc.clf.time      - virtual clock (sleep advances it),
so that the oracle streams fully determine a run.  All observations go to ONE ordered event list.

Case encoding (shared with extract/c18_run.ml, see harness/prop/c18.py for the generator):
  target specs  A B F (106A/106B/212F)  X (106X unknown technology)  D (atr_req 16 byte)
                d / L (atr_req 15 / 65 byte -> ValueError)  a (106A, sel_req 2 byte -> ValueError)
                Z (not a RemoteTarget)
  local targets A B F (listen_tta/ttb/ttf)  P (atr_res set -> listen_dep)  Q (brty 106X -> ValueError)
  driver sense outcomes  f found  p found (peer-to-peer capable)  s found with malformed SENS_RES
                n none  u UnsupportedTargetError  c CommunicationError  i IOError  k KeyboardInterrupt
  listen outcomes  f found  b found with short ATR_REQ  n none  u Unsupported  i IOError  k Kbd
  callback values  T True  F False  N None  0 0  x 'x'  O object()
"""
import errno
import os

import nfc
import nfc.clf
import nfc.clf.device
import nfc.tag
import nfc.llcp.llc
import nfc.dep
import nfc.llcp
import nfc.llcp.pdu


class VirtualTime(object):
    def __init__(self):
        self.now = 1000.0
        self.slept = 0

    def time(self):
        return self.now

    def sleep(self, s):
        self.slept += 1
        self.now += max(0.0, s)


class Chooser(object):
    """systematic (depth-first) or random exploration of oracle answers.
    prefix = choices to replay; beyond it the first alternative (or a random one) is taken"""

    def __init__(self, prefix=(), rng=None):
        self.prefix = list(prefix)
        self.trail = []          # (choice, domain size)
        self.rng = rng

    def choose(self, n):
        i = len(self.trail)
        if i < len(self.prefix):
            c = self.prefix[i]
        elif self.rng is not None:
            c = self.rng.randrange(n)
        else:
            c = 0
        self.trail.append((c, n))
        return c

    def next_prefix(self):
        t = list(self.trail)
        while t and t[-1][0] + 1 >= t[-1][1]:
            t.pop()
        if not t:
            return None
        return [c for c, _ in t[:-1]] + [t[-1][0] + 1]


class Oracle(object):
    """stream consumed in call order; `dflt` when exhausted.  With a chooser the stream is extended
    on demand (at most `limit` free answers) and ends up holding exactly what was answered."""

    def __init__(self, items, dflt, domain=None, chooser=None, limit=0):
        self.items = list(items)
        self.pos = 0
        self.dflt = dflt
        self.domain, self.chooser, self.limit = domain, chooser, limit

    def next(self):
        if self.pos < len(self.items):
            v = self.items[self.pos]
            self.pos += 1
            return v
        if self.chooser is not None and len(self.items) < self.limit:
            v = self.domain[self.chooser.choose(len(self.domain))]
            self.items.append(v)
            self.pos += 1
            return v
        return self.dflt


class StopRun(BaseException):
    """safety net: the scripted terminate() was polled far more often than any model run would"""


# the family of I/O errors a driver / transport really raises.  In Python 3 IOError(errno, ..) instantiates
# OSError SUBCLASSES for many errno values; all of them are IOError for `except IOError` and for the
# documented contract of connect() (returns False).  The model has one code for the whole family ('i').
IOFAM = {'i': errno.EIO, 'I': None, 'e': errno.ENODEV, 'm': errno.ETIMEDOUT, 'q': errno.EPIPE}
IOCODES = 'iIemq'


def model_code(c):
    return 'i' if c in IOFAM else c


DOMAINS = {'term': [False, True], 'cbs': 'TFN0xO', 'sense': 'nfpuicskIemq', 'listen': 'nfbuikIemq',
           'tagact': 'tnikIemq', 'present': 'nyikIemq', 'llcact': 'ftikIemq',
           'llcrun': [(0, 'r'), (1, 'r'), (2, 'r'), (1, 'k'), (0, 'i'), (1, 'I'), (0, 'e'), (1, 'm'), (0, 'q')],
           'emulate': '10', 'cardstep': 'bncikIemq',
           'xchg': 'oTXP', 'peer': 'sdx'}
NO_LIMITS = dict((k, 0) for k in DOMAINS)


class World(object):
    """everything scripted for one case + the single event list.
    Events starting with '!' are annotations of the ENVIRONMENT (what a stand-in answered); they are
    used by the monitor only and are never compared with the model."""

    def __init__(self, case, chooser=None, limits=None, domains=None):
        self.case = case
        self.ev = []
        lim = dict(NO_LIMITS)
        lim.update(limits or {})
        dom = dict(DOMAINS)
        dom.update(domains or {})
        self.lim, self.dom, self.chooser = lim, dom, chooser

        def orc(kind, items, dflt):
            return Oracle(items, dflt, dom[kind], chooser, lim[kind])
        self.term = orc('term', [c == '1' for c in case.get('term', '')], case.get('termd', '1') == '1')
        self.polls = 0
        self.cbs = orc('cbs', case.get('cbs', ''), 'T')
        self.sense_tables = [[str(x) for x in t] for t in case.get('sense', [])]   # per call: per iteration strings
        self.sense_free = 0
        self.sense_call = -1
        self.sense_iter = 0
        self.listen = orc('listen', case.get('listen', ''), 'n')
        self.tagact = orc('tagact', case.get('tagact', ''), 'n')
        self.present = orc('present', case.get('present', ''), 'n')
        self.llcact = orc('llcact', case.get('llcact', ''), 'f')
        self.llcrun = orc('llcrun', [tuple(x) for x in case.get('llcrun', [])], (0, 'r'))
        self.emulate = orc('emulate', case.get('emulate', ''), '0')
        self.cardstep = orc('cardstep', case.get('cardstep', ''), 'b')
        self.xchg = orc('xchg', case.get('xchg', ''), 'o')      # live tag: what each device exchange does
        self.peer = orc('peer', case.get('peer', ''), 's')      # live llc: what the peer answers
        self.live = case.get('live')                            # None | 'tag' | 'llc'
        self.in_activate = False
        self.fed = 0
        self.terminated = False
        self.objects = {}       # id(obj) -> (obj, name), for naming returned objects
        self.nobj = 0

    def export(self):
        """the case with every stream holding what was actually answered"""
        c = dict(self.case)
        c['term'] = ''.join('1' if b else '0' for b in self.term.items)
        c['cbs'] = ''.join(self.cbs.items)
        c['sense'] = [list(t) for t in self.sense_tables]
        for k in ('listen', 'tagact', 'present', 'llcact', 'emulate', 'cardstep'):
            c[k] = ''.join(getattr(self, k).items)
        c['llcrun'] = [list(x) for x in self.llcrun.items]
        if self.live:
            c['xchg'] = ''.join(self.xchg.items)
            c['peer'] = ''.join(self.peer.items)
        return c

    # --- naming of objects handed to the code under test
    def name(self, obj, name):
        self.objects[id(obj)] = (obj, name)
        return obj

    def nameof(self, obj):
        e = self.objects.get(id(obj))
        return e[1] if e is not None and e[0] is obj else None

    def terminate(self):
        self.polls += 1
        if self.polls > 5000:
            raise StopRun()
        r = self.term.next()
        self.ev.append('term:%d' % (1 if r else 0))
        if r:
            self.terminated = True
        return r

    def cbvalue(self):
        c = self.cbs.next()
        return {'T': True, 'F': False, 'N': None, '0': 0, 'x': 'x', 'O': object()}[c], c

    def sense_outcome(self, pos):
        """outcome for the current sense call / iteration / target position (default: none)"""
        call, it = self.sense_call, self.sense_iter
        if 0 <= call < len(self.sense_tables):
            tab = self.sense_tables[call]
            if it < len(tab) and pos < len(tab[it]):
                return tab[it][pos]
        if self.chooser is not None and self.sense_free < self.lim['sense'] and call >= 0 and pos >= 0:
            self.sense_free += 1
            d = self.dom['sense']
            v = d[self.chooser.choose(len(d))]
            while len(self.sense_tables) <= call:
                self.sense_tables.append([])
            tab = self.sense_tables[call]
            while len(tab) <= it:
                tab.append('')
            tab[it] = tab[it] + 'n' * (pos - len(tab[it])) + v
            return v
        return 'n'

    def feed(self):
        """live llc, busy case: the application queues the next datagram (bounded, so that a run that
        ignores terminate() still ends)"""
        if self.fed < 25 and getattr(self, 'llc', None) is not None:
            self.fed += 1
            self.llc.sendto(self.sock, b'DATA', 32, nfc.llcp.MSG_DONTWAIT)

    def peer_answer(self):
        """next answer of the scripted remote peer of the live llc / dep parts.  Once terminate() has returned
        true the transport does not fail any more: the model's run-loop stand-in ends normally in that case and
        cannot express an I/O error during the closing DISC exchange"""
        o = self.peer.next()
        if o in IOFAM and self.terminated:
            return 's'
        return o

    def throw(self, code, ctx=''):
        if code == 'u':
            self.ev.append('!raise:UnsupportedTargetError' + ctx)
            raise nfc.clf.UnsupportedTargetError('scripted')
        if code == 'c':
            raise nfc.clf.CommunicationError('scripted')
        if code in IOFAM:
            self.ev.append('!raise:IOError')
            if IOFAM[code] is None:
                raise IOError('scripted i/o error')
            raise IOError(IOFAM[code], os.strerror(IOFAM[code]))      # an OSError subclass for ETIMEDOUT / EPIPE
        if code == 'k':
            self.ev.append('!raise:KeyboardInterrupt')
            raise KeyboardInterrupt()


def live_target(ttype, kind, o):
    """discovery data of a real tag of the given type (o = 'p': also announces NFC-DEP, 's': bad SENS_RES)"""
    H = bytearray.fromhex
    if kind == 'tta':
        if ttype == 't1':
            t = nfc.clf.RemoteTarget('106A', sens_res=H('000C'), rid_res=H('1148B2565400'))
        elif ttype == 't4a':
            t = nfc.clf.RemoteTarget('106A', sens_res=H('0403'), sel_res=H('20'), sdd_res=H('04832F9A272D80'))
        elif ttype == 't2n':
            t = nfc.clf.RemoteTarget('106A', sens_res=H('4400'), sel_res=H('00'), sdd_res=H('04510CC2D73881'))
        else:
            t = nfc.clf.RemoteTarget('106A', sens_res=H('4400'), sel_res=H('00'), sdd_res=H('05510CC2D73881'))
        if o == 'p' and t.sel_res is not None:
            t.sel_res = bytearray([t.sel_res[0] | 0x40])
        if o == 's':
            t.sens_res = H('440000')
        return t
    if kind == 'ttb':
        return nfc.clf.RemoteTarget('106B', sensb_res=H('50E8253EEC00000011008185'))
    ic = {'t3': 'FF', 't3std': '01', 't3lite': 'F0', 't3lites': 'F1'}.get(ttype, 'FF')
    idm = '01FE030405060708' if o == 'p' else '0102030405060708'
    return nfc.clf.RemoteTarget('212F', sensf_res=H('01' + idm + '00' + ic + 'FFFFFFFFFFFF' + '12FC'))


def dep_env_target(penv, kind, asked):
    """what the environment of the live DEP part presents to a sense call of the real nfc.dep.Initiator"""
    H = bytearray.fromhex
    if kind == 'dep':         # active communication mode search (ATR_REQ sent by the driver)
        if penv == 'active':
            return nfc.clf.RemoteTarget(asked.brty, atr_req=asked.atr_req,
                                        atr_res=H('d501 01fe0000000000005354 0000000032 46666d010113'))
        return None
    if kind == 'tta':
        if penv == 't1':
            return nfc.clf.RemoteTarget('106A', sens_res=H('000C'), rid_res=H('1148B2565400'))
        sel = {'t2': '00', 't4a': '20', 'dep106': '40', 't4adep': '60'}.get(penv)
        if sel is not None:
            return nfc.clf.RemoteTarget('106A', sens_res=H('4400'), sel_res=H(sel), sdd_res=H('08010203'))
        return None
    if kind == 'ttf':
        if penv == 'f_tag':
            return nfc.clf.RemoteTarget(asked.brty, sensf_res=H('01 0102030405060708 00F1FFFFFFFFFFFF'))
        if penv == 'f_dep':
            return nfc.clf.RemoteTarget(asked.brty, sensf_res=H('01 01FE030405060708 0000000000000000'))
        return None
    if kind == 'ttb' and penv == 'tb':
        return nfc.clf.RemoteTarget('106B', sensb_res=H('50E8253EEC00000011008185'))
    return None


def dep_initiator_peer(w, data):
    """the remote NFC-DEP target of the live DEP part (we are initiator): answers ATR / PSL / DEP / DSL / RLS"""
    H = bytearray.fromhex
    f0 = bool(data) and data[0] == 0xF0
    if f0:
        data = data[1:]
    if len(data) < 3 or data[1] != 0xD4:
        raise nfc.clf.TimeoutError('scripted')
    code = data[2]

    def out(x):
        return (bytearray(b'\xF0') if f0 else bytearray()) + x
    if code in (0x00, 0x04):
        o = w.xchg.next()
        w.ev.append('!dep:%02x:%s' % (code, o))
        if o != 'o':
            raise nfc.clf.TimeoutError('scripted')
        if code == 0x00:
            return out(H('18 d501 01fe0000000000005354 0000000032 46666d010113'))
        return out(H('04 d505 00'))
    if code == 0x06:
        pfb = data[3]
        if pfb & 0xE0 == 0x80:
            return out(bytearray([4, 0xD5, 0x07, pfb]))
        o = w.peer_answer()
        w.throw(o)
        if o == 'x':
            raise nfc.clf.TimeoutError('scripted')
        pay = bytearray(ADV[o][1]) if o in ADV else (H('0140') if o == 'd' else H('0000'))
        return out(bytearray([4 + len(pay), 0xD5, 0x07, pfb & 3]) + pay)
    if code == 0x08:
        return out(H('03 d509'))
    if code == 0x0A:
        return out(H('03 d50b'))
    raise nfc.clf.TimeoutError('scripted')


def dep_target_peer(w, data):
    """the remote NFC-DEP initiator of the live DEP part (we are target): sends the next DEP_REQ"""
    H = bytearray.fromhex
    if data is None or len(data) < 4 or data[1] != 0xD5 or data[2] != 0x07 or data[3] & 0xE0 != 0:
        raise nfc.clf.TimeoutError('scripted')
    o = w.peer_answer()
    w.throw(o)
    if o == 'x':
        raise nfc.clf.TimeoutError('scripted')
    pni = ((data[3] & 3) + 1) % 4
    pay = bytearray(ADV[o][1]) if o in ADV else (H('0140') if o == 'd' else H('0000'))
    return bytearray([4 + len(pay), 0xD4, 0x06, pni]) + pay


def canned_response(ttype, target, data):
    """what a healthy tag of that type answers to the commands used for activation and presence check;
    None = no answer (the command is not supported: timeout)"""
    c = data[0]
    if ttype == 't1':
        if c == 0x01 and len(data) >= 2:        # READ byte
            return bytearray([data[1], target.rid_res[2] if data[1] == 0 else 0])
        return None
    if ttype in ('t2', 't2n'):
        if c == 0x30:                           # READ
            return bytearray(16)
        if c == 0x60 and ttype == 't2n':        # GET_VERSION (an unknown product: plain Type2Tag)
            return bytearray(b"\x00\x04\x04\x02\x01\x00\x7F\x03")
        return None
    if ttype in ('t4a', 't4b'):
        if c == 0xE0:
            return bytearray.fromhex('0578807002')
        if c == 0x1D:
            return bytearray(b'\x00')
        if c & 0xF6 == 0xB2:                    # R(NAK) presence check -> R(ACK)
            return bytearray([0xA2 | (c & 1)])
        return None
    if len(data) >= 2 and data[1] == 0x00 and target.sensf_res is not None:      # polling
        return bytearray([18, 1]) + target.sensf_res[1:17]
    return None


class ScriptedDevice(nfc.clf.device.Device):
    def __init__(self, world):
        self.w = world
        self._path = 'scripted:0'
        self._vendor_name = 'NV'
        self._device_name = 'Scripted'
        self._chipset_name = 'none'
        self.mutes_in_call = 0

    def close(self):
        self.w.ev.append('close')

    def mute(self):
        if len(self.w.ev) > 200000:
            raise StopRun()       # safety net for runs without terminate()
        if self.w.in_activate:
            self.w.ev.append('!mute')      # re-sense from inside a tag activation (Type 2 Tag)
            return
        self.w.ev.append('mute')
        # iteration bookkeeping: the first mute of a sense call is the field reset, every further
        # one ends an iteration (begin_sense is signalled by ObservedCLF.sense)
        self.mutes_in_call += 1
        if self.mutes_in_call >= 2:
            self.w.sense_iter += 1

    def _sense(self, kind, target):
        if self.w.in_activate and self.w.live == 'dep':
            self.w.ev.append('!sense_' + kind)
            t = dep_env_target(self.w.case.get('penv', 'none'), kind, target)
            return t if t is None else self.w.name(t, 'rt:dep')
        if self.w.in_activate:
            self.w.ev.append('!resense')
            t = live_target(self.w.case.get('ttype', 't3'), kind, 'f')
            return self.w.name(t, 'rt:again')
        pos = target._pos if target._pos is not None else -1
        self.w.ev.append('sense_%s:%d' % (kind, pos))
        o = self.w.sense_outcome(pos)
        self.w.throw(o, ':sense')
        if o == 'n':
            return None
        brty = {'tta': '106A', 'ttb': '106B', 'ttf': '212F', 'dep': target.brty}[kind]
        if self.w.live == 'tag' and kind != 'dep':
            t = live_target(self.w.case.get('ttype', 't3'), kind, o)
            t._found = (self.w.sense_call, self.w.sense_iter, pos)
            self.w.name(t, 'rt:%d:%d:%d' % t._found)
            return t
        t = nfc.clf.RemoteTarget(brty)
        t._found = (self.w.sense_call, self.w.sense_iter, pos)
        t.sens_res = bytearray.fromhex('4400')
        t.sel_res = bytearray.fromhex('00')
        t.sdd_res = bytearray.fromhex('04010203')
        t.sensf_res = None
        if kind == 'ttf':
            t.sens_res = t.sel_res = t.sdd_res = None
            t.sensf_res = bytearray.fromhex('01 0102030405060708 FFFFFFFFFFFFFFFF')
        if o == 'p':      # indicates NFC-DEP support
            if kind == 'ttf':
                t.sensf_res = bytearray.fromhex('01 01FE030405060708 FFFFFFFFFFFFFFFF')
            else:
                t.sel_res = bytearray.fromhex('40')
        if o == 's':      # SENS_RES of wrong length
            t.sens_res = bytearray.fromhex('440000')
        self.w.name(t, 'rt:%d:%d:%d' % t._found)
        return t

    def sense_tta(self, target):
        return self._sense('tta', target)

    def sense_ttb(self, target):
        return self._sense('ttb', target)

    def sense_ttf(self, target):
        return self._sense('ttf', target)

    def sense_dep(self, target):
        return self._sense('dep', target)

    def _listen(self, kind, target, timeout):
        if self.w.in_activate and self.w.live == 'dep':
            # the real nfc.dep.Target.activate listens: a remote initiator activates us, or nobody does
            self.w.ev.append('!listen_' + kind)
            if self.w.case.get('penv') != 'rinit' or kind != 'dep':
                return None
            H = bytearray.fromhex
            t = nfc.clf.LocalTarget('212F')
            t.sensf_res = target.sensf_res
            t.atr_res = target.atr_res
            t.atr_req = H('d400 01fe0000000000005354 00000032 46666d010113')
            t.dep_req = H('d406 000000')
            return self.w.name(t, 'lt:dep')
        self.w.ev.append('listen_%s' % kind)
        self.w.nobj += 1          # number of this driver listen call = identity of its result
        o = self.w.listen.next()
        self.w.throw(o)
        if o == 'n':
            return None
        t = nfc.clf.LocalTarget(target.brty if kind != 'dep' else '424F')
        t._found = self.w.nobj
        if kind == 'dep':
            t.atr_res = target.atr_res
            t.atr_req = bytearray(16)
        if o == 'b':
            t.atr_req = bytearray(15)
        self.w.name(t, 'lt:%d' % t._found)
        return t

    def listen_tta(self, target, timeout):
        return self._listen('tta', target, timeout)

    def listen_ttb(self, target, timeout):
        return self._listen('ttb', target, timeout)

    def listen_ttf(self, target, timeout):
        return self._listen('ttf', target, timeout)

    def listen_dep(self, target, timeout):
        return self._listen('dep', target, timeout)

    def send_cmd_recv_rsp(self, target, data, timeout):
        if self.w.live == 'dep':
            return dep_initiator_peer(self.w, bytearray(data))
        if self.w.live == 'tag':
            # live tag: every exchange of the real tag code (activation commands, presence checks)
            # answers, or fails with one of the CommunicationError subclasses
            o = self.w.xchg.next()
            self.w.ev.append('!xchg:' + o)
            if o in IOFAM:
                self.w.throw(o)
            rsp = canned_response(self.w.case.get('ttype', 't3'), target, bytearray(data)) if o == 'o' else None
            if o == 'X':
                raise nfc.clf.TransmissionError('scripted')
            if o == 'P':
                raise nfc.clf.ProtocolError('scripted')
            if rsp is None:
                raise nfc.clf.TimeoutError('scripted')
            return rsp
        self.w.ev.append('cmd>%s' % self.w.nameof(target))
        return bytearray(b'\x00')

    def send_rsp_recv_cmd(self, target, data, timeout=None):
        if self.w.live == 'dep':
            return dep_target_peer(self.w, None if data is None else bytearray(data))
        self.w.ev.append('rsp>%s' % self.w.nameof(target))
        return bytearray(b'\x00')

    def get_max_send_data_size(self, target):
        return 256

    def get_max_recv_data_size(self, target):
        return 256

    def turn_on_led_and_buzzer(self):
        self.w.ev.append('beep_on')

    def turn_off_led_and_buzzer(self):
        self.w.ev.append('beep_off')


class ScriptedTag(nfc.tag.Tag):
    TYPE = 'ScriptedTag'

    def __init__(self, clf, target, world):
        super(ScriptedTag, self).__init__(clf, target)
        self._nfcid = b'\x01\x02\x03\x04'
        self.w = world

    def _is_present(self):
        self.w.ev.append('present?')
        o = self.w.present.next()
        self.w.throw(o)
        return o == 'y'


class ScriptedLLC(nfc.llcp.llc.LogicalLinkController):
    world = None

    def activate(self, mac, **options):
        w = ScriptedLLC.world
        role = 'target' if isinstance(mac, nfc.dep.Target) else 'initiator' if isinstance(mac, nfc.dep.Initiator) else '?'
        w.ev.append('llc_activate:' + role)
        o = w.llcact.next()
        w.throw(o)
        w.ev.append('!llc:%d' % (o == 't'))
        return o == 't'

    def run(self, terminate=lambda: False):
        w = ScriptedLLC.world
        w.ev.append('llc_run')
        polls, how = w.llcrun.next()
        for _ in range(polls):
            if terminate():
                return
        w.throw(how)


class ScriptedEmulation(nfc.tag.TagEmulation):
    def __init__(self, clf, target, world):
        self.clf, self.target, self.w = clf, target, world
        self.cmd = bytearray(b'\x06')

    def __str__(self):
        return 'ScriptedEmulation'

    def process_command(self, cmd):
        self.w.ev.append('process')
        return bytearray(b'\x07')

    def send_response(self, rsp, timeout):
        self.w.ev.append('send_rsp')
        o = self.w.cardstep.next()
        if o == 'b':
            raise nfc.clf.BrokenLinkError('scripted')
        self.w.throw(o)
        return bytearray(b'\x06')


RT_SPEC = {'A': ('106A', {}), 'B': ('106B', {}), 'F': ('212F', {}), 'X': ('106X', {}),
           'D': ('106A', {'atr_req': 16}), 'd': ('106A', {'atr_req': 15}), 'L': ('106A', {'atr_req': 65}),
           'a': ('106A', {'sel_req': 2})}
LT_SPEC = {'A': '106A', 'B': '106B', 'F': '212F', 'P': '212F', 'Q': '106X'}


def make_remote(code, pos):
    if code == 'Z':
        return nfc.clf.LocalTarget('106A')
    brty, attrs = RT_SPEC[code]
    t = nfc.clf.RemoteTarget(brty)
    for k, n in attrs.items():
        setattr(t, k, bytearray(n))
    t._pos = pos
    return t


def make_local(code):
    if code == 'Z':
        return nfc.clf.RemoteTarget('106A')
    t = nfc.clf.LocalTarget(LT_SPEC[code])
    if code == 'P':
        t.atr_res = bytearray(17)
    return t


class LiveLLC(nfc.llcp.llc.LogicalLinkController):
    """the REAL LogicalLinkController (activate, run loops, collect, dispatch, terminate); the run loops
    are only wrapped to record their start and how often terminate() was consulted"""
    world = None

    def activate(self, mac, **options):
        w = LiveLLC.world
        try:
            r = super(LiveLLC, self).activate(mac, **options)
        except IOError:
            if w.live == 'dep':
                w.llcact.items.append('i')
                w.llcact.pos = len(w.llcact.items)
            raise
        if w.live == 'dep':
            w.llcact.items.append('t' if r else 'f')
            w.llcact.pos = len(w.llcact.items)
        w.ev.append('!llc:%d' % bool(r))
        return r

    def exchange(self, send_pdu, timeout):
        # one link-level exchange (the real NFC-DEP layer below may retry / send attention requests)
        if LiveLLC.world.live == 'dep':
            LiveLLC.world.ev.append('!xchg')
        return super(LiveLLC, self).exchange(send_pdu, timeout)

    def _wrapped(self, real, terminate):
        w = LiveLLC.world
        w.ev.append('llc_run')
        n0 = w.polls
        how = 'r'
        try:
            return real(terminate)
        except (IOError, SystemExit):
            how = 'i'         # the run loop met an input/output error (it raises SystemExit for it)
            raise
        except KeyboardInterrupt:
            how = 'k'
            raise
        finally:
            w.llcrun.items.append((w.polls - n0, how))
            w.llcrun.pos = len(w.llcrun.items)

    def run_as_initiator(self, terminate=lambda: False):
        return self._wrapped(super(LiveLLC, self).run_as_initiator, terminate)

    def run_as_target(self, terminate=lambda: False):
        return self._wrapped(super(LiveLLC, self).run_as_target, terminate)


# ------------------------------------------------------------------ adversarial but well-formed LLCP PDUs of the scripted peer
def _hdr(dsap, ptype, ssap):
    return bytes([(dsap << 2) | (ptype >> 2), ((ptype & 3) << 6) | ssap])


def _agf(*pdus):
    return _hdr(0, 2, 0) + b''.join(bytes([len(x) >> 8, len(x) & 255]) + x for x in pdus)


def _adversarial_pdus():
    """(description, bytes) in a FIXED order; the case stores the one-letter code of an entry"""
    names = [('non-ascii', b'urn:nfc:sn:caf\xe9'), ('non-utf8', b'\xff\xfe\x80'), ('nul', b'urn:nfc:sn:a\x00b'), ('empty', b''),
             ('known', b'urn:nfc:sn:test')]
    out = []
    for what, sn in names:
        tlv = bytes([6, len(sn)]) + sn
        c_name = _hdr(1, 4, 32) + tlv                 # CONNECT to the service discovery SAP (connect by name)
        c_sap = _hdr(16, 4, 33) + tlv                 # CONNECT to a (listening) SAP carrying a service name
        sdreq = _hdr(1, 9, 1) + bytes([8, 1 + len(sn), 7]) + sn      # SNL with an SDREQ
        out += [('CONNECT by name, %s name' % what, c_name), ('CONNECT to SAP 16, %s name' % what, c_sap),
                ('SNL SDREQ, %s name' % what, sdreq),
                ('AGF[CONNECT by name, CONNECT to SAP, SDREQ], %s name' % what, _agf(c_name, c_sap, sdreq))]
    for reason in (0x05, 0x21, 0xFF):
        out.append(('DM reserved reason %02x' % reason, _hdr(32, 7, 16) + bytes([reason])))
    out.append(('AGF[DM reserved reasons]', _agf(*[_hdr(32, 7, 16) + bytes([r]) for r in (0x04, 0x12, 0x80)])))
    frmr = [_hdr(32, 8, 16) + bytes([(n << 4) | 12, 0x11, 0x22, 0x33]) for n in range(16)]
    out += [('FRMR flags 0', frmr[0]), ('FRMR flags F', frmr[15]),
            ('AGF[FRMR flags 0..7]', _agf(*frmr[:8])), ('AGF[FRMR flags 8..F]', _agf(*frmr[8:]))]
    pax = _hdr(0, 1, 0) + bytes([1, 1, 0x13, 2, 2, 0x07, 0xFF, 4, 1, 0x64])
    out += [('PAX mid-link', pax), ('AGF[PAX]', _agf(pax)),
            ('AGF with a zero-length entry', _hdr(0, 2, 0) + b'\x00\x00'),
            ('AGF with zero-length entries and a SYMM', _agf(b'', b'', b'\x00\x00', b'')),
            ('AGF empty', _hdr(0, 2, 0)),
            ('unknown ptype 11', _hdr(16, 11, 32) + b'\x01\x02'), ('unknown ptype 15', _hdr(0, 15, 0)),
            ('AGF[unknown ptypes]', _agf(_hdr(16, 11, 32), _hdr(1, 15, 1) + b'\x00')),
            ('CC to an unconnected SAP', _hdr(32, 6, 16)), ('I PDU without connection', _hdr(16, 12, 32) + b'\x00data'),
            ('RR without connection', _hdr(16, 13, 32) + b'\x00'), ('UI to SAP 1', _hdr(1, 3, 32) + b'x'),
            ('CONNECT with truncated TLV', _hdr(16, 4, 32) + b'\x06\x05ab')]
    return out


ADV_CODES = [c for c in 'ABCDEFGHJKLMNOPQRSTUVWXYZabcfghjklnoprtuvwyz0123456789@#$%&*+=<>?' if c not in 'sdxiIemqcku']
ADV = {}
for _i, (_what, _b) in enumerate(_adversarial_pdus()):
    ADV[ADV_CODES[_i]] = (_what, _b)


def _peer_exchange(w, send_data):
    """the scripted remote peer of the live llc part: answers SYMM, disconnects or is gone; in 'busy'
    cases it is also the application that keeps the next datagram queued (like a sender thread)"""
    w.ev.append('!xchg')
    if w.case.get('busy') and send_data is not None and bytes(send_data).endswith(b'DATA'):
        w.feed()
    o = w.peer_answer()
    w.throw(o)                               # the reader's transport fails (family of IOError)
    if o in ADV:
        return bytearray(ADV[o][1])
    if o == 'd':
        return bytearray(b'\x01\x40')       # DISC
    if o == 'x':
        return None                          # link disruption
    return bytearray(b'\x00\x00')           # SYMM


class LiveInitiatorMAC(nfc.dep.Initiator):
    world = None

    def activate(self, target=None, **options):
        w = LiveInitiatorMAC.world
        w.ev.append('llc_activate:initiator')
        o = w.llcact.next()
        w.throw(o)
        self.rwt = 0.01
        return bytearray(b'Ffm\x01\x01\x13') if o == 't' else None

    def exchange(self, send_data, timeout):
        return _peer_exchange(LiveInitiatorMAC.world, send_data)

    def deactivate(self, release=True):
        LiveInitiatorMAC.world.ev.append('!deactivate')


class LiveTargetMAC(nfc.dep.Target):
    world = None

    def activate(self, timeout=None, **options):
        w = LiveTargetMAC.world
        w.ev.append('llc_activate:target')
        o = w.llcact.next()
        w.throw(o)
        self.rwt = 0.01
        return bytearray(b'Ffm\x01\x01\x13') if o == 't' else None

    def exchange(self, send_data, timeout):
        return _peer_exchange(LiveTargetMAC.world, send_data)

    def deactivate(self, data=bytearray()):
        LiveTargetMAC.world.ev.append('!deactivate')


def _real_dep_classes(w, real_initiator, real_target):
    """the REAL nfc.dep.Initiator / Target; activate() is only bracketed so that its sense / listen calls
    are recognised as part of the llc activation"""
    class RecInitiator(real_initiator):
        def activate(self, target=None, **options):
            w.ev.append('llc_activate:initiator')
            w.in_activate = True
            try:
                return super(RecInitiator, self).activate(target, **options)
            finally:
                w.in_activate = False

    class RecTarget(real_target):
        def activate(self, timeout=None, **options):
            w.ev.append('llc_activate:target')
            w.in_activate = True
            try:
                return super(RecTarget, self).activate(timeout, **options)
            finally:
                w.in_activate = False
    return RecInitiator, RecTarget


class Session(object):
    """rebinds the module attributes for the duration of one case and restores them.
    case['live'] = 'tag': the real nfc.tag.activate and the real presence checks of the tag classes run
    over the scripted device; 'llc': the real LogicalLinkController runs over scripted MAC objects"""

    def __init__(self, case, live=False, **kw):
        if live and not case.get('live'):
            case = dict(case, live='tag')
        self.w = World(case, **kw)
        self.saved = None

    def __enter__(self):
        w = self.w
        self.saved = (nfc.clf.device.connect, nfc.tag.activate, nfc.tag.emulate,
                      nfc.llcp.llc.LogicalLinkController, nfc.clf.time,
                      nfc.tag.Tag.is_present, nfc.dep.Initiator, nfc.dep.Target, nfc.llcp.llc.time, nfc.dep.time)
        dev = ScriptedDevice(w)
        self.dev = dev
        nfc.clf.device.connect = lambda path: dev
        nfc.clf.time = VirtualTime()
        ScriptedLLC.world = w

        def activate(clf, target):
            w.ev.append('tag_activate:%s' % w.nameof(target))
            o = w.tagact.next()
            w.throw(o)
            w.ev.append('!tag:%d' % (o == 't'))
            if o == 'n':
                return None
            return w.name(ScriptedTag(clf, target, w), 'tag')

        def emulate(clf, target):
            w.ev.append('emulate:%s' % w.nameof(target))
            o = w.emulate.next()
            w.ev.append('!emu:%s' % o)
            if o != '1':
                return None
            return w.name(ScriptedEmulation(clf, target, w), 'emu')

        real_activate = self.saved[1]
        real_is_present = self.saved[5]

        def fill(orc, code):
            orc.items.append(code)
            orc.pos = len(orc.items)

        def live_activate(clf, target):
            # the REAL nfc.tag.activate; only recorded.  The oracle stream is filled with what happened
            w.ev.append('tag_activate:%s' % w.nameof(target))
            w.in_activate = True
            try:
                tag = real_activate(clf, target)
            except IOError:
                fill(w.tagact, 'i')
                raise
            finally:
                w.in_activate = False
            fill(w.tagact, 't' if tag is not None else 'n')
            w.ev.append('!tag:%d' % (tag is not None))
            return tag if tag is None else w.name(tag, 'tag')

        def live_is_present(tag):
            w.ev.append('present?')
            try:
                r = real_is_present.fget(tag)
            except IOError:
                fill(w.present, 'i')
                raise
            fill(w.present, 'y' if r else 'n')
            return r

        nfc.tag.activate = live_activate if w.live == 'tag' else activate
        if w.live == 'tag':
            nfc.tag.Tag.is_present = property(live_is_present)
        nfc.tag.emulate = emulate
        if w.live == 'llc':
            LiveLLC.world = LiveInitiatorMAC.world = LiveTargetMAC.world = w
            nfc.llcp.llc.LogicalLinkController = LiveLLC
            nfc.dep.Initiator = LiveInitiatorMAC
            nfc.dep.Target = LiveTargetMAC
            nfc.llcp.llc.time = VirtualTime()
        elif w.live == 'dep':
            # real LogicalLinkController AND real nfc.dep.Initiator / Target over the scripted device
            LiveLLC.world = w
            nfc.llcp.llc.LogicalLinkController = LiveLLC
            nfc.dep.Initiator, nfc.dep.Target = _real_dep_classes(w, self.saved[6], self.saved[7])
            nfc.llcp.llc.time = VirtualTime()
            nfc.dep.time = VirtualTime()
        else:
            nfc.llcp.llc.LogicalLinkController = ScriptedLLC

        class ObservedCLF(nfc.clf.ContactlessFrontend):
            # instrumentation only: marks the start of a sense call for the oracle lookup
            def sense(self_, *targets, **options):
                if not w.in_activate:
                    w.sense_call += 1
                    w.sense_iter = 0
                    dev.mutes_in_call = 0
                    for i, t in enumerate(targets):
                        try:
                            t._pos = i
                        except AttributeError:
                            pass
                return super(ObservedCLF, self_).sense(*targets, **options)

        self.clf = ObservedCLF('scripted')
        return self

    def __exit__(self, *a):
        (nfc.clf.device.connect, nfc.tag.activate, nfc.tag.emulate,
         nfc.llcp.llc.LogicalLinkController, nfc.clf.time,
         nfc.tag.Tag.is_present, nfc.dep.Initiator, nfc.dep.Target, nfc.llcp.llc.time, nfc.dep.time) = self.saved
        ScriptedLLC.world = LiveLLC.world = LiveInitiatorMAC.world = LiveTargetMAC.world = None


def classify_value(w, v):
    """canonical name of a connect() return value"""
    if v is None:
        return 'None'
    if v is True:
        return 'True'
    if v is False:
        return 'False'
    n = w.nameof(v)
    if n is not None:
        return n
    if isinstance(v, nfc.llcp.llc.LogicalLinkController):
        return 'llc'
    if v == 0 and isinstance(v, int):
        return 'val:0'
    if v == 'x':
        return 'val:x'
    return 'val:O'


def classify_exc(e):
    if isinstance(e, StopRun):
        return 'hang'
    if isinstance(e, KeyboardInterrupt):
        return 'raise KeyboardInterrupt'
    if isinstance(e, nfc.clf.UnsupportedTargetError):
        return 'raise UnsupportedTargetError'
    if isinstance(e, nfc.clf.CommunicationError):
        return 'raise CommunicationError'
    if isinstance(e, IOError):
        return 'raise IOError'
    return 'raise ' + type(e).__name__


def build_connect_options(w, case):
    """option dictionaries for connect() from the case description"""
    opts = {}

    def cb(block, name):
        def f(arg):
            v, c = w.cbvalue()
            w.ev.append('%s:%s:%s' % (name, block, c))
            if w.live in ('llc', 'dep') and case.get('srv') and block == 'llcp' and name == 'connect':
                # the application offers a connection-mode service (SAP 16, 'urn:nfc:sn:test')
                w.srv = arg.socket(nfc.llcp.DATA_LINK_CONNECTION)
                arg.bind(w.srv, b'urn:nfc:sn:test')
                arg.listen(w.srv, 2)
            if w.live == 'llc' and case.get('busy') and block == 'llcp' and name == 'connect':
                w.llc = arg
                w.sock = arg.socket(nfc.llcp.LOGICAL_DATA_LINK)
                arg.bind(w.sock)
                w.feed()
            return v
        return f

    r = case.get('rdwr')
    if r is not None:
        d = {}
        if r.get('targets') is not None:          # None: option absent, '': empty list
            d['targets'] = [RT_SPEC[c][0] for c in r['targets']]
        st = r.get('startup', '-')
        if st != '-':
            def on_startup(targets, st=st):
                w.ev.append('startup:rdwr')
                if st == '=':
                    return targets
                if st == 'N':
                    return None
                if st == 'E':
                    return []
                if st == 'I':
                    return True          # true value that is not iterable
                return [make_remote(c, i) for i, c in enumerate(st[1:])]   # 'L<specs>'
            d['on-startup'] = on_startup
        for key, name in (('discover', 'on-discover'), ('connect', 'on-connect'), ('release', 'on-release')):
            if r.get(key):
                d[name] = cb('rdwr', key)
        if r.get('iterations') is not None:
            d['iterations'] = r['iterations']
        d['interval'] = 0.01
        if r.get('beep') is not None:
            d['beep-on-connect'] = r['beep']
        opts['rdwr'] = d
    l_ = case.get('llcp')
    if l_ is not None:
        d = {}
        st = l_.get('startup', '-')
        if st != '-':
            def on_startup_llc(llc, st=st):
                w.ev.append('startup:llcp')
                return llc if st == '=' else None if st == 'N' else 'x'
            d['on-startup'] = on_startup_llc
        for key, name in (('connect', 'on-connect'), ('release', 'on-release')):
            if l_.get(key):
                d[name] = cb('llcp', key)
        if l_.get('role') is not None:
            d['role'] = l_['role']
        if w.live in ('llc', 'dep'):
            d['sec'] = False
            d['agf'] = False
        if w.live == 'dep':
            for k in ('acm', 'brs'):
                if l_.get(k) is not None:
                    d[k] = l_[k]
        opts['llcp'] = d
    c_ = case.get('card')
    if c_ is not None:
        d = {}
        st = c_.get('startup', '-')
        if st != '-':
            def on_startup_card(target, st=st):
                w.ev.append('startup:card')
                if st == 'N':
                    return None
                if st == 'x':
                    return 'x'
                return make_local(st)
            d['on-startup'] = on_startup_card
        for key, name in (('discover', 'on-discover'), ('connect', 'on-connect'), ('release', 'on-release')):
            if c_.get(key):
                d[name] = cb('card', key)
        opts['card'] = d
    opts['terminate'] = w.terminate
    return opts


def run_connect(case, chooser=None, limits=None, domains=None, live=False):
    """returns (result string, event list, the case with the streams as they were answered).
    live: the real nfc.tag.activate / Type3Tag presence check instead of the scripted tag"""
    with Session(case, live=live, chooser=chooser, limits=limits, domains=domains) as s:
        w = s.w
        if case.get('nodev'):
            s.clf.device = None
        opts = build_connect_options(w, case)
        if case.get('noterm'):
            del opts['terminate']
        try:
            r = 'ret ' + classify_value(w, s.clf.connect(**opts))
        except BaseException as e:  # noqa
            r = classify_exc(e)
        return r, w.ev, w.export()


def run_history(case):
    """case['ops']: list of ['sense', specs, iterations|None, table] / ['listen', spec, outcome] / ['exchange']
    returns list of per-op results, event list ('|' marks the start of each op)"""
    with Session(case) as s:
        w = s.w
        if case.get('nodev'):
            s.clf.device = None
        out = []
        for op in case['ops']:
            w.ev.append('|')
            try:
                if op[0] == 'sense':
                    ts = [make_remote(c, i) for i, c in enumerate(op[1])]
                    kw = {'interval': 0.01}
                    if op[2] is not None:
                        kw['iterations'] = op[2]
                    w.sense_tables.append([str(x) for x in op[3]])
                    r = s.clf.sense(*ts, **kw)
                    out.append('ret ' + ('None' if r is None else w.nameof(r) or '?'))
                elif op[0] == 'listen':
                    w.listen.items = [op[2]]
                    w.listen.pos = 0
                    r = s.clf.listen(make_local(op[1]), 0.1)
                    out.append('ret ' + ('None' if r is None else w.nameof(r) or '?'))
                else:
                    r = s.clf.exchange(b'\x00', 0.1)
                    out.append('ret ' + ('None' if r is None else 'data'))
            except BaseException as e:  # noqa
                out.append(classify_exc(e))
            stored = s.clf.target
            out[-1] += ' stored=' + ('None' if stored is None else w.nameof(stored) or '?')
        return out, w.ev


# ---------------------------------------------------------------- encoding for extract/bin/c18
def _d(s):
    return s if s else '-'


def encode_connect(case, fuel=60, inner=60):
    def flag(x):
        return '1' if x else '0'
    r, l_, c = case.get('rdwr'), case.get('llcp'), case.get('card')
    rs = '-' if r is None else ':'.join([
        '-' if r.get('targets') is None else (r['targets'] or '.'), r.get('startup', '-'),
        flag(r.get('discover')), flag(r.get('connect')), flag(r.get('release')),
        '-' if r.get('iterations') is None else str(r['iterations']),
        '-' if r.get('beep') is None else flag(r['beep'])])
    ls = '-' if l_ is None else ':'.join([
        {'-': '-', '=': '='}.get(l_.get('startup', '-'), 'o'), flag(l_.get('connect')), flag(l_.get('release')),
        {None: '-', 'target': 't', 'initiator': 'i'}.get(l_.get('role'), 'o')])
    cs = '-' if c is None else ':'.join([
        {'-': '-', 'N': 'o', 'x': 'o'}.get(c.get('startup', '-'), c.get('startup', '-')),
        flag(c.get('discover')), flag(c.get('connect')), flag(c.get('release'))])
    mc = lambda x: ''.join(model_code(c) for c in x)   # noqa
    sense = '/'.join(','.join(mc(it) if it else '-' for it in t) if t else '-' for t in case.get('sense', [])) or '-'
    return ' '.join([
        'connect', 'dev=' + flag(not case.get('nodev')), 'fuel=%d' % fuel, 'inner=%d' % inner,
        'hasterm=' + flag(not case.get('noterm')), 'termd=' + case.get('termd', '1'),
        'term=' + _d(case.get('term', '')), 'cbs=' + _d(case.get('cbs', '')), 'rdwr=' + rs, 'llcp=' + ls, 'card=' + cs,
        'sense=' + sense, 'listen=' + _d(mc(case.get('listen', ''))), 'tagact=' + _d(mc(case.get('tagact', ''))),
        'present=' + _d(mc(case.get('present', ''))), 'llcact=' + _d(mc(case.get('llcact', ''))),
        'llcrun=' + (','.join('%d%s' % (n, model_code(h)) for n, h in case.get('llcrun', [])) or '-'),
        'emulate=' + _d(case.get('emulate', '')), 'cardstep=' + _d(mc(case.get('cardstep', '')))])


def encode_history(case):
    ops = []
    for op in case['ops']:
        if op[0] == 'sense':
            ops.append('s:%s:%s:%s' % (op[1] or '.', '-' if op[2] is None else op[2],
                                       ','.join(''.join(model_code(c) for c in it) if it else '-' for it in op[3]) or '-'))
        elif op[0] == 'listen':
            ops.append('l:%s:%s' % (op[1], model_code(op[2])))
        else:
            ops.append('x')
    return 'history dev=%s ops=%s' % ('0' if case.get('nodev') else '1', ';'.join(ops))


def visible(ev):
    """the events that are compared with the model (environment annotations removed)"""
    return [e for e in ev if not e.startswith('!')]
