"""In-memory half-duplex NFC-DEP air link (environment, not model).

Couples a real ``nfc.dep.Initiator`` and a real ``nfc.dep.Target`` through two fake
``clf`` objects.  The initiator runs in the calling thread, the target in a second
thread; the two rendezvous through queues and strictly alternate (exactly one of the two
threads is runnable at any time), so a run is a deterministic function of its inputs.

Faults: a *script* is a list of pairs ``(fq, fs)``, one pair per round.  A round is one
frame transmitted by the initiator and (if the target transmits an answer) the answer.
``fq`` is the fate of the request frame and ``fs`` the fate of the response frame, each
one of ``'D'`` (deliver), ``'L'`` (lose), ``'C'`` (corrupt).  Rounds beyond the script
are ``('D', 'D')``.

  request  L  -> target hears nothing, initiator gets nfc.clf.TimeoutError
  request  C  -> target's exchange() raises nfc.clf.TransmissionError (the code then keeps
                 listening), initiator gets nfc.clf.TimeoutError unless the target answers
  response L  -> initiator gets nfc.clf.TimeoutError
  response C  -> initiator gets nfc.clf.TransmissionError
  target silent (keeps listening without transmitting, or its application has ended)
              -> initiator gets nfc.clf.TimeoutError

Time is virtual: ``Clock`` is installed as ``nfc.dep.time``; a time-out of the initiator
advances it by exactly the time-out value that was passed to ``exchange``; nothing else
costs time.

``TgtClf.listen`` plays the part of a device driver (modelled after
``nfc.clf.rcs380.Device.listen_dep``): it answers ATR_REQ with the ATR_RES supplied by
``Target.activate``, answers PSL_REQ, switches the bit rate and returns a ``LocalTarget``
holding ``atr_req``, ``psl_req`` and the first DEP_REQ.  Unlike a radio chip it keeps
listening after a lost or corrupted frame.

Entry points: ``conversation`` (C04: activation, then exchanges under a fault script),
``p2p`` (C19: two LogicalLinkControllers activated against each other on an Initiator and a
Target), ``p2p_connect`` (C19: the same through ``ContactlessFrontend.connect(llcp=...)`` on
``SimFrontend`` objects).  ``FakeOs`` replaces ``os.urandom`` inside ``nfc.dep`` so that the
NFCID3 values, and with them all frames, are reproducible.
"""
import queue
import threading

import nfc.clf
import nfc.dep
import nfc.llcp.pdu
import nfc.llcp.llc

SENSF_RES = bytes.fromhex('0101fe6162636465660000000000000000ffff')


class FakeOs(object):
    """deterministic replacement of os.urandom inside nfc.dep (NFCID3 values)"""

    @staticmethod
    def urandom(n):
        return bytes((0xA0 + 7 * i + n) & 0xFF for i in range(n))


# further receiver-side fates (beyond D / L / C): the frontend call raises an instance of the class of the tree under test
FAULT_CLASS = {'B': nfc.clf.BrokenLinkError, 'P': nfc.clf.ProtocolError, 'E': nfc.clf.CommunicationError}
CALL_BOUND = 500


class Blocks(BaseException):
    """a protocol object went on calling the frontend beyond CALL_BOUND"""


GUARD = 20.0            # real seconds before a blocked rendezvous is declared a simulator deadlock


class SimDeadlock(Exception):
    pass


class Clock(object):
    def __init__(self):
        self.now = 0.0

    def time(self):
        return self.now

    def sleep(self, s):
        self.now += s


class Air(object):
    def __init__(self, brty='106A'):
        self.clock = Clock()
        self.script = []
        self.base = None        # index in self.log of the first round governed by the script
        self.round = -1         # number of the current round (initiator transmissions), from 0
        self.log = []           # dict(dir, data, fate, brty_tx, brty_rx, round)
        self.q_t = queue.Queue()
        self.q_i = queue.Queue()
        self.t_gone = False
        self.brty_i = lambda: brty     # current bit rate of either side (set by the clf objects)
        self.brty_i_recv = lambda: brty
        self.brty_t = lambda: brty
        self.brty0 = brty

    def arm(self, script):
        """the fault script applies from the next initiator transmission on"""
        self.script = list(script)
        self.base = self.round + 1

    def fates(self):
        if self.base is None:
            return ('D', 'D')
        k = self.round - self.base
        return tuple(self.script[k]) if 0 <= k < len(self.script) else ('D', 'D')

    def close(self):
        self.q_t.put(('closed',))


class IniClf(object):
    """what nfc.dep.Initiator needs from a ContactlessFrontend"""

    def __init__(self, air):
        self.air = air

    def sense(self, *targets, **options):
        """discovery as Initiator.activate(target=None) uses it: the peer is found in passive mode at the
        technology the air was created with (106A or 212F); active communication mode is not offered"""
        for t in targets:
            if getattr(t, 'atr_req', None) is not None:
                raise nfc.clf.UnsupportedTargetError("sim: no active communication mode")
            if t.brty == self.air.brty0 == '106A':
                return nfc.clf.RemoteTarget('106A', sens_res=bytearray(b'\x01\x01'),
                                            sdd_res=bytearray(b'\x08\x01\x02\x03'), sel_res=bytearray(b'\x40'))
            if t.brty == self.air.brty0 == '212F':
                return nfc.clf.RemoteTarget('212F', sensf_res=bytearray(SENSF_RES))
        return None

    def exchange(self, data, timeout):
        air = self.air
        air.round += 1
        fq, fs = air.fates()
        air.log.append({'dir': 'I', 'data': bytes(data), 'fate': fq, 'round': air.round,
                        'brty_tx': air.brty_i(), 'brty_rx': air.brty_t()})
        if fq == 'L':
            air.clock.now += timeout
            raise nfc.clf.TimeoutError("sim: request lost")
        air.q_t.put(('frame', bytes(data)) if fq == 'D' else ('corrupt', fq))
        try:
            item = air.q_i.get(timeout=GUARD)
        except queue.Empty:
            raise SimDeadlock("initiator waited for the target thread")
        if item[0] == 'silent':
            air.clock.now += timeout
            raise nfc.clf.TimeoutError("sim: no response")
        rsp = item[1]
        air.log.append({'dir': 'T', 'data': bytes(rsp), 'fate': fs, 'round': air.round,
                        'brty_tx': item[2], 'brty_rx': air.brty_i_recv()})
        if fs == 'L':
            air.clock.now += timeout
            raise nfc.clf.TimeoutError("sim: response lost")
        if fs == 'C':
            raise nfc.clf.TransmissionError("sim: response corrupted")
        if fs in FAULT_CLASS:
            raise FAULT_CLASS[fs]("sim: frontend raises %s" % FAULT_CLASS[fs].__name__)
        return bytearray(rsp)


class TgtClf(object):
    """what nfc.dep.Target needs from a ContactlessFrontend (listen + exchange)"""

    def __init__(self, air):
        self.air = air
        self.owes = False       # a request was taken from the air and not yet answered / declined
        self.dead = False
        self.calls_after_broken_link = None     # frontend calls made after the frontend raised BrokenLinkError
        self.brty = air.brty0
        air.brty_t = lambda: self.brty

    # -- raw half-duplex primitive ------------------------------------------------------
    def _xfer(self, data, wait, brty=None):
        air = self.air
        if self.owes:
            air.q_i.put(('frame', bytes(data), brty or self.brty) if data else ('silent',))
            self.owes = False
        elif data:
            raise SimDeadlock("target transmits without a pending request")
        if not wait:
            return None
        try:
            item = air.q_t.get(timeout=GUARD)
        except queue.Empty:
            raise SimDeadlock("target waited for the initiator thread")
        if item[0] == 'closed':
            air.q_t.put(item)
            raise nfc.clf.TimeoutError("sim: link closed")
        self.owes = True
        if item[0] == 'corrupt':
            cls = FAULT_CLASS.get(item[1], nfc.clf.TransmissionError)
            if item[1] == 'B':
                self.dead = True         # the RF field is gone and stays gone
            if cls is nfc.clf.BrokenLinkError:
                self.calls_after_broken_link = 0
            raise cls("sim: frontend raises %s" % cls.__name__)
        if self.dead:
            raise nfc.clf.BrokenLinkError("sim: RF field is off")
        return bytearray(item[1])

    def gone(self):
        """the target application has ended: decline the pending request and every later one
        (served from the target thread until the link is closed, so that the rendezvous stays strict)"""
        self.air.t_gone = True
        while True:
            if self.owes:
                self.air.q_i.put(('silent',))
                self.owes = False
            try:
                item = self.air.q_t.get(timeout=GUARD)
            except queue.Empty:
                return
            if item[0] == 'closed':
                self.air.q_t.put(item)
                return
            self.owes = True

    def exchange(self, data, timeout):
        if self.calls_after_broken_link is not None:
            self.calls_after_broken_link += 1
            if self.calls_after_broken_link > CALL_BOUND:
                raise Blocks("target keeps polling a frontend that reported BrokenLinkError")
        # timeout == 0: transmit only (as nfc.clf.rcs380 does for recv_timeout 0)
        return self._xfer(data, wait=not (timeout is not None and timeout <= 0 and data))

    # -- driver part: activation as an NFC-DEP target ------------------------------------
    def listen(self, target, timeout):
        if target.atr_res is None:
            raise nfc.clf.UnsupportedTargetError("sim: DEP only")
        atr_res = bytes(target.atr_res)
        brty = self.brty

        def recv(rsp):
            """send rsp (PDU without length byte) if any, wait for the next intact frame body"""
            frame = None
            if rsp:
                frame = (b"\xF0" if brty == "106A" else b"") + bytes([len(rsp) + 1]) + rsp
            while True:
                try:
                    data = self._xfer(frame, True)
                except (nfc.clf.TimeoutError, nfc.clf.BrokenLinkError):
                    raise
                except nfc.clf.CommunicationError:       # unreadable frame: keep listening
                    frame = None
                    continue
                frame = None
                off = 1 if brty == "106A" else 0
                if brty == "106A" and (len(data) < 1 or data[0] != 0xF0):
                    continue
                if len(data) < off + 3 or data[off] != len(data) - off or data[off + 1] != 0xD4:
                    continue
                if data[off + 2] not in (0, 4, 6, 8, 10):
                    continue
                return bytearray(data[off + 1:])

        try:
            data = recv(None)
            while data[1] != 0 or not 16 <= len(data) <= 64:
                data = recv(None)
            atr_req = None
            while data[1] == 0:
                if 16 <= len(data) <= 64:
                    atr_req = data[:]
                    data = recv(atr_res)
                else:
                    data = recv(None)
            psl_req = None
            while True:
                did = atr_req[12] if atr_req[12] > 0 else None
                code = data[1]
                if code == 6:
                    if len(data) > 2 and did == ((data[3] if len(data) > 3 else -1) if data[2] >> 2 & 1 else None):
                        t = nfc.clf.LocalTarget(brty, dep_req=data)
                        t.atr_req = atr_req
                        t.atr_res = bytearray(atr_res)
                        if psl_req:
                            t.psl_req = psl_req
                        if self.air.brty0 == '106A':
                            t.sens_res, t.sdd_res, t.sel_res = target.sens_res, target.sdd_res, target.sel_res
                        else:
                            t.sensf_res = target.sensf_res
                        return t
                    data = recv(None)
                elif code in (8, 10):
                    if did == (data[2] if len(data) > 2 else None):
                        self._xfer((b"\xF0" if brty == "106A" else b"") + bytes([len(data[2:3]) + 3]) +
                                   bytes([0xD5, code + 1]) + bytes(data[2:3]), False)
                        return None
                    data = recv(None)
                elif code == 4:
                    if len(data) >= 5 and did == (data[2] if data[2] > 0 else None) and \
                            (data[3] >> 3 & 7) == (data[3] & 7) and (data[3] & 7) < 3:
                        psl_req = data[:]
                        psl_res = b"\xD5\x05" + bytes(data[2:3])
                        frame = (b"\xF0" if brty == "106A" else b"") + bytes([len(psl_res) + 1]) + psl_res
                        old, brty = brty, ('106A', '212F', '424F')[data[3] & 7]
                        self.brty = brty        # (set before the rendezvous so that the log is race free)
                        self._xfer(frame, False, brty=old)
                    data = recv(None)
                else:
                    data = recv(None)
        except (nfc.clf.TimeoutError, nfc.clf.BrokenLinkError):
            return None


class Link(object):
    """an Initiator and a Target joined by an Air; helper to run both applications"""

    def __init__(self, brty='106A', ini=None, tgt=None):
        """ini / tgt: protocol objects of an earlier link to be activated again on this (fresh) air"""
        self.air = Air(brty)
        self.iclf = IniClf(self.air)
        self.tclf = TgtClf(self.air)
        self.ini = nfc.dep.Initiator(self.iclf) if ini is None else ini
        self.tgt = nfc.dep.Target(self.tclf) if tgt is None else tgt
        self.ini.clf, self.tgt.clf = self.iclf, self.tclf
        # a driver tunes its transmitter from target.brty_send and its receiver from target.brty_recv (rcs380 in_set_rf)
        self.air.brty_i = lambda: (self.ini.target.brty_send if self.ini.target is not None else brty)
        self.air.brty_i_recv = lambda: (self.ini.target.brty_recv if self.ini.target is not None else brty)
        self.thread = None
        self.t_error = None

    def run(self, ini_app, tgt_app):
        """ini_app(link) runs here, tgt_app(link) in the second thread; returns (ini result, tgt result)"""
        saved, saved_os = nfc.dep.time, nfc.dep.os
        nfc.dep.time = self.air.clock
        nfc.dep.os = FakeOs
        box = {}

        def tmain():
            try:
                box['t'] = tgt_app(self)
            except BaseException as e:  # noqa: report, never leave the initiator blocked
                box['t_exc'] = e
            finally:
                self.tclf.gone()

        th = threading.Thread(target=tmain, daemon=True)
        th.start()
        try:
            r = ini_app(self)
        finally:
            self.air.close()
            th.join(GUARD)
            nfc.dep.time = saved
            nfc.dep.os = saved_os
        if th.is_alive():
            raise SimDeadlock("target thread did not end")
        if 't_exc' in box:
            raise box['t_exc']
        return r, box.get('t')


def classify(e):
    """exception -> observation string"""
    if isinstance(e, Blocks):
        return 'blocks'
    if isinstance(e, nfc.clf.TimeoutError):
        return 'err TimeoutError'
    if type(e) is nfc.clf.BrokenLinkError:
        return 'err BrokenLinkError'
    if isinstance(e, nfc.clf.TransmissionError):
        return 'err TransmissionError'
    if isinstance(e, nfc.clf.ProtocolError):
        return 'err ProtocolError'
    if isinstance(e, nfc.clf.CommunicationError):
        return 'err CommunicationError'
    if isinstance(e, AssertionError):
        return 'crash AssertionError'
    return 'crash ' + type(e).__name__


TICK = 2.0 ** -10       # the initiator's RWT during conversations: dyadic, so virtual time stays exact; small enough that
                        # the fixed 1 s deadline inside Target.send_timeout_extension (1024 ticks) is never reached


def rtox_values(rtox, k):
    """the RTOX values the target application requests before its k-th answer: rtox[k] is an int (0 = none) or a list"""
    if not rtox or k >= len(rtox):
        return []
    v = rtox[k]
    return [x for x in (v if isinstance(v, (list, tuple)) else [v]) if x > 0]


def conversation(cfg, payloads, responses, script, rtox=None, release=True, ini_timeout=8, early=None, ini=None, tgt=None):
    """Activate both sides (fault free), then run a conversation under the fault script.

    cfg: dict(brty, did, nad, lri, lrt, brs)    payloads: what the initiator application passes
    to exchange(); responses: what the target application answers to the k-th payload it
    receives; rtox[k]: the time-out extension(s) the target application requests before it answers the k-th
    payload (an int, 0 = none, or a list of values requested one after the other).  ini_timeout is the exchange() time-out in units of RWT.
    ini / tgt: Initiator / Target objects of an earlier conversation (obs['objs']) that are activated again.
    Returns the observation dict.
    """
    link = Link(cfg.get('brty', '106A'), ini=ini, tgt=tgt)
    obs = {'ini': [], 'tgt': [], 'tgt_rtox': [], 'objs': (link.ini, link.tgt)}
    rtox = rtox or []

    def ini_app(link):
        opts = {k: cfg[k] for k in ('did', 'nad', 'lri', 'brs') if cfg.get(k) is not None}
        gb = link.ini.activate(target=nfc.clf.RemoteTarget(cfg.get('brty', '106A')), gbi=b'', acm=False, **opts)
        obs['ini_activated'] = gb is not None
        if gb is None:
            return
        link.ini.rwt = TICK
        link.air.arm(script)
        for p in payloads:
            try:
                r = link.ini.exchange(bytearray(p), ini_timeout * TICK)
                obs['ini'].append('ok ' + (bytes(r).hex() or '-'))
            except Exception as e:  # noqa
                obs['ini'].append(classify(e))
                break
        if release is not None:
            try:
                link.ini.deactivate(release=release)
            except Exception as e:  # noqa
                obs['ini_deactivate'] = classify(e)

    def tgt_app(link):
        opts = {k: cfg[k] for k in ('lrt', 'rwt') if cfg.get(k) is not None}
        gb = link.tgt.activate(timeout=1.0, gbt=b'', **opts)
        obs['tgt_activated'] = gb is not None
        if gb is None:
            return
        send = None
        k = 0
        while True:
            try:
                r = link.tgt.exchange(send, 1000.0)
            except (Exception, Blocks) as e:  # noqa
                obs['tgt'].append(classify(e))
                return
            if r is None:
                obs['tgt'].append('none')
                return
            obs['tgt'].append('ok ' + (bytes(r).hex() or '-'))
            if k >= len(responses):
                return
            for x_req in rtox_values(rtox, k):
                try:
                    x = link.tgt.send_timeout_extension(x_req)
                    obs['tgt_rtox'].append('none' if x is None else 'ok %02x' % x)
                except Exception as e:  # noqa
                    obs['tgt_rtox'].append(classify(e))
                    return
                if x is None:
                    return
            send = bytearray(responses[k])
            k += 1

    link.run(ini_app, tgt_app)
    obs['frames'] = [(e['dir'], e['data'].hex(), e['fate'], e['brty_tx'], e['brty_rx'], e['round'])
                     for e in link.air.log]
    obs['base'] = link.air.base
    obs['ini_miu'] = link.ini.miu
    obs['tgt_miu'] = link.tgt.miu
    obs['ini_pni'] = link.ini.pni
    obs['tgt_calls_after_broken_link'] = link.tclf.calls_after_broken_link
    obs['tgt_pni'] = link.tgt.pni
    return obs


def p2p(brty0, dep_i, dep_t, llc_a, llc_b, payload_sizes=(), ini=None, tgt=None):
    """Two real stacks activated against each other: llc_a.activate(mac=Initiator, **dep_i) in this thread,
    llc_b.activate(mac=Target, **dep_t) in the second one, then one NFC-DEP exchange per entry of
    payload_sizes (initiator payload size, target payload size).  ini / tgt: nfc.dep objects of an earlier link to be
    activated again.  Returns the observation dict."""
    link = Link(brty0, ini=ini, tgt=tgt)
    obs = {'ini': [], 'tgt': []}

    def ini_app(link):
        try:
            obs['a_ok'] = 'ok %d' % bool(llc_a.activate(mac=link.ini, **dep_i))
        except Exception as e:  # noqa
            obs['a_ok'] = ('err ' if isinstance(e, (nfc.clf.Error, nfc.llcp.pdu.Error)) else 'crash ') + type(e).__name__
            return
        if obs['a_ok'] != 'ok 1':
            return
        obs['n_act'] = len(link.air.log)
        link.ini.rwt_real = link.ini.rwt
        for (n, _m) in payload_sizes:
            try:
                r = link.ini.exchange(bytearray(n * b'\x5a'), 1.0)
                obs['ini'].append('ok %d' % len(r))
            except Exception as e:  # noqa
                obs['ini'].append(classify(e))
                break
        try:
            link.ini.deactivate(release=True)
        except Exception as e:  # noqa
            obs['ini_deactivate'] = classify(e)

    def tgt_app(link):
        try:
            obs['b_ok'] = 'ok %d' % bool(llc_b.activate(mac=link.tgt, **dep_t))
        except Exception as e:  # noqa
            obs['b_ok'] = ('err ' if isinstance(e, (nfc.clf.Error, nfc.llcp.pdu.Error)) else 'crash ') + type(e).__name__
            return
        if obs['b_ok'] != 'ok 1':
            return
        send = None
        for (_n, m) in list(payload_sizes) + [(0, 0)]:
            try:
                r = link.tgt.exchange(send, 1000.0)
            except Exception as e:  # noqa
                obs['tgt'].append(classify(e))
                return
            if r is None:
                obs['tgt'].append('none')
                return
            obs['tgt'].append('ok %d' % len(r))
            send = bytearray(m * b'\xa5')

    link.run(ini_app, tgt_app)
    obs['frames'] = [(e['dir'], e['data'].hex(), e['fate'], e['brty_tx'], e['brty_rx'], e['round']) for e in link.air.log]
    obs['link'] = link
    return obs


class SimFrontend(nfc.clf.ContactlessFrontend):
    """a real ContactlessFrontend whose radio operations are the simulated ones (no device driver):
    used to drive connect(llcp=...) / _llcp_connect end to end"""

    def __init__(self, simclf):
        nfc.clf.ContactlessFrontend.__init__(self)
        self.device = simclf            # connect() only tests it for None
        self.sim = simclf

    def sense(self, *targets, **options):
        return self.sim.sense(*targets, **options)

    def listen(self, target, timeout):
        return self.sim.listen(target, timeout)

    def exchange(self, send_data, timeout):
        return self.sim.exchange(send_data, timeout)


def p2p_connect(brty0, opts_a, opts_b, setup_a=None, setup_b=None, payload_sizes=()):
    """As p2p(), but through ContactlessFrontend.connect(llcp=opts): opts_a must contain role='initiator',
    opts_b role='target'.  setup_x(llc) is called from 'on-startup'.  Returns the observation dict with the two
    LogicalLinkController objects."""
    link = Link(brty0)
    fa, fb = SimFrontend(link.iclf), SimFrontend(link.tclf)
    obs = {'ini': [], 'tgt': []}
    link.air.brty_i = lambda: (obs['llc_a'].mac.target.brty if obs.get('llc_a') is not None and obs['llc_a'].mac is not None else '?')

    def startup(setup):
        def f(llc):
            if setup:
                setup(llc)
            return llc
        return f

    def ini_app(link):
        o = dict(opts_a)
        o['on-startup'] = startup(setup_a)
        o['on-connect'] = lambda llc: False
        try:
            r = fa.connect(llcp=o)
        except Exception as e:  # noqa
            obs['a_ok'] = ('err ' if isinstance(e, (nfc.clf.Error, nfc.llcp.pdu.Error)) else 'crash ') + type(e).__name__
            return
        obs['a_ok'] = 'ok %d' % isinstance(r, nfc.llcp.llc.LogicalLinkController)
        if obs['a_ok'] != 'ok 1':
            return
        obs['llc_a'] = r
        obs['n_act'] = len(link.air.log)
        for (n, _m) in payload_sizes:
            try:
                x = r.mac.exchange(bytearray(n * b'\x5a'), 1.0)
                obs['ini'].append('ok %d' % len(x))
            except Exception as e:  # noqa
                obs['ini'].append(classify(e))
                break
        try:
            r.mac.deactivate(release=True)
        except Exception as e:  # noqa
            obs['ini_deactivate'] = classify(e)

    def tgt_app(link):
        o = dict(opts_b)
        o['on-startup'] = startup(setup_b)
        o['on-connect'] = lambda llc: False
        o['terminate'] = lambda: link.air.t_gone or getattr(link.air, 'stop', False)
        try:
            r = fb.connect(llcp=o, terminate=lambda: getattr(link.air, 'stop', False))
        except Exception as e:  # noqa
            obs['b_ok'] = ('err ' if isinstance(e, (nfc.clf.Error, nfc.llcp.pdu.Error)) else 'crash ') + type(e).__name__
            return
        obs['b_ok'] = 'ok %d' % isinstance(r, nfc.llcp.llc.LogicalLinkController)
        if obs['b_ok'] != 'ok 1':
            return
        obs['llc_b'] = r
        send = None
        for (_n, m) in list(payload_sizes) + [(0, 0)]:
            try:
                x = r.mac.exchange(send, 1000.0)
            except Exception as e:  # noqa
                obs['tgt'].append(classify(e))
                return
            if x is None:
                obs['tgt'].append('none')
                return
            obs['tgt'].append('ok %d' % len(x))
            send = bytearray(m * b'\xa5')

    # connect() loops until terminate(): after the link is closed the target side's listen returns None at once
    orig_close = link.air.close

    def close():
        link.air.stop = True
        orig_close()
    link.air.close = close
    link.run(ini_app, tgt_app)
    obs['frames'] = [(e['dir'], e['data'].hex(), e['fate'], e['brty_tx'], e['brty_rx'], e['round']) for e in link.air.log]
    return obs
