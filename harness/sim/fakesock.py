"""Fake LLCP data-link-connection sockets for driving nfc.snep / nfc.handover code without a
link (C06).  Environment, not model.

ScriptSocket  - replays a script of arrivals to ONE side (client function or server loop) and
                records everything that side sends, in order.  Single-threaded.
PairLink      - an ideal reliable ordered channel between a real client and a real server:
                two endpoint sockets, two worker threads that run strictly one at a time (a
                token is handed over only when the running side has to wait for a message),
                exact deadlock detection, virtual poll timeouts (a poll with a timeout gives
                up only when no side can make progress otherwise).  Deterministic.

The semantics follow nfc.llcp.tco.DataLinkConnection: send() raises Error(EMSGSIZE) for a
message above the send MIU and Error(ENOTCONN) after shutdown, recv() returns None when the
peer disconnected (and shuts the socket down), poll("recv") is True for pending data, False
for a pending disconnect or an expired timeout, raises Error(ESHUTDOWN) after shutdown.
"""
import collections
import errno
import threading

import nfc.llcp

SO_SNDMIU = nfc.llcp.SO_SNDMIU
SO_RCVMIU = nfc.llcp.SO_RCVMIU
SO_SNDBUF = nfc.llcp.SO_SNDBUF
SO_RCVBUF = nfc.llcp.SO_RCVBUF


class WouldBlockForever(BaseException):
    """the code under test waits for a message that will never come"""


class _Base(object):
    def __init__(self, send_miu, recv_miu):
        self.send_miu = send_miu
        self.recv_miu = recv_miu
        self.events = []          # ('send', bytes) | ('recv', bytes | 'T' | 'X')
        self.shutdown = False
        self.closed_by_us = False
        self.x_seen = False
        self.oversize = []

    def getsockopt(self, option):
        return {SO_SNDMIU: self.send_miu, SO_RCVMIU: self.recv_miu, SO_SNDBUF: 1, SO_RCVBUF: 1}.get(option)

    def setsockopt(self, option, value):
        return value

    def getpeername(self):
        return 32

    def getsockname(self):
        return 33

    def _check_send(self, data):
        if self.shutdown:
            raise nfc.llcp.Error(errno.ENOTCONN)
        data = bytes(data)
        if len(data) > self.send_miu:
            self.oversize.append(len(data))
            raise nfc.llcp.Error(errno.EMSGSIZE)
        return data

    def _log_x(self):
        if not self.x_seen:
            self.x_seen = True
            self.events.append(('recv', 'X'))

    # the local view: [sends before the first arrival, (arrival, sends until the next arrival), ...]
    def transcript(self):
        first, steps = [], []
        for kind, val in self.events:
            if kind == 'send':
                (steps[-1][1] if steps else first).append(val)
            else:
                steps.append((val, []))
        return first, steps


class ScriptSocket(_Base):
    def __init__(self, script, send_miu, recv_miu=128):
        """script: list of bytes | 'T' | 'X'"""
        _Base.__init__(self, send_miu, recv_miu)
        self.script = collections.deque(script)

    def send(self, data, flags=0):
        data = self._check_send(data)
        self.events.append(('send', data))
        return True

    def poll(self, event, timeout=None):
        if self.shutdown:
            raise nfc.llcp.Error(errno.ESHUTDOWN)
        if event != 'recv':
            return True
        while True:
            if not self.script:
                raise WouldBlockForever()
            head = self.script[0]
            if head == 'T':
                self.script.popleft()
                self.events.append(('recv', 'T'))
                if timeout is None:
                    continue      # a poll without timeout cannot time out
                return False
            if head == 'X':
                self._log_x()
                return False
            return True

    def recv(self):
        if self.shutdown:
            raise nfc.llcp.Error(errno.ENOTCONN)
        while True:
            if not self.script:
                raise WouldBlockForever()
            head = self.script.popleft()
            if head == 'T':
                self.events.append(('recv', 'T'))
                continue          # recv() has no timeout
            if head == 'X':
                self._log_x()
                self.shutdown = True
                return None
            self.events.append(('recv', bytes(head)))
            return bytes(head)

    def close(self):
        self.closed_by_us = True
        self.shutdown = True


class PairLink(object):
    """two endpoints 'c' and 's'; run(client_fn, server_fn) executes both to completion"""

    def __init__(self, miu_cs, miu_sc):
        self.cond = threading.Condition()
        self.queue = {'c': collections.deque(), 's': collections.deque()}   # inbound per side
        self.state = {'c': 'new', 's': 'new'}     # new | run | wait | wait_t | done
        self.turn = None
        self.deadlock = {'c': False, 's': False}
        self.sock = {'c': PairSocket(self, 'c', miu_cs, miu_sc), 's': PairSocket(self, 's', miu_sc, miu_cs)}
        self.result = {}
        self.error = {}

    @staticmethod
    def other(me):
        return 's' if me == 'c' else 'c'

    # --- token passing (all called with self.cond held) ---------------------------------
    def _runnable(self, side):
        st = self.state[side]
        return st == 'new' or (st in ('wait', 'wait_t') and len(self.queue[side]) > 0)

    def _hand_over(self, me):
        """me cannot continue (waits or is done): choose who runs next"""
        o = self.other(me)
        if self._runnable(o):
            self.turn = o
        elif self._runnable(me):
            self.turn = me
        elif self.state[o] == 'wait_t':
            self.turn = o             # its poll times out (virtual time passes only now)
        elif self.state[me] == 'wait_t':
            self.turn = me
        elif self.state[o] == 'wait':
            self.deadlock[o] = True
            self.turn = o
        elif self.state[me] == 'wait':
            self.deadlock[me] = True
            self.turn = me
        else:
            self.turn = None          # both done
        self.cond.notify_all()

    def wait_for_message(self, me, with_timeout):
        """returns 'data' when the inbound queue is non-empty, 'timeout', or raises"""
        with self.cond:
            if self.queue[me]:
                return 'data'
            self.state[me] = 'wait_t' if with_timeout else 'wait'
            self._hand_over(me)
            while self.turn != me:
                self.cond.wait()
            self.state[me] = 'run'
            if self.queue[me]:
                return 'data'
            if self.deadlock[me]:
                self.deadlock[me] = False
                raise WouldBlockForever()
            return 'timeout'

    def _worker(self, me, fn):
        with self.cond:
            while self.turn != me:
                self.cond.wait()
            self.state[me] = 'run'
        try:
            self.result[me] = fn(self.sock[me])
        except WouldBlockForever:
            self.error[me] = 'blocked'
        except BaseException as e:  # noqa - reported by the caller
            self.error[me] = e
        with self.cond:
            self.state[me] = 'done'
            self._hand_over(me)

    def run(self, client_fn, server_fn):
        tc = threading.Thread(target=self._worker, args=('c', client_fn))
        ts = threading.Thread(target=self._worker, args=('s', server_fn))
        tc.daemon = ts.daemon = True
        tc.start()
        ts.start()
        with self.cond:
            self.turn = 'c'
            self.cond.notify_all()
        tc.join()
        ts.join()
        return self.result, self.error


class PairSocket(_Base):
    def __init__(self, link, side, send_miu, recv_miu):
        _Base.__init__(self, send_miu, recv_miu)
        self.link = link
        self.side = side

    def send(self, data, flags=0):
        data = self._check_send(data)
        self.events.append(('send', data))
        with self.link.cond:
            self.link.queue[PairLink.other(self.side)].append(data)
        return True

    def poll(self, event, timeout=None):
        if self.shutdown:
            raise nfc.llcp.Error(errno.ESHUTDOWN)
        if event != 'recv':
            return True
        r = self.link.wait_for_message(self.side, timeout is not None)
        if r == 'timeout':
            self.events.append(('recv', 'T'))
            return False
        if self.link.queue[self.side][0] == 'X':
            self._log_x()
            return False
        return True

    def recv(self):
        if self.shutdown:
            raise nfc.llcp.Error(errno.ENOTCONN)
        self.link.wait_for_message(self.side, False)
        with self.link.cond:
            head = self.link.queue[self.side].popleft()
        if head == 'X':
            self._log_x()
            self.shutdown = True
            return None
        self.events.append(('recv', head))
        return head

    def close(self):
        if not self.closed_by_us and not self.shutdown:
            with self.link.cond:
                self.link.queue[PairLink.other(self.side)].append('X')
        self.closed_by_us = True
        self.shutdown = True
