"""Fake LLCP data-link-connection sockets for driving nfc.snep / nfc.handover code without a
link (C06).  Environment, not model.

ScriptSocket  - replays a script of arrivals to ONE side (client function or server loop) and
                records everything that side sends, in order.  Single-threaded.
PairLink      - an ideal reliable ordered channel between a real client and a real server:
                two endpoint sockets, two worker threads that run strictly one at a time (a
                token is handed over only when the running side has to wait for a message),
                exact deadlock detection, virtual poll timeouts (a poll with a timeout gives
                up only when no side can make progress otherwise).  Deterministic.

The semantics follow nfc.llcp.tco.DataLinkConnection: send() raises Error(EMSGSIZE) for a
message above the send MIU and Error(ENOTCONN) after shutdown, recv() returns None when the
peer disconnected (and shuts the socket down), poll("recv") is True for pending data, False
for a pending disconnect or an expired timeout, raises Error(ESHUTDOWN) after shutdown.
"""
import collections
import errno
import threading

import nfc.llcp

SO_SNDMIU = nfc.llcp.SO_SNDMIU
SO_RCVMIU = nfc.llcp.SO_RCVMIU
SO_SNDBUF = nfc.llcp.SO_SNDBUF
SO_RCVBUF = nfc.llcp.SO_RCVBUF


class WouldBlockForever(BaseException):
    """the code under test waits for a message that will never come"""


class _Base(object):
    def __init__(self, send_miu, recv_miu):
        self.send_miu = send_miu
        self.recv_miu = recv_miu
        self.events = []          # ('send', bytes) | ('recv', bytes | 'T' | 'X')
        self.shutdown = False
        self.closed_by_us = False
        self.x_seen = False
        self.oversize = []

    def getsockopt(self, option):
        return {SO_SNDMIU: self.send_miu, SO_RCVMIU: self.recv_miu, SO_SNDBUF: 1, SO_RCVBUF: 1}.get(option)

    def setsockopt(self, option, value):
        return value

    def getpeername(self):
        return 32

    def getsockname(self):
        return 33

    def _check_send(self, data):
        if self.shutdown:
            raise nfc.llcp.Error(errno.ENOTCONN)
        data = bytes(data)
        if len(data) > self.send_miu:
            self.oversize.append(len(data))
            raise nfc.llcp.Error(errno.EMSGSIZE)
        return data

    def _log_x(self):
        if not self.x_seen:
            self.x_seen = True
            self.events.append(('recv', 'X'))

    # the local view: [sends before the first arrival, (arrival, sends until the next arrival), ...]
    def transcript(self):
        first, steps = [], []
        for kind, val in self.events:
            if kind == 'send':
                (steps[-1][1] if steps else first).append(val)
            else:
                steps.append((val, []))
        return first, steps


class ScriptSocket(_Base):
    def __init__(self, script, send_miu, recv_miu=128):
        """script: list of bytes | 'T' | 'X'"""
        _Base.__init__(self, send_miu, recv_miu)
        self.script = collections.deque(script)

    def send(self, data, flags=0):
        data = self._check_send(data)
        self.events.append(('send', data))
        return True

    def poll(self, event, timeout=None):
        if self.shutdown:
            raise nfc.llcp.Error(errno.ESHUTDOWN)
        if event != 'recv':
            return True
        while True:
            if not self.script:
                raise WouldBlockForever()
            head = self.script[0]
            if head == 'T':
                self.script.popleft()
                self.events.append(('recv', 'T'))
                if timeout is None:
                    continue      # a poll without timeout cannot time out
                return False
            if head == 'X':
                self._log_x()
                return False
            return True

    def recv(self):
        if self.shutdown:
            raise nfc.llcp.Error(errno.ENOTCONN)
        while True:
            if not self.script:
                raise WouldBlockForever()
            head = self.script.popleft()
            if head == 'T':
                self.events.append(('recv', 'T'))
                continue          # recv() has no timeout
            if head == 'X':
                self._log_x()
                self.shutdown = True
                return None
            self.events.append(('recv', bytes(head)))
            return bytes(head)

    def close(self):
        self.closed_by_us = True
        self.shutdown = True


class PairLink(object):
    """two endpoints 'c' and 's'; run(client_fn, server_fn) executes both to completion"""

    def __init__(self, miu_cs, miu_sc):
        self.cond = threading.Condition()
        self.queue = {'c': collections.deque(), 's': collections.deque()}   # inbound per side
        self.state = {'c': 'new', 's': 'new'}     # new | run | wait | wait_t | done
        self.turn = None
        self.deadlock = {'c': False, 's': False}
        self.sock = {'c': PairSocket(self, 'c', miu_cs, miu_sc), 's': PairSocket(self, 's', miu_sc, miu_cs)}
        self.result = {}
        self.error = {}

    @staticmethod
    def other(me):
        return 's' if me == 'c' else 'c'

    # --- token passing (all called with self.cond held) ---------------------------------
    def _runnable(self, side):
        st = self.state[side]
        return st == 'new' or (st in ('wait', 'wait_t') and len(self.queue[side]) > 0)

    def _hand_over(self, me):
        """me cannot continue (waits or is done): choose who runs next"""
        o = self.other(me)
        if self._runnable(o):
            self.turn = o
        elif self._runnable(me):
            self.turn = me
        elif self.state[o] == 'wait_t':
            self.turn = o             # its poll times out (virtual time passes only now)
        elif self.state[me] == 'wait_t':
            self.turn = me
        elif self.state[o] == 'wait':
            self.deadlock[o] = True
            self.turn = o
        elif self.state[me] == 'wait':
            self.deadlock[me] = True
            self.turn = me
        else:
            self.turn = None          # both done
        self.cond.notify_all()

    def wait_for_message(self, me, with_timeout):
        """returns 'data' when the inbound queue is non-empty, 'timeout', or raises"""
        with self.cond:
            if self.queue[me]:
                return 'data'
            self.state[me] = 'wait_t' if with_timeout else 'wait'
            self._hand_over(me)
            while self.turn != me:
                self.cond.wait()
            self.state[me] = 'run'
            if self.queue[me]:
                return 'data'
            if self.deadlock[me]:
                self.deadlock[me] = False
                raise WouldBlockForever()
            return 'timeout'

    def _worker(self, me, fn):
        with self.cond:
            while self.turn != me:
                self.cond.wait()
            self.state[me] = 'run'
        try:
            self.result[me] = fn(self.sock[me])
        except WouldBlockForever:
            self.error[me] = 'blocked'
        except BaseException as e:  # noqa - reported by the caller
            self.error[me] = e
        with self.cond:
            self.state[me] = 'done'
            self._hand_over(me)

    def run(self, client_fn, server_fn):
        tc = threading.Thread(target=self._worker, args=('c', client_fn))
        ts = threading.Thread(target=self._worker, args=('s', server_fn))
        tc.daemon = ts.daemon = True
        tc.start()
        ts.start()
        with self.cond:
            self.turn = 'c'
            self.cond.notify_all()
        tc.join()
        ts.join()
        return self.result, self.error


class PairSocket(_Base):
    def __init__(self, link, side, send_miu, recv_miu):
        _Base.__init__(self, send_miu, recv_miu)
        self.link = link
        self.side = side

    def send(self, data, flags=0):
        data = self._check_send(data)
        self.events.append(('send', data))
        with self.link.cond:
            self.link.queue[PairLink.other(self.side)].append(data)
        return True

    def poll(self, event, timeout=None):
        if self.shutdown:
            raise nfc.llcp.Error(errno.ESHUTDOWN)
        if event != 'recv':
            return True
        r = self.link.wait_for_message(self.side, timeout is not None)
        if r == 'timeout':
            self.events.append(('recv', 'T'))
            return False
        if self.link.queue[self.side][0] == 'X':
            self._log_x()
            return False
        return True

    def recv(self):
        if self.shutdown:
            raise nfc.llcp.Error(errno.ENOTCONN)
        self.link.wait_for_message(self.side, False)
        with self.link.cond:
            head = self.link.queue[self.side].popleft()
        if head == 'X':
            self._log_x()
            self.shutdown = True
            return None
        self.events.append(('recv', head))
        return head

    def close(self):
        if not self.closed_by_us and not self.shutdown:
            with self.link.cond:
                self.link.queue[PairLink.other(self.side)].append('X')
        self.closed_by_us = True
        self.shutdown = True


# ------------------------------------------------------------------------------------------
# World: one client thread, any number of connections to named services, each served by its own
# thread; strictly one thread runs at a time (token passing as in PairLink), exact deadlock
# detection, virtual poll timeouts.  WorldLLC is what a real nfc.snep.SnepClient gets as `llc`:
# nfc.llcp.Socket(llc, ...) works on it, connect(service_name) reaches the server registered
# under that name (nfc.llcp.ConnectRefused if there is none).  Deterministic.
class World(object):
    def __init__(self):
        self.cond = threading.Condition()
        self.order = []           # thread ids in creation order ('c' first)
        self.state = {}           # tid -> new | run | wait | wait_t | done
        self.waitq = {}           # tid -> the deque it waits on
        self.fn = {}
        self.turn = None
        self.deadlock = set()
        self.error = {}
        self.threads = []
        self.services = {}        # name -> dict(serve=callable(sock), miu_cs=, miu_sc=)
        self.connections = []     # dict(service=name, c=WorldSocket, s=WorldSocket)
        self.actions = []         # ('connect', name) | ('refused', name) | ('close', index)

    # --- scheduling (called with self.cond held) ---
    def _runnable(self, tid):
        st = self.state[tid]
        return st == 'new' or (st in ('wait', 'wait_t') and len(self.waitq[tid]) > 0)

    def _hand_over(self):
        for tid in self.order:
            if self._runnable(tid):
                self.turn = tid
                break
        else:
            for tid in self.order:
                if self.state[tid] == 'wait_t':
                    self.turn = tid
                    break
            else:
                for tid in self.order:
                    if self.state[tid] == 'wait':
                        self.deadlock.add(tid)
                        self.turn = tid
                        break
                else:
                    self.turn = None
        self.cond.notify_all()

    def wait_for_message(self, tid, q, with_timeout):
        with self.cond:
            if q:
                return 'data'
            self.state[tid] = 'wait_t' if with_timeout else 'wait'
            self.waitq[tid] = q
            self._hand_over()
            while self.turn != tid:
                self.cond.wait()
            self.state[tid] = 'run'
            if q:
                return 'data'
            if tid in self.deadlock:
                self.deadlock.discard(tid)
                raise WouldBlockForever()
            return 'timeout'

    def _worker(self, tid):
        with self.cond:
            while self.turn != tid:
                self.cond.wait()
            self.state[tid] = 'run'
        try:
            self.fn[tid]()
        except WouldBlockForever:
            self.error[tid] = 'blocked'
        except BaseException as e:  # noqa - reported by the caller
            self.error[tid] = e
        with self.cond:
            self.state[tid] = 'done'
            self._hand_over()

    def spawn(self, tid, fn):
        """register a thread; it starts when the token reaches it (called with or without the lock)"""
        self.order.append(tid)
        self.state[tid] = 'new'
        self.fn[tid] = fn
        th = threading.Thread(target=self._worker, args=(tid,))
        th.daemon = True
        self.threads.append(th)
        th.start()

    def run(self, client_fn):
        self.spawn('c', client_fn)
        with self.cond:
            self.turn = 'c'
            self.cond.notify_all()
        for th in list(self.threads):
            th.join()
        for th in self.threads:       # threads spawned meanwhile
            th.join()
        return self.error

    # --- services and connections ---
    def register(self, name, serve, miu_cs, miu_sc):
        self.services[name] = {'serve': serve, 'miu_cs': miu_cs, 'miu_sc': miu_sc}

    def open_connection(self, name):
        svc = self.services.get(name)
        if svc is None:
            self.actions.append(('refused', name))
            raise nfc.llcp.ConnectRefused(2)
        idx = len(self.connections)
        cs = WorldSocket(self, 'c', svc['miu_cs'], svc['miu_sc'])
        ss = WorldSocket(self, 's%d' % idx, svc['miu_sc'], svc['miu_cs'])
        cs.peer, ss.peer = ss, cs
        self.connections.append({'service': name, 'c': cs, 's': ss, 'index': idx})
        self.actions.append(('connect', name))
        cs.index = ss.index = idx
        self.spawn('s%d' % idx, lambda: svc['serve'](ss))
        return cs


class WorldSocket(_Base):
    def __init__(self, world, tid, send_miu, recv_miu):
        _Base.__init__(self, send_miu, recv_miu)
        self.world = world
        self.tid = tid
        self.inq = collections.deque()
        self.peer = None
        self.index = None

    def send(self, data, flags=0):
        data = self._check_send(data)
        self.events.append(('send', data))
        with self.world.cond:
            self.peer.inq.append(data)
        return True

    def poll(self, event, timeout=None):
        if self.shutdown:
            raise nfc.llcp.Error(errno.ESHUTDOWN)
        if event != 'recv':
            return True
        r = self.world.wait_for_message(self.tid, self.inq, timeout is not None)
        if r == 'timeout':
            self.events.append(('recv', 'T'))
            return False
        if self.inq[0] == 'X':
            self._log_x()
            return False
        return True

    def recv(self):
        if self.shutdown:
            raise nfc.llcp.Error(errno.ENOTCONN)
        self.world.wait_for_message(self.tid, self.inq, False)
        with self.world.cond:
            head = self.inq.popleft()
        if head == 'X':
            self._log_x()
            self.shutdown = True
            return None
        self.events.append(('recv', head))
        return head

    def close(self):
        if not self.closed_by_us and not self.shutdown:
            with self.world.cond:
                self.peer.inq.append('X')
            if self.tid == 'c':
                self.world.actions.append(('close', self.index))
        self.closed_by_us = True
        self.shutdown = True


class WorldLLC(object):
    """the `llc` object of the client side: the methods nfc.llcp.Socket forwards to"""

    def __init__(self, world):
        self.world = world

    class _Unconnected(object):
        sock = None

    def socket(self, sock_type):
        return WorldLLC._Unconnected()

    def connect(self, tco, address):
        tco.sock = self.world.open_connection(address)

    def setsockopt(self, tco, option, value):
        return value

    def getsockopt(self, tco, option):
        return tco.sock.getsockopt(option)

    def send(self, tco, data, flags):
        return tco.sock.send(data, flags)

    def recv(self, tco):
        return tco.sock.recv()

    def poll(self, tco, event, timeout=None):
        return tco.sock.poll(event, timeout)

    def close(self, tco):
        if tco.sock is not None:
            tco.sock.close()

    def getpeername(self, tco):
        return 32

    def getsockname(self, tco):
        return 33
