"""Byte-accurate simulated Type 3 tag and Type 4 card for the C01-C03 block-tag checks.

They are *environment*: a passive FeliCa (NFC Forum Type 3) tag answering Polling /
Read Without Encryption / Write Without Encryption frames with physical limits on the
number of blocks per command, and an ISO 7816-4 card answering SELECT / READ BINARY /
UPDATE BINARY over a capability container and an NDEF file.  The tag memory outlives a
session; a session (`T3Session`, `T4Session`) is one activation ("tag in the field")
and can be given a power cut: after the k-th state-changing command of the session has
been executed and answered, every further command times out.

Every state-changing command is logged with its address range.
"""
import nfc.clf
import nfc.tag
import nfc.tag.tt3
import nfc.tag.tt4


class SimHang(Exception):
    """the code under test repeats a command that makes no progress (it would loop forever)"""


# ------------------------------------------------------------------------------- Type 3
class SimT3Tag(object):
    """memory = list of 16-byte blocks of the NDEF services (000Bh read, 0009h write).

    systems: system codes of the card in system number order.  As on every FeliCa card the IDm of system n
    carries n in the upper four bits of its first byte; Polling with a wildcard answers for the first matching
    system; the NDEF services exist only in system 12FCh.
    sysblocks: further blocks by number (FeliCa Lite: 88h = MC); with lite=True the MC block's read/write
    permission bits (little endian bit n = block n) are enforced and one block is written per command."""

    def __init__(self, blocks, idm=None, pmm=None, max_read=15, max_write=13, rw_service=True,
                 sys_in_sensf=True, systems=(0x12FC,), sysblocks=None, lite=False):
        self.blocks = [bytearray(b) for b in blocks]
        assert all(len(b) == 16 for b in self.blocks)
        self.idm = bytearray(idm or bytes.fromhex('0102030405060708'))
        self.pmm = bytearray(pmm or bytes.fromhex('FFFFFFFFFFFFFFFF'))
        self.systems = tuple(systems)
        self.max_read = max_read
        self.max_write = max_write
        self.rw_service = rw_service
        self.sys_in_sensf = sys_in_sensf
        self.sysblocks = {k: bytearray(v) for k, v in (sysblocks or {}).items()}
        self.lite = lite
        self.attempts = []          # block lists of every write command received (also refused ones)

    def idm_of(self, n):
        return bytearray([(n << 4) | (self.idm[0] & 0x0F)]) + self.idm[1:]

    def ndef_idm(self):
        return self.idm_of(self.systems.index(0x12FC)) if 0x12FC in self.systems else self.idm

    def memory(self):
        return b''.join(bytes(b) for b in self.blocks)

    def clone(self):
        return SimT3Tag(self.blocks, self.idm, self.pmm, self.max_read, self.max_write, self.rw_service,
                        self.sys_in_sensf, self.systems, self.sysblocks, self.lite)

    def sensf_res(self):
        """what a reader polling with the wildcard system code (request code 1) gets"""
        sc = self.systems[0]
        return bytearray(b'\x01') + self.idm_of(0) + self.pmm + (bytearray([sc >> 8, sc & 255]) if self.sys_in_sensf else b'')

    def _block(self, num):
        if num < len(self.blocks):
            return self.blocks[num]
        return self.sysblocks.get(num)

    def _writable(self, num):
        if not self.lite:
            return True
        mc = self.sysblocks.get(0x88)
        if mc is None:
            return True
        if num == 0x88:
            return mc[2] == 0xFF
        return num < 16 and bool((mc[0] | mc[1] << 8) >> num & 1)

    # returns (response frame or None, state_change_record or None)
    def command(self, frame):
        frame = bytearray(frame)
        if len(frame) < 2 or frame[0] != len(frame):
            return None, None
        code = frame[1]
        if code == 0x00:
            if len(frame) != 6:
                return None, None
            for n, sc in enumerate(self.systems):
                hi, lo = sc >> 8, sc & 255
                if frame[2] in (0xFF, hi) and frame[3] in (0xFF, lo):
                    rsp = self.idm_of(n) + self.pmm
                    if frame[4] == 1:
                        rsp = rsp + bytearray([hi, lo])
                    return bytearray([2 + len(rsp), 0x01]) + rsp, None
            return None, None
        sysno = [n for n in range(len(self.systems)) if frame[2:10] == self.idm_of(n)]
        if code not in (0x06, 0x08) or not sysno:
            return None, None
        idm = self.idm_of(sysno[0])
        body = frame[10:]

        def status(sf1, sf2):
            return bytearray([12, code + 1]) + idm + bytearray([sf1, sf2])
        try:
            nsvc = body[0]
            svcs = [body[1 + 2 * i] | body[2 + 2 * i] << 8 for i in range(nsvc)]
            pos = 1 + 2 * nsvc
            nblk = body[pos]
            pos += 1
            blist = []
            for i in range(nblk):
                b0 = body[pos]
                if b0 & 0x80:
                    num = body[pos + 1]
                    pos += 2
                else:
                    num = body[pos + 1] | body[pos + 2] << 8
                    pos += 3
                blist.append((b0 & 0x0F, b0 >> 4 & 7, num))
        except IndexError:
            return status(0xFF, 0xA1), None
        if code == 0x08:
            self.attempts.append([num for (_, _, num) in blist])
        if nsvc < 1 or nsvc > 16:
            return status(0xFF, 0xA1), None
        if self.systems[sysno[0]] != 0x12FC:
            return status(0xFF, 0xA6), None         # the NDEF services exist only in the NDEF system
        for s in svcs:
            ok = (s == 0x000B) or (s == 0x0009 and self.rw_service)
            if not ok or (code == 0x08 and s != 0x0009):
                return status(0xFF, 0xA6), None
        if nblk < 1 or nblk > (self.max_read if code == 0x06 else self.max_write):
            return status(0xFF, 0xA2), None
        for i, (sx, am, num) in enumerate(blist):
            if sx >= nsvc:
                return status(1 << (i % 8), 0xA3), None
            if am != 0:
                return status(1 << (i % 8), 0xA7), None
            if self._block(num) is None:
                return status(1 << (i % 8), 0xA8), None
            if code == 0x08 and not self._writable(num):
                return status(1 << (i % 8), 0xA8), None
        if code == 0x06:
            if pos != len(body):
                return status(0xFF, 0xA1), None
            data = b''.join(bytes(self._block(num)) for (_, _, num) in blist)
            rsp = idm + bytearray([0, 0, nblk]) + data
            return bytearray([2 + len(rsp), 0x07]) + rsp, None
        data = body[pos:]
        if len(data) != 16 * nblk:
            return status(0xFF, 0xA9), None
        before = self.memory()
        for i, (_, _, num) in enumerate(blist):
            self._block(num)[:] = data[16 * i:16 * i + 16]
        rec = {'blocks': [num for (_, _, num) in blist], 'data': bytes(data), 'frame': bytes(frame),
               'changed': before != self.memory()}
        return status(0, 0), rec


class T3Session(object):
    """fake contactless frontend holding one Type 3 tag in its field"""
    max_send_data_size = 290
    max_recv_data_size = 290

    def __init__(self, tag, cut_after=None):
        self.tag = tag
        self.cut_after = cut_after
        self.log = []          # state-changing commands of this session
        self.frames = []       # every command frame sent
        self.dead = cut_after == 0

    def exchange(self, data, timeout):
        self.frames.append(bytes(data))
        if self.dead:
            raise nfc.clf.TimeoutError("power cut")
        rsp, rec = self.tag.command(data)
        if rec is not None:
            self.log.append(rec)
            if self.cut_after is not None and len(self.log) >= self.cut_after:
                self.dead = True
        if rsp is None:
            raise nfc.clf.TimeoutError("no answer")
        return bytearray(rsp)

    def target(self):
        t = nfc.clf.RemoteTarget("212F")
        t.sensf_res = self.tag.sensf_res()
        return t

    def activate(self):
        return nfc.tag.activate(self, self.target())


def t3_attribute_block(ver, nbr, nbw, nmaxb, writef, rwflag, ln, rfu=0, bad_checksum=False):
    a = bytearray(16)
    a[0], a[1], a[2] = ver, nbr, nbw
    a[3], a[4] = nmaxb >> 8, nmaxb & 255
    a[5:9] = bytes([rfu]) * 4
    a[9], a[10] = writef, rwflag
    a[11], a[12], a[13] = ln >> 16 & 255, ln >> 8 & 255, ln & 255
    s = sum(a[:14]) + (1 if bad_checksum else 0)
    a[14], a[15] = s >> 8, s & 255
    return a


# ---------------------------------------------- the library's own Type 3 Tag emulation
class EmuMemory(object):
    """application memory served through Type3TagEmulation the way examples/tagtool.py does"""

    def __init__(self, data):
        self.data = bytearray(data)
        self.writes = []

    def ndef_read(self, block_number, rb, re):
        if block_number < len(self.data) / 16:
            first, last = block_number * 16, (block_number + 1) * 16
            return self.data[first:last]

    def ndef_write(self, block_number, block_data, wb, we):
        if block_number < len(self.data) / 16:
            first, last = block_number * 16, (block_number + 1) * 16
            self.data[first:last] = block_data
            self.writes.append((block_number, bytes(block_data)))
            return True


class EmuSession(object):
    """a reader-side fake clf whose exchange() is answered by a real Type3TagEmulation"""
    max_send_data_size = 290
    max_recv_data_size = 290

    def __init__(self, mem, idm=None, pmm=None, cut_after=None):
        self.mem = mem
        self.idm = bytearray(idm or bytes.fromhex('03FE010203040506'))
        self.pmm = bytearray(pmm or bytes.fromhex('FFFFFFFFFFFFFFFF'))
        tgt = nfc.clf.LocalTarget('212F')
        tgt.sensf_res = bytearray(b'\x01') + self.idm + self.pmm + b'\x12\xFC'
        tgt.tt3_cmd = bytearray.fromhex('06') + self.idm + bytearray.fromhex('010b00018000')
        self.emu = nfc.tag.emulate(None, tgt)
        self.emu.add_service(0x0009, mem.ndef_read, mem.ndef_write)
        self.emu.add_service(0x000B, mem.ndef_read, lambda: False)
        self.cut_after = cut_after
        self.log = []
        self.frames = []
        self.responses = []
        self.dead = cut_after == 0
        self.emu_exception = None

    def exchange(self, data, timeout):
        self.frames.append(bytes(data))
        if self.dead:
            raise nfc.clf.TimeoutError("power cut")
        nw = len(self.mem.writes)
        before = bytes(self.mem.data)
        try:
            rsp = self.emu.process_command(bytearray(data))
        except Exception as e:  # the emulation crashed: the reader sees silence
            self.emu_exception = type(e).__name__
            rsp = None
        self.responses.append(None if rsp is None else bytes(rsp))
        # state-changing: a write command that changed the memory or was acknowledged
        if len(data) > 1 and data[1] == 0x08 and (before != bytes(self.mem.data) or
                                                  (rsp is not None and len(rsp) >= 12 and rsp[10] == 0)):
            self.log.append({'blocks': [w[0] for w in self.mem.writes[nw:]],
                             'data': b''.join(w[1] for w in self.mem.writes[nw:]), 'frame': bytes(data)})
            if self.cut_after is not None and len(self.log) >= self.cut_after:
                self.dead = True
        if rsp is None:
            raise nfc.clf.TimeoutError("no answer")
        return bytearray(rsp)

    def activate(self):
        t = nfc.clf.RemoteTarget("212F")
        t.sensf_res = bytearray(b'\x01') + self.idm + self.pmm + b'\x12\xFC'
        return nfc.tag.activate(self, t)


# ------------------------------------------------------------------------------- Type 4
AID_V2 = bytes.fromhex('D2760000850101')
AID_V1 = bytes.fromhex('D2760000850100')


def t4_cc(mapping, mle, mlc, fid, mfs, rf=0, wf=0, extra=b''):
    """capability container; mapping 2 -> NDEF File Control TLV (04h), 3 -> extended (06h)"""
    if mapping == 3:
        tlv = bytes([6, 8]) + bytes(fid) + mfs.to_bytes(4, 'big') + bytes([rf, wf])
        ver = 0x30
    else:
        tlv = bytes([4, 6]) + bytes(fid) + mfs.to_bytes(2, 'big') + bytes([rf, wf])
        ver = 0x20
    body = bytes([ver]) + mle.to_bytes(2, 'big') + mlc.to_bytes(2, 'big') + tlv + bytes(extra)
    return (len(body) + 2).to_bytes(2, 'big') + body


class SimT4Card(object):
    def __init__(self, cc, fid, ndef_file, aids=(AID_V2,), other=None, enforce_mle=True):
        self.files = {b'\xE1\x03': bytearray(cc), bytes(fid): bytearray(ndef_file)}
        for k, v in (other or {}).items():
            self.files[bytes(k)] = bytearray(v)
        self.fid = bytes(fid)
        self.aids = [bytes(a) for a in aids]
        self.mle = int.from_bytes(cc[3:5], 'big')
        self.mlc = int.from_bytes(cc[5:7], 'big')
        self.enforce_mle = enforce_mle

    def clone(self):
        c = SimT4Card(self.files[b'\xE1\x03'], self.fid, self.files[self.fid], self.aids,
                      {k: v for k, v in self.files.items() if k not in (b'\xE1\x03', self.fid)}, self.enforce_mle)
        return c

    def memory(self):
        return {k.hex(): bytes(v) for k, v in sorted(self.files.items())}


class T4Session(object):
    """reliable APDU channel to the card (stands in for the ISO-DEP layer, property C12) and at the
    same time the fake clf that answers RATS during activation"""
    max_send_data_size = 256
    max_recv_data_size = 256
    miu = 253
    fwt = 0.0773

    def __init__(self, card, cut_after=None):
        self.card = card
        self.cut_after = cut_after
        self.app = False
        self.sel = None
        self.log = []          # state changing commands: dict(fid, offset, data)
        self.apdus = []
        self.dead = cut_after == 0
        self.idle = 0

    # --- clf side (activation only)
    def exchange(self, data, timeout):
        if bytes(data[:1]) == b'\xE0':
            return bytearray.fromhex('067577810280')
        raise nfc.clf.TimeoutError("unexpected raw frame")

    def activate(self):
        t = nfc.clf.RemoteTarget("106A")
        t.sens_res = bytearray.fromhex("4403")
        t.sel_res = bytearray.fromhex("20")
        t.sdd_res = bytearray.fromhex("04832F9A272D80")
        tag = nfc.tag.activate(self, t)
        tag._dep = _Dep(self)
        return tag

    # --- card side
    def apdu(self, apdu):
        apdu = bytes(apdu)
        self.apdus.append(apdu)
        if self.dead:
            return None
        rsp, rec = self._process(apdu)
        if apdu[1:2] == b'\xB0' and rsp == b'\x90\x00':
            self.idle += 1
            if self.idle >= 3:
                raise SimHang("READ BINARY answered without data is repeated forever")
        else:
            self.idle = 0
        if rec is not None:
            self.log.append(rec)
            if self.cut_after is not None and len(self.log) >= self.cut_after:
                self.dead = True
        return rsp

    def _process(self, apdu):
        if len(apdu) < 4:
            return b'\x67\x00', None
        cla, ins, p1, p2 = apdu[:4]
        data, le = b'', None
        if len(apdu) == 5:
            le = apdu[4] or 256
        elif len(apdu) > 5:
            lc = apdu[4]
            if len(apdu) == 5 + lc:
                data = apdu[5:]
            elif len(apdu) == 6 + lc:
                data = apdu[5:5 + lc]
                le = apdu[-1] or 256
            else:
                return b'\x67\x00', None
        if cla != 0:
            return b'\x6E\x00', None
        if ins == 0xA4:
            if p1 == 0x04:
                if data in self.card.aids:
                    self.app, self.sel = True, None
                    return b'\x90\x00', None
                return b'\x6A\x82', None
            if p1 == 0x00 and self.app and data in self.card.files:
                self.sel = data
                return b'\x90\x00', None
            return b'\x6A\x82', None
        if self.sel is None:
            return b'\x69\x86', None
        f = self.card.files[self.sel]
        off = p1 << 8 | p2
        if ins == 0xB0:
            if le is None:
                return b'\x67\x00', None
            if self.card.enforce_mle and self.sel == self.card.fid and le > self.card.mle:
                return b'\x67\x00', None
            if off > len(f):
                return b'\x6B\x00', None
            return bytes(f[off:off + le]) + b'\x90\x00', None
        if ins == 0xD6:
            if len(data) == 0:
                return b'\x67\x00', None
            if len(data) > self.card.mlc:
                return b'\x67\x00', None
            if off + len(data) > len(f):
                return b'\x6A\x84', None
            if self.sel == b'\xE1\x03':
                return b'\x69\x82', None
            before = bytes(f)
            f[off:off + len(data)] = data
            return b'\x90\x00', {'fid': self.sel.hex(), 'offset': off, 'data': bytes(data),
                                 'changed': before != bytes(f)}
        return b'\x6D\x00', None


class _Dep(object):
    """what Type4Tag sees of the ISO-DEP layer: exchange(apdu) -> response apdu, or the
    documented error once the card is out of the field"""

    def __init__(self, session):
        self.session = session
        self.miu = session.miu
        self.fwt = session.fwt

    def exchange(self, command, timeout=None):
        if command is None:
            if self.session.dead:
                raise nfc.clf.TimeoutError("gone")
            return
        rsp = self.session.apdu(command)
        if rsp is None:
            raise nfc.tag.tt4.Type4TagCommandError(nfc.tag.TIMEOUT_ERROR)
        return bytearray(rsp)
