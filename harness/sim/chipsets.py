"""Fake host links for the nfcpy contactless drivers (environment, not model).

Each simulator is a `transport` object (write/read/close + the attributes the drivers look at)
that speaks the host protocol of one chipset family, keeps just enough chip state to let the real
driver code run complete exchanges, and can replace the answer to the k-th host command (counted
from `arm()`) by a fault:

  ('none',)                    normal answer
  ('status', code)             first payload byte of the response (the chipset status) := code
  ('status32', word)           RC-S380: 32-bit communication status word := word (little endian)
  ('errframe',)                PN53x application-level error frame (00 00 FF 01 FF 7F 81 00)
  ('sw', sw1, sw2)             ACR122: pseudo-APDU status word instead of 90 00
  ('timeout', 'ack'|'rsp')     nothing arrives: transport.read raises IOError(ETIMEDOUT)
  ('ioerror', errno, where)    where in 'write' | 'ack' | 'rsp': the transport call raises IOError(errno)
  ('gone',)                    device unplugged: this and every later transport call raises IOError(ENODEV)
  ('short', n)                 response frame cut to its first n bytes
  ('garbled', bytes)           response frame replaced by the given bytes
  ('ackgarbled', bytes)        the given bytes arrive in place of the ACK frame (the response follows)
  ('empty',)                   well-formed response frame without any payload after the response code
  ('payload', n)               well-formed response frame whose payload (after the response code) is cut to n bytes
  ('regval', pos, v)           ReadRegister: the value reported for the pos-th register of the command := v
  ('overlong', n)              ReadRegister: n values more than registers were asked for

Time is virtual: `VClock` is installed as the `time` attribute of the driver modules.
Nothing here is imported by the Coq side; the statement being checked is about the real drivers
running on top of these objects.
"""
import errno
import os
import struct

ACK = bytes.fromhex('0000ff00ff00')
ERRFRAME = bytes.fromhex('0000ff01ff7f8100')


class WouldBlockForever(Exception):
    """the driver waits without time limit for something the simulated peer never sends: reported to the
    harness instead of hanging (legitimate only when the exchange was started with timeout=None)"""


class VClock(object):
    """virtual clock replacing the `time` module inside the driver modules; sleep() has the argument
    checks of the real time.sleep and never really waits"""
    LIMIT = 8000           # clock operations within one exchange before the run is declared endless

    def __init__(self):
        self.now = 1000.0
        self.ops = 0

    def restart(self):
        self.ops = 0

    def _tick(self):
        self.ops += 1
        if self.ops > self.LIMIT:
            raise WouldBlockForever('simulated time: the exchange polls without end')

    def time(self):
        self._tick()
        self.now += 1e-6       # time passes between two looks at the clock
        return self.now

    def sleep(self, dt):
        if not isinstance(dt, (int, float)):
            raise TypeError("'%s' object cannot be interpreted as an integer or float" % type(dt).__name__)
        if dt < 0:
            raise ValueError('sleep length must be non-negative')
        self._tick()
        self.now += dt

    def wait(self, dt):
        """time passing inside a blocking transport call (not a driver call of time.sleep)"""
        self._tick()
        if dt and dt > 0:
            self.now += dt


def install_clock(clock, modules):
    for m in modules:
        if hasattr(m, 'time'):
            m.time = clock


def ioerr(no):
    return IOError(no, os.strerror(no))


# ------------------------------------------------------------------ PN53x host frames
def pn53x_frame(body):
    body = bytes(body)
    n = len(body)
    if n < 255:
        head = b'\x00\x00\xff' + bytes([n, (256 - n) & 255])
    else:
        head = b'\x00\x00\xff\xff\xff' + bytes([n >> 8, n & 255, (256 - (n >> 8) - (n & 255)) & 255])
    return head + body + bytes([(256 - sum(body)) & 255, 0])


def pn53x_parse_command(frame):
    """host -> chip frame; returns (cmd_code, data) or None if malformed"""
    f = bytes(frame)
    i = 0
    while i + 2 < len(f) and f[i:i + 3] != b'\x00\x00\xff':
        i += 1
    f = f[i:]
    if len(f) < 6 or f[:3] != b'\x00\x00\xff':
        return None
    if f[3:5] == b'\xff\xff':
        if len(f) < 8 or (f[5] + f[6] + f[7]) & 255:
            return None
        n = f[5] * 256 + f[6]
        body, rest = f[8:8 + n], f[8 + n:]
    else:
        if (f[3] + f[4]) & 255:
            return None
        n = f[3]
        body, rest = f[5:5 + n], f[5 + n:]
    if len(body) != n or n < 2 or len(rest) < 1 or (sum(body) + rest[0]) & 255 or body[0] != 0xD4:
        return None
    return body[1], body[2:]


REG = {'Command': 0x6331, 'CommIRq': 0x6334, 'DivIRq': 0x6335, 'FIFOData': 0x6339, 'FIFOLevel': 0x633A,
       'BitFraming': 0x633D, 'ManualRCV': 0x630D}


def crc_b(data):
    reg = 0xFFFF
    for byte in data:
        for i in range(8):
            fb = (reg ^ (byte >> i)) & 1
            reg >>= 1
            if fb:
                reg ^= 0x8408
    reg = ~reg & 0xFFFF
    return bytes([reg & 255, reg >> 8])


def crc_a(data):
    reg = 0x6363
    for byte in data:
        for i in range(8):
            fb = (reg ^ (byte >> i)) & 1
            reg >>= 1
            if fb:
                reg ^= 0x8408
    return bytes([reg & 255, reg >> 8])


def tt1_fifo_image(rsp):
    """what the CIU FIFO holds after receiving `rsp` with the parity check disabled: per byte 8 data
    bits (LSB first) followed by the odd parity bit, packed LSB first into octets"""
    bits = []
    for b in rsp:
        d = [(b >> i) & 1 for i in range(8)]
        bits += d + [1 - (sum(d) & 1)]
    while len(bits) % 8:
        bits.append(0)
    return bytes(sum(bits[i + k] << k for k in range(8)) for i in range(0, len(bits), 8))


class FakeTTY(object):
    """the `tty` attribute some drivers poke at in close()"""
    port = '/dev/ttyS0'
    baudrate = 115200
    timeout = 0.05

    def write(self, data):
        pass

    def readline(self):
        return b''


class HostSimBase(object):
    """command counting, fault arming, response queue shared by all host protocol fakes"""
    TYPE = 'USB'
    manufacturer_name = 'Sim'
    product_name = 'Sim Device'
    port = '/dev/ttyS0'
    baudrate = 115200

    def __init__(self, clock):
        self.clock = clock
        self.queue = []
        self.gone = False
        self.closed = False
        self.count = 0
        self.fault_at = None
        self.fault = ('none',)
        self.trace = []           # (index, command code, has_status) since arm()
        self.bad_commands = []    # malformed command frames written by the driver
        self.fired = False
        self.frame_lens = {}
        self.payload_lens = {}
        self.fault_payload = None
        self.fault_cmd_data = None
        self.tty = FakeTTY()
        self.remote = lambda data: b''       # RF side for initiator exchanges
        self.initiator_cmds = []             # RF side for target exchanges: next commands from the initiator

    def open(self, *a, **k):
        pass

    def close(self):
        self.closed = True

    def arm(self, index=None, fault=('none',)):
        self.queue = []
        self.gone = False
        self.count = 0
        self.fault_at = index
        self.fault = fault
        self.trace = []
        self.fired = False
        self.frame_lens = {}        # command index -> length of the response frame that was queued
        self.payload_lens = {}      # command index -> length of the normal response payload
        self.fault_payload = None   # payload (after the response code) sent for a status/empty/payload fault
        self.fault_cmd_data = None  # parameters of the host command that was hit by the fault

    def _fault_for(self, idx):
        if self.fault_at is not None and idx == self.fault_at:
            self.fired = True
            return self.fault
        return ('none',)

    def read(self, timeout=0):
        if self.gone:
            raise ioerr(errno.ENODEV)
        if not self.queue:
            self.clock.wait((timeout or 0) / 1000.0)
            raise ioerr(errno.ETIMEDOUT)
        item = self.queue.pop(0)
        if isinstance(item, BaseException):
            raise item
        return bytearray(item)

    def next_initiator_cmd(self):
        return self.initiator_cmds.pop(0) if self.initiator_cmds else None


# ------------------------------------------------------------------ PN531 / PN532 / PN533 / RC-S956
class Pn53xSim(HostSimBase):
    """chip in {'pn531','pn532','pn533','rcs956'}; arygon=True strips the '2' the Arygon MCU expects"""
    FW = {'pn531': b'\x04\x02', 'pn532': b'\x32\x01\x06\x07', 'pn533': b'\x33\x02\x07\x07',
          'rcs956': b'\x33\x01\x30\x07'}
    # commands whose first response byte is a status
    STATUS_CMDS = {0x40, 0x42, 0x44, 0x46, 0x4E, 0x50, 0x52, 0x54, 0x56, 0x86, 0x88, 0x8E, 0x90, 0x92, 0x94, 0x16}

    def __init__(self, chip, clock, arygon=False, tty=False):
        HostSimBase.__init__(self, clock)
        self.chip = chip
        self.arygon = arygon
        self.TYPE = 'TTY' if (tty or arygon) else 'USB'
        self.regs = {}
        self.fifo = bytearray()
        self.txfifo = bytearray()
        self.commirq = 0
        self.divirq = 0
        self.rx_armed = False
        self.tt1_armed = False
        self.field_off = False        # target side: external field switched off

    def has_status(self, cmd):
        if cmd in self.STATUS_CMDS:
            return True
        if cmd == 0x06:
            return self.chip == 'pn533'
        if cmd == 0x08:
            return self.chip in ('pn533', 'rcs956')
        return False

    # -- CIU register file -------------------------------------------------
    def reg_read(self, a):
        if a == REG['FIFOData']:
            return self.fifo.pop(0) if self.fifo else 0
        if a == REG['FIFOLevel']:
            self._rf_receive()
            return len(self.fifo)
        if a == REG['CommIRq']:
            self._rf_receive()
            return self.commirq
        if a == REG['DivIRq']:
            return self.divirq | (1 if self.field_off else 0)
        return self.regs.get(a, 0)

    def reg_write(self, a, v):
        if a == REG['FIFOData']:
            self.txfifo.append(v)
        elif a == REG['FIFOLevel']:
            if v & 0x80:
                self.fifo = bytearray()
                self.txfifo = bytearray()
        elif a == REG['CommIRq']:
            if v & 0x80:
                self.commirq |= v & 0x7F
            else:
                self.commirq &= ~v & 0x7F
                if v == 0x7F:
                    self.rx_armed = True      # target side waits for the next initiator frame
        elif a == REG['DivIRq']:
            if not v & 0x80:
                self.divirq &= ~v & 0x7F
        elif a == REG['Command']:
            if v in (0x08, 0x0C):
                self.tt1_armed = True         # Receive / Transceive of the hand-made TT1 frame
            self.regs[a] = v
        else:
            self.regs[a] = v

    def _rf_receive(self):
        if self.tt1_armed:
            self.tt1_armed = False
            cmd = bytes(self.txfifo)
            self.txfifo = bytearray()
            rsp = self.remote(cmd[:-2]) if len(cmd) >= 2 else b''
            if rsp:
                self.fifo = bytearray(tt1_fifo_image(bytes(rsp) + crc_b(rsp)))
        elif self.rx_armed:
            nxt = self.next_initiator_cmd()
            if nxt is not None:
                self.rx_armed = False
                self.fifo = bytearray(nxt)
                self.commirq |= 0x30

    def _register_fault(self, cmd, payload, fault, data):
        """'regval' / 'overlong' faults rewrite the ReadRegister answer; returns (payload, remaining fault kind)"""
        kind = fault[0]
        if kind not in ('regval', 'overlong'):
            return payload, kind
        if cmd != 0x06 or payload is None:
            self.fired = False
            return payload, 'none'
        off = 1 if self.chip == 'pn533' else 0
        p = bytearray(payload)
        if kind == 'regval':
            if off + fault[1] >= len(p):
                self.fired = False
                return payload, 'none'
            p[off + fault[1]] = fault[2]
        else:
            p += bytes([0xA5] * fault[1])
        self.fault_payload, self.fault_cmd_data = bytes(p), bytes(data)
        return bytes(p), 'none'

    # -- host commands -----------------------------------------------------
    def handle(self, cmd, data):
        chip = self.chip
        if cmd == 0x00:
            return data[1:] if chip == 'rcs956' else data
        if cmd == 0x02:
            return self.FW[chip]
        if cmd == 0x04:
            return b'\x00\x00\x00'
        if cmd == 0x06:
            vals = bytes(self.reg_read(data[i] << 8 | data[i + 1]) for i in range(0, len(data) - 1, 2))
            return (b'\x00' + vals) if chip == 'pn533' else vals
        if cmd == 0x08:
            for i in range(0, len(data) - 2, 3):
                self.reg_write(data[i] << 8 | data[i + 1], data[i + 2])
            return b'\x00' if chip in ('pn533', 'rcs956') else b''
        if cmd == 0x16:
            return b'\x00'
        if cmd == 0x40:
            return b'\x00' + bytes(self.remote(bytes(data[1:])) or b'')
        if cmd == 0x42:
            return b'\x00' + bytes(self.remote(bytes(data)) or b'')
        if cmd == 0x90:
            return b'\x00'
        if cmd == 0x88:
            nxt = self.next_initiator_cmd()
            if nxt is None:
                return None           # no answer before the host times out
            return b'\x00' + bytes(nxt)
        if cmd in (0x8E, 0x92, 0x94, 0x4E, 0x44, 0x52, 0x54):
            return b'\x00'
        if cmd == 0x86:
            nxt = self.next_initiator_cmd()
            return None if nxt is None else b'\x00' + bytes(nxt)
        return b''

    def write(self, frame):
        if self.gone:
            raise ioerr(errno.ENODEV)
        f = bytes(frame)
        if self.arygon:
            if f[:1] != b'2':
                self.bad_commands.append(f)
            f = f[1:]
        if f.lstrip(b'\x00') == ACK.lstrip(b'\x00') or f == ACK:
            self.queue = []           # ACK from the host aborts the running command
            return
        parsed = pn53x_parse_command(f)
        if parsed is None:
            self.bad_commands.append(f)
            self.queue = []
            return
        cmd, data = parsed
        idx = self.count
        self.count += 1
        self.trace.append((idx, cmd, self.has_status(cmd)))
        fault = self._fault_for(idx)
        kind = fault[0]
        if kind == 'gone':
            self.gone = True
            raise ioerr(errno.ENODEV)
        if kind == 'ioerror' and fault[2] == 'write':
            raise ioerr(fault[1])
        payload = self.handle(cmd, bytes(data))
        self.payload_lens[idx] = len(payload) if payload is not None else 0
        payload, kind = self._register_fault(cmd, payload, fault, data)
        q = []
        # acknowledge stage
        if kind == 'timeout' and fault[1] == 'ack':
            self.queue = q
            return
        if kind == 'ioerror' and fault[2] == 'ack':
            self.queue = [ioerr(fault[1])]
            return
        q.append(bytes(fault[1]) if kind == 'ackgarbled' else ACK)
        # response stage
        if kind == 'timeout' or payload is None:
            pass
        elif kind == 'ioerror':
            q.append(ioerr(fault[1]))
        elif kind == 'errframe':
            q.append(ERRFRAME)
        elif kind == 'status':
            self.fault_payload = bytes([fault[1]]) + payload[1:]
            q.append(pn53x_frame(bytes([0xD5, cmd + 1, fault[1]]) + payload[1:]))
        elif kind == 'empty':
            self.fault_payload = b''
            q.append(pn53x_frame(bytes([0xD5, cmd + 1])))
        elif kind == 'payload':
            self.fault_payload, self.fault_cmd_data = payload[:fault[1]], bytes(data)
            q.append(pn53x_frame(bytes([0xD5, cmd + 1]) + payload[:fault[1]]))
        elif kind == 'short':
            q.append(pn53x_frame(bytes([0xD5, cmd + 1]) + payload)[:fault[1]])
        elif kind == 'garbled':
            q.append(bytes(fault[1]))
        else:
            q.append(pn53x_frame(bytes([0xD5, cmd + 1]) + payload))
        self.frame_lens[idx] = len(q[-1]) if isinstance(q[-1], bytes) else 0
        self.queue = q


# ------------------------------------------------------------------ ACR122U (PN532 behind a CCID escape envelope)
class Acr122Sim(Pn53xSim):
    TYPE = 'USB'
    manufacturer_name = 'ACS'
    product_name = 'ACR122U PICC Interface'

    def __init__(self, clock):
        Pn53xSim.__init__(self, 'pn532', clock)
        self.TYPE = 'USB'

    @staticmethod
    def ccid(payload):
        return b'\x80' + struct.pack('<I', len(payload)) + bytes(5) + bytes(payload)

    def write(self, frame):
        if self.gone:
            raise ioerr(errno.ENODEV)
        f = bytes(frame)
        if f[:1] == b'\x62':                       # ICC power on
            self.queue = [b'\x80' + struct.pack('<I', 2) + bytes(5) + b'\x3b\x00']
            return
        if len(f) < 10 or f[0] != 0x6F or struct.unpack('<I', f[1:5])[0] != len(f) - 10:
            self.bad_commands.append(f)
            self.queue = []
            return
        apdu = f[10:]
        if apdu == ACK:
            self.queue = [self.ccid(b'\x90\x00')]
            return
        if apdu[:4] != b'\xff\x00\x00\x00':        # reader commands (version, LED, PICC parameters)
            if apdu[:3] == b'\xff\x00\x48':
                self.queue = [self.ccid(b'ACR122U203')]
            else:
                self.queue = [self.ccid(b'\x90\x00')]
            return
        body = apdu[5:]
        if apdu[4] != len(body) or len(body) < 2 or body[0] != 0xD4:
            self.bad_commands.append(f)
            self.queue = []
            return
        cmd, data = body[1], body[2:]
        idx = self.count
        self.count += 1
        self.trace.append((idx, cmd, self.has_status(cmd)))
        fault = self._fault_for(idx)
        kind = fault[0]
        if kind == 'gone':
            self.gone = True
            raise ioerr(errno.ENODEV)
        if kind == 'ioerror' and fault[2] == 'write':
            raise ioerr(fault[1])
        payload = self.handle(cmd, bytes(data))
        self.payload_lens[idx] = len(payload) if payload is not None else 0
        payload, kind = self._register_fault(cmd, payload, fault, data)
        if kind == 'timeout' or payload is None:
            self.queue = []
        elif kind == 'ioerror':
            self.queue = [ioerr(fault[1])]
        elif kind == 'errframe':
            self.queue = [self.ccid(b'\x7f\x90\x00')]
        elif kind == 'sw':
            self.queue = [self.ccid(bytes([fault[1], fault[2]]))]
        elif kind == 'status':
            self.fault_payload = bytes([fault[1]]) + payload[1:]
            self.queue = [self.ccid(bytes([0xD5, cmd + 1, fault[1]]) + payload[1:] + b'\x90\x00')]
        elif kind == 'empty':
            self.fault_payload = b''
            self.queue = [self.ccid(bytes([0xD5, cmd + 1]) + b'\x90\x00')]
        elif kind == 'payload':
            self.fault_payload, self.fault_cmd_data = payload[:fault[1]], bytes(data)
            self.queue = [self.ccid(bytes([0xD5, cmd + 1]) + payload[:fault[1]] + b'\x90\x00')]
        elif kind == 'short':
            self.queue = [self.ccid(bytes([0xD5, cmd + 1]) + payload + b'\x90\x00')[:fault[1]]]
        elif kind in ('garbled', 'ackgarbled'):
            self.queue = [bytes(fault[1])]
        else:
            self.queue = [self.ccid(bytes([0xD5, cmd + 1]) + payload + b'\x90\x00')]
        self.frame_lens[idx] = len(self.queue[-1]) if self.queue and isinstance(self.queue[-1], bytes) else 0


# ------------------------------------------------------------------ RC-S380 (NFC Port-100)
def rcs380_frame(data):
    data = bytes(data)
    n = len(data)
    head = b'\x00\x00\xff\xff\xff' + struct.pack('<H', n)
    head += bytes([(256 - sum(head[5:7])) & 255])
    return head + data + bytes([(256 - sum(data)) & 255, 0])


def rcs380_parse_command(frame):
    f = bytes(frame)
    if len(f) < 10 or f[:5] != b'\x00\x00\xff\xff\xff' or (f[5] + f[6] + f[7]) & 255:
        return None
    n = f[5] | f[6] << 8
    body, rest = f[8:8 + n], f[8 + n:]
    if len(body) != n or n < 2 or len(rest) != 2 or (sum(body) + rest[0]) & 255 or body[0] != 0xD6:
        return None
    return body[1], body[2:]


class Rcs380Sim(HostSimBase):
    TYPE = 'USB'
    manufacturer_name = 'SONY'
    product_name = 'RC-S380/P'
    STATUS8 = {0x00, 0x02, 0x06, 0x40, 0x42, 0x44, 0x2A}
    STATUS32 = {0x04: 0, 0x48: 3}      # command -> offset of the 32-bit status word in the payload

    def __init__(self, clock):
        HostSimBase.__init__(self, clock)
        self.comm_type = 11      # 106A as reported by TgCommRF

    def has_status(self, cmd):
        return cmd in self.STATUS8 or cmd in self.STATUS32

    def handle(self, cmd, data):
        if cmd in self.STATUS8:
            return b'\x00'
        if cmd == 0x20:
            return b'\x11\x01'
        if cmd == 0x22:
            return b'\x00\x01'
        if cmd == 0x04:
            rsp = self.remote(bytes(data[2:]))
            if rsp is None:
                return struct.pack('<L', 0x80) + b'\x00'          # receive timeout reported by the chip
            return b'\x00\x00\x00\x00\x08' + bytes(rsp)
        if cmd == 0x48:
            recv_timeout = struct.unpack('<H', data[31:33])[0] if len(data) >= 33 else 0
            if recv_timeout == 0:
                return bytes([self.comm_type, 0, 3]) + b'\x00\x00\x00\x00'
            nxt = self.next_initiator_cmd()
            if nxt is None:
                return bytes([self.comm_type, 0, 3]) + struct.pack('<L', 0x80)
            return bytes([self.comm_type, 0, 3]) + b'\x00\x00\x00\x00' + bytes(nxt)
        return b''

    def write(self, frame):
        if self.gone:
            raise ioerr(errno.ENODEV)
        f = bytes(frame)
        if f == ACK:
            self.queue = []
            return
        parsed = rcs380_parse_command(f)
        if parsed is None:
            self.bad_commands.append(f)
            self.queue = []
            return
        cmd, data = parsed
        idx = self.count
        self.count += 1
        self.trace.append((idx, cmd, self.has_status(cmd)))
        fault = self._fault_for(idx)
        kind = fault[0]
        if kind == 'gone':
            self.gone = True
            raise ioerr(errno.ENODEV)
        if kind == 'ioerror' and fault[2] == 'write':
            raise ioerr(fault[1])
        payload = self.handle(cmd, bytes(data))
        self.payload_lens[idx] = len(payload)
        if kind == 'timeout' and fault[1] == 'ack':
            self.queue = []
            return
        if kind == 'ioerror' and fault[2] == 'ack':
            self.queue = [ioerr(fault[1])]
            return
        q = [bytes(fault[1]) if kind == 'ackgarbled' else ACK]
        if kind == 'timeout':
            pass
        elif kind == 'ioerror':
            q.append(ioerr(fault[1]))
        elif kind == 'errframe':
            q.append(b'\x00\x00\xff\xff\xff')
        elif kind == 'status':
            off = self.STATUS32.get(cmd, 0)
            q.append(rcs380_frame(bytes([0xD7, cmd + 1]) + payload[:off] + bytes([fault[1]]) + payload[off + 1:]))
        elif kind == 'status32':
            off = self.STATUS32.get(cmd, 0)
            q.append(rcs380_frame(bytes([0xD7, cmd + 1]) + payload[:off] + struct.pack('<L', fault[1]) + payload[off + 4:]))
        elif kind == 'empty':
            q.append(rcs380_frame(bytes([0xD7, cmd + 1])))
        elif kind == 'payload':
            self.fault_payload, self.fault_cmd_data = payload[:fault[1]], bytes(data)
            q.append(rcs380_frame(bytes([0xD7, cmd + 1]) + payload[:fault[1]]))
        elif kind == 'short':
            q.append(rcs380_frame(bytes([0xD7, cmd + 1]) + payload)[:fault[1]])
        elif kind == 'garbled':
            q.append(bytes(fault[1]))
        else:
            q.append(rcs380_frame(bytes([0xD7, cmd + 1]) + payload))
        self.frame_lens[idx] = len(q[-1]) if isinstance(q[-1], bytes) else 0
        self.queue = q


# ------------------------------------------------------------------ UDP "air link"
class UdpSim(object):
    """stands in for the datagram socket of nfc.clf.udp.Device and for select.select.
    Every sendto / select+recvfrom pair is one 'host command' for fault counting.
    Faults: ('none',) ('timeout','rsp') ('ioerror', errno, 'write'|'rsp') ('gone',)
            ('garbled', datagram bytes) ('shortsend',) ('rfoff',)"""

    def __init__(self, clock):
        self.clock = clock
        self.peer = ('127.0.0.1', 54321)
        self.arm()
        self.remote = lambda brty, data: (brty, b'')
        self.closed = False

    def arm(self, index=None, fault=('none',)):
        self.inbox = []
        self.gone = False
        self.count = 0
        self.fault_at = index
        self.fault = fault
        self.trace = []
        self.fired = False
        self.pending = []      # datagrams the peer sends without being asked (target side)

    def _fault_for(self, idx):
        if self.fault_at is not None and idx == self.fault_at:
            self.fired = True
            return self.fault
        return ('none',)

    # socket API used by the driver
    def getsockname(self):
        return ('0.0.0.0', 40000)

    def bind(self, addr):
        pass

    def close(self):
        self.closed = True

    def fileno(self):
        return 3

    def sendto(self, data, addr):
        if self.gone:
            raise OSError(errno.EBADF, os.strerror(errno.EBADF))
        idx = self.count
        self.count += 1
        self.trace.append((idx, 'sendto', False))
        fault = self._fault_for(idx)
        if fault[0] == 'gone':
            self.gone = True
            raise OSError(errno.EBADF, os.strerror(errno.EBADF))
        if fault[0] == 'ioerror' and fault[2] == 'write':
            raise OSError(fault[1], os.strerror(fault[1]))
        if fault[0] == 'shortsend':
            return max(len(data) - 1, 0)
        parts = bytes(data).split()
        brty = parts[0].decode('ascii') if parts else ''
        payload = bytes.fromhex(parts[1].decode('ascii')) if len(parts) > 1 else b''
        ans = self.remote(brty, payload)
        if ans is not None:
            self.inbox.append(('%s %s' % (ans[0], bytes(ans[1]).hex())).strip().encode('ascii'))
        return len(data)

    def select(self, rlist, wlist, xlist, timeout=None):
        """installed as nfc.clf.udp.select.select"""
        if self.gone:
            raise OSError(errno.EBADF, os.strerror(errno.EBADF))
        if not self.inbox and self.pending:
            self.inbox.append(self.pending.pop(0))
        idx = self.count
        self.count += 1
        self.trace.append((idx, 'recv', False))
        fault = self._fault_for(idx)
        self._recv_fault = fault
        if fault[0] == 'gone':
            self.gone = True
            raise OSError(errno.EBADF, os.strerror(errno.EBADF))
        if fault[0] == 'timeout' or (fault[0] == 'none' and not self.inbox):
            self.inbox = []
            if timeout is None:
                # a blocking wait that never ends; reported to the harness instead of hanging
                raise WouldBlockForever('simulated select() would block forever')
            self.clock.wait(timeout + 0.001)
            return ([], [], [])
        return (list(rlist), [], [])

    def recvfrom(self, size):
        fault = getattr(self, '_recv_fault', ('none',))
        self._recv_fault = ('none',)
        if fault[0] == 'ioerror':
            raise OSError(fault[1], os.strerror(fault[1]))
        if fault[0] == 'garbled':
            self.inbox = []
            return bytes(fault[1]), self.peer
        if fault[0] == 'rfoff':
            self.inbox = []
            return b'RFOFF', self.peer
        data = self.inbox.pop(0) if self.inbox else b''
        return data, self.peer


class FakeSelectModule(object):
    def __init__(self, sim):
        self.sim = sim

    def select(self, r, w, x, timeout=None):
        return self.sim.select(r, w, x, timeout)


# ------------------------------------------------------------------ below transport.TTY / transport.USB
class FakeSerial(object):
    """a `serial.Serial` stand-in on top of a host simulator: the byte stream of a serial line.
    Installed as the `tty` attribute of a real nfc.clf.transport.TTY, so that the frame assembly
    in transport.py runs too."""

    def __init__(self, sim):
        self.sim = sim
        self.buf = bytearray()
        self.port = '/dev/ttyS0'
        self.baudrate = 115200
        self.timeout = 0.05

    def flushInput(self):
        self.buf = bytearray()

    def flushOutput(self):
        pass

    def close(self):
        self.sim.close()

    def write(self, data):
        self.buf = bytearray()
        self.sim.write(data)
        # everything the device answers is on the line, back to back
        while self.sim.queue and not isinstance(self.sim.queue[0], BaseException):
            self.buf += self.sim.queue.pop(0)
        return len(data)

    def readline(self):
        return b''

    def read(self, n=1):
        if self.sim.gone:
            raise ioerr(errno.ENODEV)
        if not self.buf:
            if self.sim.queue and isinstance(self.sim.queue[0], BaseException):
                raise self.sim.queue.pop(0)
            while self.sim.queue and not isinstance(self.sim.queue[0], BaseException):
                self.buf += self.sim.queue.pop(0)
        if not self.buf:
            self.sim.clock.wait(self.timeout or 0)
            return b''
        out = bytes(self.buf[:n])
        del self.buf[:n]
        if len(out) < n:
            self.sim.clock.wait(self.timeout or 0)      # the rest never arrives
        return out


class FakeEndpoint(object):
    def __init__(self, addr):
        self.addr = addr

    def getAddress(self):
        return self.addr

    def getMaxPacketSize(self):
        return 64


class FakeUsbDev(object):
    """a libusb device handle stand-in on top of a host simulator, for a real nfc.clf.transport.USB"""

    def __init__(self, sim, libusb):
        self.sim, self.libusb = sim, libusb

    def _translate(self, e):
        if e.errno == errno.ETIMEDOUT:
            return self.libusb.USBErrorTimeout()
        if e.errno == errno.ENODEV:
            return self.libusb.USBErrorNoDevice()
        if e.errno == errno.EPIPE:
            return self.libusb.USBErrorPipe()
        return self.libusb.USBErrorIO()

    def bulkRead(self, ep, size, timeout=0):
        try:
            return bytes(self.sim.read(timeout))
        except IOError as e:
            raise self._translate(e)

    def bulkWrite(self, ep, data, timeout=0):
        if len(data) == 0:
            return 0
        try:
            self.sim.write(data)
        except IOError as e:
            raise self._translate(e)
        return len(data)

    def close(self):
        self.sim.close()


# ------------------------------------------------------------------ scenario independent runt / garbled frames
def _prefixes(frame, upto=9):
    return [frame[:n] for n in range(0, min(upto, len(frame)) + 1)]


def runt_corpus(proto, cmd):
    """small fixed corpus of runt and inconsistent frames for host protocol `proto` in
    {'pn53x', 'rcs380', 'acr122'}; cmd is the command code the frame pretends to answer.
    Every prefix (0..9 bytes) of a valid extended and of a valid normal frame, extended start
    codes followed by one/two/three arbitrary bytes, LEN/LCS/DCS mismatches, zero-length frames."""
    rc = (cmd + 1) & 255
    H = bytes.fromhex
    out = []
    if proto in ('pn53x', 'rcs380'):
        tfi = 0xD5 if proto == 'pn53x' else 0xD7
        body = bytes([tfi, rc, 0, 1, 2])
        dcs = bytes([(256 - sum(body)) & 255])
        normal = b'\x00\x00\xff\x05\xfb' + body + dcs + b'\x00'
        ext_be = b'\x00\x00\xff\xff\xff\x00\x05\xfb' + body + dcs + b'\x00'      # PN53x: big endian length
        ext_le = b'\x00\x00\xff\xff\xff\x05\x00\xfb' + body + dcs + b'\x00'      # RC-S380: little endian length
        out += _prefixes(normal) + _prefixes(ext_be) + _prefixes(ext_le)
        # longer pieces could be completed to (or, RC-S380: taken for) a well-formed answer whose invented payload
        # makes no sense for the command; they carry a response code that can not match instead
        body = bytes([tfi, rc ^ 0x55, 0, 1, 2])
        dcs = bytes([(256 - sum(body)) & 255])
        normal = b'\x00\x00\xff\x05\xfb' + body + dcs + b'\x00'
        ext_be = b'\x00\x00\xff\xff\xff\x00\x05\xfb' + body + dcs + b'\x00'
        ext_le = b'\x00\x00\xff\xff\xff\x05\x00\xfb' + body + dcs + b'\x00'
        out += [normal[:-1], normal[:-2], ext_be[:-1], ext_be[:-2], ext_le[:-1], ext_le[:-3]]
        out += [b'\x00\x00\xff\xff\xff' + bytes([x]) for x in (0x00, 0x01, 0x7F, 0x80, 0xFE, 0xFF)]
        out += [b'\x00\x00\xff\xff\xff' + H(x) for x in ('0000', '0001', '0100', '01ff', 'ffff', '00ff',
                                                            '000000', '0001ff', '0100ff', '000100', 'ffff02', '0005fb')]
        # LEN / LCS / DCS inconsistencies
        out += [b'\x00\x00\xff\x05\xfa' + body + dcs + b'\x00', b'\x00\x00\xff\x04\xfc' + body + dcs + b'\x00',
                b'\x00\x00\xff\x06\xfa' + body + dcs + b'\x00', b'\x00\x00\xff\x05\xfb' + body + b'\x00\x00',
                b'\x00\x00\xff\xff\xff\x00\x05\xfa' + body + dcs + b'\x00', b'\x00\x00\xff\xff\xff\x00\x04\xfc' + body + dcs + b'\x00',
                b'\x00\x00\xff\xff\xff\x05\x00\xfa' + body + dcs + b'\x00', b'\x00\x00\xff\xff\xff\x04\x00\xfc' + body + dcs + b'\x00',
                b'\x00\x00\xff\xff\xff\xff\xff\x02' + body + dcs + b'\x00']
        # zero / one byte bodies, error frame, NAK, doubled ACK
        out += [H('0000ff000000'), H('0000ff00000000'), H('0000ffffff0000000000'), H('0000ffffff000000'),
                H('0000ff01ff7f8100'), H('0000ff01ff7f81'), H('0000ff01ffd52b00'), H('0000ff01ffd72900'),
                H('0000ffffff0001ffd52b00'), H('0000ffffff0100ffd72900'), H('0000ffff0000'),
                H('0000ff00ff000000ff00ff00'), H('ff'), H('00ff'), H('ffffffffffff'), bytes(6), bytes(7), bytes(16)]
    else:
        apdu = bytes([0xD5, rc, 0, 1, 2, 0x90, 0x00])
        good = b'\x80' + struct.pack('<I', len(apdu)) + bytes(5) + apdu
        out += _prefixes(good, 13)
        rc = rc ^ 0x55          # see above: complete envelopes carry a response code that can not match
        apdu = bytes([0xD5, rc, 0, 1, 2, 0x90, 0x00])
        good = b'\x80' + struct.pack('<I', len(apdu)) + bytes(5) + apdu
        out += [good[:-1], good[:-2], good + b'\x00']
        out += [b'\x80' + struct.pack('<I', n) + bytes(5) + apdu for n in (0, 1, 6, 8, 0xFFFFFFFF)]
        out += [b'\x81' + good[1:], b'\x80' + struct.pack('<I', 0) + bytes(5), b'\x80' + struct.pack('<I', 2) + bytes(5) + b'\x90\x00',
                b'\x80' + struct.pack('<I', 3) + bytes(5) + b'\xd5\x90\x00', b'\x80' + struct.pack('<I', 4) + bytes(5) + bytes([0xD5, rc, 0x90, 0x00]),
                b'\x80' + struct.pack('<I', 2) + bytes(5) + b'\x63\x00', bytes(10), bytes(9), b'\xff' * 10]
    seen, uniq = set(), []
    for f in out:
        if f not in seen:
            seen.add(f)
            uniq.append(f)
    return uniq
