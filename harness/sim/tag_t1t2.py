"""Byte-accurate simulated Type 2 and Type 1 tags behind a fake `clf` (environment, not model).

A simulated tag keeps the full memory image, answers the command set the nfcpy tag classes
emit, logs every accepted state-changing command with its address range (old bytes, requested
bytes, resulting bytes), keeps lock/OTP bytes one-way (bits only go 0 -> 1), ignores writes to
read-only bytes, and can be *cut*: after the k-th state-changing command every later command
times out (the tag has left the field).

  tag  = T2TSim(mem)            # or T1TSim(hr0, mem)
  clf  = FakeClf(tag)
  obj  = activate(clf)          # nfc.tag.activate on a RemoteTarget built from the tag
"""
import nfc.clf
import nfc.tag


class Cut(Exception):
    pass


class SimTag(object):
    def __init__(self):
        self.log = []            # (addr, old, requested, result) per accepted state-changing command
        self.cut_after = None    # power cut after this many state-changing commands
        self.dead = False
        self.ncmd = 0            # all commands received (state-changing or not)
        self.mute = False        # went mute on an unsupported command; needs sense()

    def is_write(self, data):
        """is this a state-changing command (WRITE of either tag type)"""
        data = bytes(data)
        if isinstance(self, T2TSim):
            return len(data) == 6 and data[0] == 0xA2 and not self.pending_sector
        return (len(data) == 7 and data[0] in (0x53, 0x1A)) or (len(data) == 14 and data[0] in (0x54, 0x1B))

    def changing(self):
        """called before a state-changing command is executed: power budget"""
        if self.cut_after is not None and len(self.log) >= self.cut_after:
            self.dead = True
            raise nfc.clf.TimeoutError("tag left the field")

    def store(self, addr, data):
        """store with read-only and one-way byte semantics; logs the command"""
        old = bytes(self.mem[addr:addr + len(data)])
        for i, b in enumerate(data):
            a = addr + i
            if a in self.readonly:
                continue
            if a in self.oneway:
                self.mem[a] |= b
            else:
                self.mem[a] = b
        self.log.append((addr, old, bytes(data), bytes(self.mem[addr:addr + len(data)])))


class T2TSim(SimTag):
    """NFC Forum Type 2 Tag: READ (30h, 16 bytes, roll-over at the end of memory), WRITE (A2h),
    SECTOR SELECT (C2h FFh + passive ack) when more than 256 pages."""

    def __init__(self, mem, oneway=(), uid=None, version=None):
        SimTag.__init__(self)
        assert len(mem) % 4 == 0 and len(mem) >= 16
        self.version = version   # None: plain tag (unknown commands mute it); bytes: answer to GET_VERSION (60h),
        #                          b'\x00' = NAK to GET_VERSION as NTAG203 does
        self.mem = bytearray(mem)
        self.npages = len(mem) // 4
        self.readonly = set(range(0, 10))
        self.oneway = set(range(10, 16)) | set(oneway)
        self.sector = 0
        self.pending_sector = False
        self.uid = bytes(uid) if uid else bytes(self.mem[0:3] + self.mem[4:8])

    def target(self):
        t = nfc.clf.RemoteTarget("106A")
        t.sens_res = bytearray(b"\x44\x00")
        t.sel_res = bytearray(b"\x00")
        t.sdd_res = bytearray(self.uid)
        return t

    def command(self, data):
        data = bytes(data)
        self.ncmd += 1
        if self.dead or self.mute:
            raise nfc.clf.TimeoutError("no response")
        if self.pending_sector:
            self.pending_sector = False
            if len(data) == 4 and data[0] * 256 < self.npages:
                self.sector = data[0]
                raise nfc.clf.TimeoutError("passive ack")
            return bytearray(b"\x00")
        if len(data) == 2 and data[0] == 0x30:
            page = self.sector * 256 + data[1]
            if page >= self.npages:
                return bytearray(b"\x00")
            rsp = bytearray()
            for p in range(page, page + 4):
                p %= self.npages
                rsp += self.mem[4 * p:4 * p + 4]
            return rsp
        if len(data) == 6 and data[0] == 0xA2:
            page = self.sector * 256 + data[1]
            if page >= self.npages:
                return bytearray(b"\x00")
            self.changing()
            self.store(4 * page, data[2:6])
            return bytearray(b"\x0A")
        if self.version is not None and data == b"\x60":
            return bytearray(self.version)
        if self.version is not None and data == b"\x1A\x00":
            return bytearray(b"\x00")
        if data == b"\xC2\xFF":
            if self.npages > 256:
                self.pending_sector = True
                return bytearray(b"\x0A")
            return bytearray(b"\x00")
        self.mute = True
        raise nfc.clf.TimeoutError("unsupported command")


class T1TSim(SimTag):
    """NFC Forum Type 1 Tag (Topaz): RID, RALL, READ, WRITE-E, WRITE-NE for static memory and
    RSEG, READ8, WRITE-E8, WRITE-NE8 for dynamic memory (HR0 = 12h)."""

    def __init__(self, hr, mem, oneway=()):
        SimTag.__init__(self)
        self.hr = bytes(hr)
        self.dynamic = (self.hr[0] >> 4 == 1) and (self.hr[0] & 15 != 1)
        assert len(mem) == 120 or (self.dynamic and len(mem) % 128 == 0 and len(mem) >= 256)
        self.mem = bytearray(mem)
        self.readonly = set(range(0, 8)) | set(range(104, 112)) | (set(range(122, 128)) if self.dynamic else set())
        self.oneway = set(range(112, 120)) | ({120, 121} if self.dynamic else set()) | set(oneway)
        self.uid = bytes(self.mem[0:4])

    def target(self):
        t = nfc.clf.RemoteTarget("106A")
        t.sens_res = bytearray(b"\x00\x0C")
        t.rid_res = bytearray(self.hr + self.uid)
        return t

    def command(self, data):
        data = bytes(data)
        self.ncmd += 1
        if self.dead:
            raise nfc.clf.TimeoutError("no response")
        c = data[0]
        if c == 0x78 and len(data) == 7:
            return bytearray(self.hr + self.uid)
        if len(data) == 7 and data[3:7] == self.uid:
            if c == 0x00:
                return bytearray(self.hr) + self.mem[0:120]
            addr = data[1]
            if addr >= min(len(self.mem), 128):
                raise nfc.clf.TimeoutError("no such byte")
            if c == 0x01:
                return bytearray([addr, self.mem[addr]])
            if c in (0x53, 0x1A):
                self.changing()
                if c == 0x53:
                    self.store(addr, data[2:3])
                else:
                    self.store(addr, bytes([self.mem[addr] | data[2]]))
                return bytearray([addr, self.mem[addr]])
        if len(data) == 14 and data[10:14] == self.uid and self.dynamic:
            if c == 0x10:
                seg = data[1] >> 4
                if 128 * seg >= len(self.mem):
                    raise nfc.clf.TimeoutError("no such segment")
                return bytearray([data[1]]) + self.mem[128 * seg:128 * seg + 128]
            blk = data[1]
            if 8 * blk >= len(self.mem):
                raise nfc.clf.TimeoutError("no such block")
            if c == 0x02:
                return bytearray([blk]) + self.mem[8 * blk:8 * blk + 8]
            if c in (0x54, 0x1B):
                self.changing()
                if c == 0x54:
                    self.store(8 * blk, data[2:10])
                else:
                    self.store(8 * blk, bytes(a | b for a, b in zip(self.mem[8 * blk:8 * blk + 8], data[2:10])))
                return bytearray([blk]) + self.mem[8 * blk:8 * blk + 8]
        raise nfc.clf.TimeoutError("unsupported command")


class FakeClf(object):
    """what a tag object needs of a ContactlessFrontend: exchange() and sense().

    A *transient fault* can be armed with fault(k, kind, executed): the k-th state-changing command the tag
    would execute from now on (k = 1: the next one) fails `tries` times in a row with the given
    nfc.clf.CommunicationError subclass - either lost on the way to the tag (executed=False) or executed
    by the tag with only the response lost (executed=True); afterwards the tag answers again."""

    def __init__(self, tag):
        self.tag = tag
        self._fault = None
        self._ss = None           # armed SECTOR SELECT fault
        self._ss_seq = 0          # SECTOR SELECT sequences seen (packet 1 retries belong to one sequence)
        self._ss_retrying = False
        self.watch = None         # tag object whose _current_sector is compared with the tag's real sector
        self.sector_desync = None  # first READ/WRITE sent while the library's sector differed from the tag's

    def fault_ss(self, n, packet, kind):
        """the n-th SECTOR SELECT sequence from now fails at packet 1 or 2: kind 'timeout' (packet 1 only), 'transmission',
        'protocol' (garbled answer: the tag did not act on the packet) or 'nak'.  Packet 1 fails for all 3 tries."""
        self._ss = dict(at=self._ss_seq + n, packet=packet, kind=kind, left=(1 if kind == 'nak' or packet == 2 else 3))

    def _ss_raise(self, kind):
        if kind == 'nak':
            return bytearray(b"\x00")
        raise {'timeout': nfc.clf.TimeoutError, 'transmission': nfc.clf.TransmissionError,
               'protocol': nfc.clf.ProtocolError}[kind]("sector select fault")

    def fault(self, k, kind=nfc.clf.TimeoutError, executed=False, tries=3):
        self._fault = dict(at=len(self.tag.log) + k, kind=kind, executed=executed, left=tries, done=False)

    def exchange(self, data, timeout):
        d = bytes(data)
        if self.watch is not None and self.sector_desync is None and len(d) >= 2 and d[0] in (0x30, 0xA2) \
                and not getattr(self.tag, 'pending_sector', False) and not self.tag.dead:
            if self.watch._current_sector != self.tag.sector:
                self.sector_desync = (self.watch._current_sector, self.tag.sector, d[:2].hex())
        if isinstance(self.tag, T2TSim) and not self.tag.dead:
            if d == b"\xC2\xFF" and not self.tag.pending_sector:
                if not self._ss_retrying:
                    self._ss_seq += 1
                s = self._ss
                if s is not None and s['at'] == self._ss_seq and s['packet'] == 1:
                    s['left'] -= 1
                    self._ss_retrying = s['left'] > 0
                    if s['left'] <= 0:
                        self._ss = None
                    return self._ss_raise(s['kind'])
                self._ss_retrying = False
            elif self.tag.pending_sector and len(d) == 4:
                s = self._ss
                if s is not None and s['at'] == self._ss_seq and s['packet'] == 2:
                    self.tag.pending_sector = False       # the tag did not understand the packet and leaves the sequence
                    self._ss = None
                    return self._ss_raise(s['kind'])
            else:
                self._ss_retrying = False
        f = self._fault
        if f is not None and not self.tag.dead and self.tag.is_write(data):
            nxt = len(self.tag.log) + (0 if f['done'] else 1)
            if nxt == f['at']:
                if f['executed'] and not f['done']:
                    try:
                        self.tag.command(data)
                    except nfc.clf.CommunicationError:
                        pass
                    f['done'] = len(self.tag.log) >= f['at']
                f['left'] -= 1
                if f['left'] <= 0:
                    self._fault = None
                raise f['kind']("transient fault")
        return self.tag.command(data)

    def sense(self, *targets, **kw):
        if self.tag.dead:
            return None
        self.tag.mute = False
        if hasattr(self.tag, 'pending_sector'):
            self.tag.pending_sector = False
        return targets[0] if targets else None


class FakeDevice(object):
    """the least a real nfc.clf.ContactlessFrontend needs of its device: the simulated tag is the only thing in the field"""

    def __init__(self, inner):
        self.inner = inner        # FakeClf: fault injection, sector watch

    def mute(self):
        pass

    def close(self):
        pass

    def sense_tta(self, target):
        return self.inner.sense(target)

    def send_cmd_recv_rsp(self, target, data, timeout):
        return self.inner.exchange(data, timeout)

    def get_max_send_data_size(self, target):
        return 290

    def get_max_recv_data_size(self, target):
        return 290


REAL_FRONTEND = [False]    # harness switch: put a real ContactlessFrontend (exchange(), sense()) between tag object and simulated tag


def activate(clf):
    """a new tag object through nfc.tag.activate, as clf.connect() would create it"""
    if REAL_FRONTEND[0]:
        front = nfc.clf.ContactlessFrontend()
        front.device = FakeDevice(clf)
        front.target = clf.tag.target()
        return nfc.tag.activate(front, front.target)
    return nfc.tag.activate(clf, clf.tag.target())


def fresh(sim_class, *args, **kw):
    """a fresh session over a copy of the memory: new simulated tag, new clf, new tag object"""
    sim = sim_class(*args, **kw)
    clf = FakeClf(sim)
    return activate(clf), sim
