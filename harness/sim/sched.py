"""Deterministic cooperative scheduler substituting `threading` (and `time`) in nfcpy modules.

Environment, not model.  The object returned by `Sched.threading` is installed as the
`threading` attribute of nfc.llcp.tco / nfc.llcp.llc / nfc.snep.server / nfc.handover.server
(module attribute rebinding from the harness, `install()`); `Sched.time` as their `time`.

* Threads stay real OS threads but run strictly one at a time: a thread runs only while it holds
  the token the driver (`Sched.run`, executed by the uncontrolled main thread) handed to it, and
  hands it back at the next *yield point*.
* Yield points: before `Lock/RLock.acquire`, after the final `release`, `Condition.wait` (which
  releases the lock completely and blocks until notified / timed out), after `Thread.start`,
  `Thread.join`, `time.sleep`, and explicit `Sched.point()` calls of the simulated peer.  The code
  between two yield points of a thread is one atomic *step*.
* A schedule is the list of thread ids chosen at each step.  The choice is made by a `chooser`
  (default policy: keep running the current thread while it is enabled, otherwise the enabled
  thread with the lowest id; `Deviations` overrides single steps; `RandomChooser` draws from a
  seeded generator).
* Deadlock = no enabled thread while some thread is not finished; `run()` returns the list of those
  threads (with what each is blocked on).  Afterwards `shutdown()` unwinds the blocked OS threads
  with a BaseException so that nothing leaks into the next run.
* Virtual time: `time.time()` is a counter; `time.sleep(d)` advances it and is a yield point;
  `wait(timeout)`/`join(timeout)` get a deadline on that clock; when nothing is enabled the
  clock jumps to the earliest deadline.
* `Condition.notify(n)` wakes the n longest-waiting threads (what CPython does); no spurious
  wake-ups.
"""
import threading as _real
import collections

NEW, RUN, ACQ, WAIT, JOIN, DONE = 'new', 'run', 'acq', 'wait', 'join', 'done'


class Abort(BaseException):
    """raised inside controlled threads to unwind them when a run is torn down"""


class _Rec(object):
    def __init__(self, tid, name):
        self.id = tid
        self.name = name
        self.state = NEW
        self.on = None            # lock / condition / thread the thread is blocked on
        self.deadline = None
        self.notified = False
        self.timedout = False
        self.saved = None         # (lock, count) to restore after wait
        self.resume = _real.Semaphore(0)
        self.exc = None
        self.thread = None
        self.steps = 0

    def __repr__(self):
        return 'T%d:%s[%s %s]' % (self.id, self.name, self.state, getattr(self.on, 'label', ''))


class SLock(object):
    reentrant = False

    def __init__(self, sched):
        self.s = sched
        self.owner = None
        self.count = 0
        sched._nobj += 1
        self.label = '%s%d' % ('rlock' if self.reentrant else 'lock', sched._nobj)

    def _free_for(self, rec):
        return self.owner is None or (self.reentrant and self.owner is rec)

    def acquire(self, blocking=True, timeout=-1):
        s = self.s
        me = s._me()
        if me is None or s.aborting:
            if self.owner is None or self.owner is me or s.aborting:
                self.owner, self.count = me, self.count + 1
                return True
            raise RuntimeError('uncontrolled thread would block on ' + self.label)
        if self.reentrant and self.owner is me:
            self.count += 1
            return True
        if not blocking:
            s._yield(me, RUN, None)
            if self.owner is None:
                self.owner, self.count = me, 1
                s._log(me, 'acq', self)
                return True
            return False
        if self.owner is me:
            raise RuntimeError('self deadlock on non re-entrant ' + self.label)
        dl = None if (timeout is None or timeout < 0) else s.clock + timeout
        s._yield(me, ACQ, self, dl)
        if me.timedout:
            return False
        assert self.owner is None
        self.owner, self.count = me, 1
        s._log(me, 'acq', self)
        return True

    def release(self):
        s = self.s
        me = s._me()
        if s.aborting:
            return
        if self.owner is not me:
            raise RuntimeError('release of un-acquired ' + self.label)
        self.count -= 1
        if self.count == 0:
            if me is not None:
                s._log(me, 'rel', self)
            self.owner = None
            if me is not None:
                s._yield(me, RUN, None)

    __enter__ = acquire

    def __exit__(self, *a):
        self.release()

    def locked(self):
        return self.owner is not None

    # used by SCondition
    def _release_save(self):
        c = self.count
        self.owner, self.count = None, 0
        return c

    def _acquire_restore(self, me, c):
        self.owner, self.count = me, c


class SRLock(SLock):
    reentrant = True


class SCondition(object):
    def __init__(self, sched, lock=None):
        self.s = sched
        self.lock = lock if lock is not None else SRLock(sched)
        self.waiters = collections.deque()
        sched._nobj += 1
        self.label = 'cond%d' % sched._nobj
        self.acquire = self.lock.acquire
        self.release = self.lock.release

    def __enter__(self):
        return self.lock.acquire()

    def __exit__(self, *a):
        self.lock.release()

    def wait(self, timeout=None):
        s = self.s
        me = s._me()
        if s.aborting:
            raise Abort()
        if me is None:
            raise RuntimeError('uncontrolled thread would wait on ' + self.label)
        if self.lock.owner is not me:
            raise RuntimeError('cannot wait on un-acquired lock')
        s._log(me, 'wait', self)
        self.waiters.append(me)
        me.notified = False
        me.saved = (self.lock, self.lock._release_save())
        dl = None if timeout is None else s.clock + max(0, timeout)
        try:
            s._yield(me, WAIT, self, dl)
        finally:
            if me in self.waiters:
                self.waiters.remove(me)
        # enabledness guaranteed that the lock is free
        assert self.lock.owner is None
        self.lock._acquire_restore(me, me.saved[1])
        me.saved = None
        s._log(me, 'woken' if me.notified else 'timeout', self)
        return me.notified

    def wait_for(self, predicate, timeout=None):
        end = None if timeout is None else self.s.clock + timeout
        r = predicate()
        while not r:
            if end is not None:
                left = end - self.s.clock
                if left <= 0:
                    break
                self.wait(left)
            else:
                self.wait()
            r = predicate()
        return r

    def notify(self, n=1):
        s = self.s
        me = s._me()
        if s.aborting:
            return
        if self.lock.owner is not me:
            raise RuntimeError('cannot notify on un-acquired lock')
        k = 0
        while self.waiters and k < n:
            w = self.waiters.popleft()
            w.notified = True
            k += 1
        if me is not None:
            s._log(me, 'notify', self, k)

    def notify_all(self):
        self.notify(len(self.waiters) + 1)

    notifyAll = notify_all


class SEvent(object):
    def __init__(self, sched):
        self.c = SCondition(sched, SLock(sched))
        self.flag = False

    def is_set(self):
        return self.flag

    def set(self):
        with self.c:
            self.flag = True
            self.c.notify_all()

    def clear(self):
        with self.c:
            self.flag = False

    def wait(self, timeout=None):
        with self.c:
            if not self.flag:
                self.c.wait(timeout)
            return self.flag


class DefaultChooser(object):
    """non pre-emptive: keep the current thread while enabled, else lowest id"""

    def choose(self, step, cur, enabled):
        if cur is not None and cur in enabled:
            return cur
        return enabled[0]


class Deviations(DefaultChooser):
    """default policy except at the given steps: {step index: thread id}"""

    def __init__(self, dev):
        self.dev = dict(dev)

    def choose(self, step, cur, enabled):
        want = self.dev.get(step)
        if want is not None:
            for t in enabled:
                if t.id == want:
                    return t
        return DefaultChooser.choose(self, step, cur, enabled)


class RandomChooser(object):
    """switch with probability p at each step (seeded)"""

    def __init__(self, rng, p=0.25):
        self.rng, self.p = rng, p

    def choose(self, step, cur, enabled):
        if cur is not None and cur in enabled and self.rng.random() >= self.p:
            return cur
        return enabled[self.rng.randrange(len(enabled))]


class Replay(DefaultChooser):
    """replay a recorded list of thread ids"""

    def __init__(self, ids):
        self.ids = list(ids)

    def choose(self, step, cur, enabled):
        if step < len(self.ids):
            for t in enabled:
                if t.id == self.ids[step]:
                    return t
        return DefaultChooser.choose(self, step, cur, enabled)


class Sched(object):
    def __init__(self, chooser=None, max_steps=5000):
        self.chooser = chooser or DefaultChooser()
        self.max_steps = max_steps
        self.recs = []
        self.by_ident = {}
        self.cur = None
        self.clock = 0.0
        self.back = _real.Semaphore(0)
        self.aborting = False
        self.schedule = []          # chosen thread id per step
        self.enabled_log = []       # ids enabled at each step (for systematic exploration)
        self.log = []               # (step, tid, op, label, extra)
        self.step = 0
        self.livelock = False
        self.hook = None            # observer for the correspondence (see _log)
        self._nobj = 0
        self.threading = _ThreadingModule(self)
        self.time = _TimeModule(self)

    # ------------------------------------------------------------ thread side
    def _me(self):
        return self.by_ident.get(_real.get_ident())

    def _log(self, me, op, obj, extra=None):
        self.log.append((self.step, me.id, op, getattr(obj, 'label', obj), extra))
        if self.hook is not None and op in ('acq', 'rel', 'wait', 'woken', 'timeout', 'notify'):
            # called in the context of the thread that performs the operation: after an outermost
            # acquire / re-acquire, before the final release, before wait() gives the lock up
            self.hook(me, op, obj, extra)

    def note(self, op, what=None, extra=None):
        """harness / simulated peer adds an event for the calling controlled thread"""
        me = self._me()
        if me is not None and not self.aborting:
            self.log.append((self.step, me.id, op, what, extra))

    def _yield(self, me, state, on, deadline=None):
        me.state, me.on, me.deadline, me.timedout = state, on, deadline, False
        self.back.release()
        me.resume.acquire()
        if self.aborting:
            raise Abort()
        me.state, me.on = RUN, None

    def point(self, what=None):
        """explicit yield point (simulated peer, harness code)"""
        me = self._me()
        if me is None:
            return
        if self.aborting:
            raise Abort()
        if what is not None:
            self._log(me, 'point', what)
        self._yield(me, RUN, None)

    def sleep(self, d):
        self.clock += max(0.0, d)
        self.point()

    # ------------------------------------------------------------ threads
    def spawn(self, fn, name=None, args=()):
        t = self.threading.Thread(target=fn, name=name, args=args)
        t.start()
        return t._sched_rec

    def _register(self, thread):
        rec = _Rec(len(self.recs), thread.name)
        rec.thread = thread
        self.recs.append(rec)
        thread._sched_rec = rec
        return rec

    def _entry(self, rec):
        self.by_ident[_real.get_ident()] = rec
        rec.resume.acquire()
        if self.aborting:
            raise Abort()
        rec.state = RUN

    def _exit(self, rec):
        rec.state, rec.on = DONE, None
        if not self.aborting:
            self.back.release()

    # ------------------------------------------------------------ driver side
    def _enabled(self, r):
        if r.state in (NEW, RUN):
            return True
        if r.state == ACQ:
            return r.on._free_for(r) or (r.deadline is not None and self.clock >= r.deadline)
        if r.state == WAIT:
            lock = r.saved[0]
            return (r.notified or (r.deadline is not None and self.clock >= r.deadline)) and lock.owner is None
        if r.state == JOIN:
            return r.on.state == DONE or (r.deadline is not None and self.clock >= r.deadline)
        return False

    def run(self):
        """run until every thread is finished or nothing is enabled.  Returns the list of
        unfinished threads (deadlock witnesses); [] when all finished."""
        while True:
            en = [r for r in self.recs if r.state != DONE and self._enabled(r)]
            if not en:
                dls = [r.deadline for r in self.recs
                       if r.state in (ACQ, WAIT, JOIN) and r.deadline is not None and r.deadline > self.clock]
                if dls:
                    self.clock = min(dls)
                    continue
                break
            if self.step >= self.max_steps:
                self.livelock = True
                break
            t = self.chooser.choose(self.step, self.cur, en)
            self.schedule.append(t.id)
            self.enabled_log.append([r.id for r in en])
            if t.state in (ACQ, WAIT, JOIN) and t.deadline is not None and self.clock >= t.deadline:
                if t.state == ACQ and not t.on._free_for(t):
                    t.timedout = True
                elif t.state == JOIN and t.on.state != DONE:
                    t.timedout = True
            self.cur = t
            t.steps += 1
            t.resume.release()
            self.back.acquire()
            self.step += 1
        return [r for r in self.recs if r.state != DONE]

    def shutdown(self):
        """unwind every unfinished controlled thread"""
        self.aborting = True
        for r in self.recs:
            if r.state != DONE:
                r.resume.release()
        for r in self.recs:
            if r.thread is not None and r.thread.ident is not None:
                _real.Thread.join(r.thread, 5.0)

    def describe(self, r):
        return {'thread': r.name, 'id': r.id, 'state': r.state, 'on': getattr(r.on, 'label', None)}


def _make_thread_class(sched):
    class SThread(_real.Thread):
        """also usable as `SThread.__init__(obj, ...)` on instances of classes that were derived
        from the real threading.Thread before the substitution (SnepServer, HandoverServer)"""

        def __init__(self, *a, **kw):
            _real.Thread.__init__(self, *a, **kw)
            self.daemon = True
            self._sched_rec = None
            inst = self
            orig_run = self.run

            def run():
                rec = inst._sched_rec
                try:
                    sched._entry(rec)
                    orig_run()
                except Abort:
                    pass
                except BaseException as e:  # noqa: recorded, the monitor decides
                    rec.exc = e
                finally:
                    sched._exit(rec)

            def start():
                rec = sched._register(inst)
                me = sched._me()
                _real.Thread.start(inst)
                if me is not None and not sched.aborting:
                    sched._log(me, 'start', rec.name)
                    sched._yield(me, RUN, None)

            def join(timeout=None):
                rec = inst._sched_rec
                me = sched._me()
                if me is None or sched.aborting:
                    return _real.Thread.join(inst, timeout)
                dl = None if timeout is None else sched.clock + timeout
                sched._yield(me, JOIN, rec, dl)

            self.run, self.start, self.join = run, start, join

    return SThread


class _ThreadingModule(object):
    """what the nfcpy modules see as `threading`"""

    def __init__(self, sched):
        self._s = sched
        self.Thread = _make_thread_class(sched)
        self.TIMEOUT_MAX = _real.TIMEOUT_MAX

    def Lock(self):
        return SLock(self._s)

    def RLock(self):
        return SRLock(self._s)

    def Condition(self, lock=None):
        return SCondition(self._s, lock)

    def Event(self):
        return SEvent(self._s)

    def current_thread(self):
        return _real.current_thread()

    currentThread = current_thread

    def get_ident(self):
        return _real.get_ident()

    def active_count(self):
        return _real.active_count()

    def enumerate(self):
        return _real.enumerate()


class _TimeModule(object):
    """what the nfcpy modules see as `time`"""

    def __init__(self, sched):
        self._s = sched

    def time(self):
        return self._s.clock

    monotonic = time

    def sleep(self, d):
        self._s.sleep(d)


class install(object):
    """context manager: rebind `threading` / `time` in the given modules to the scheduler's"""

    def __init__(self, sched, modules):
        self.sched, self.modules, self.saved = sched, modules, []

    def __enter__(self):
        for m in self.modules:
            self.saved.append((m, getattr(m, 'threading', None), getattr(m, 'time', None)))
            if hasattr(m, 'threading'):
                m.threading = self.sched.threading
            if hasattr(m, 'time'):
                m.time = self.sched.time
        return self.sched

    def __exit__(self, *a):
        for m, th, tm in self.saved:
            if th is not None:
                m.threading = th
            if tm is not None:
                m.time = tm
