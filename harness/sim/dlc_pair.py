"""Two REAL nfc.llcp.tco.DataLinkConnection objects joined by two FIFO wires (environment for C05).

The connection is set up by the real CONNECT / CC handshake (listen + accept on one side,
connect on the other; every PDU goes through pdu.encode / pdu.decode), single-threaded: the CC
is placed in the connecting socket's receive queue before connect() is called, so that
connect() finds it without blocking.

After that the pair is driven by one op per call (same textual ops as extract/c05_run.ml):
    send X <hex>      X.send(msg, MSG_DONTWAIT)
    recv X            if X.poll("recv", 0): X.recv()
    busy X 0|1        X.setsockopt(SO_RCVBSY, b)
    pollacks X        X.poll("acks", 0)
    deq X miu icv     p = X.dequeue(miu, icv); if p: wire(X->other).append(encode(p))
    ack X             p = X.sendack();          if p: wire(X->other).append(encode(p))
    deliver X         if wire(other->X): X.enqueue(decode(wire.popleft()))
    collect X miu     p = X.dequeue(miu, 0) or X.sendack(); if p: wire(X->other).append(encode(p))
                      (llc.collect() without aggregation; LlcPair calls the real llc.collect())
    inject X <pdu>    wire(X->other).append(encode(<pdu>))        (fault injection)
op() returns (out, state) strings in the format of the model driver (without the ghost part).
An exception of the implementation that is not the documented nfc.llcp.Error of the call (nor the
RuntimeError guard of recv, which is in the model) is caught, reported as `<op> crash <Class>` and
remembered in .crashed; the caller records it as a violation and abandons the history.
Every PDU that crosses is reported to an optional observer (the monitor).
"""
import collections

import nfc.llcp
import nfc.llcp.pdu as pdu
import nfc.llcp.tco as tco
from nfc.llcp.err import Error as LlcpError

ADDR = {'A': 32, 'B': 16}


def other(sd):
    return 'B' if sd == 'A' else 'A'


def pdu_str(p):
    if p.name == 'I':
        return 'I:%d:%d:%s' % (p.ns, p.nr, bytes(p.data).hex() or '-')
    if p.name == 'RR':
        return 'RR:%d' % p.nr
    if p.name == 'RNR':
        return 'RNR:%d' % p.nr
    if p.name == 'FRMR':
        return 'FRMR:%d:%d:%d:%d:%d:%d:%d:%d' % (p.rej_flags, p.rej_ptype, p.ns, p.nr, p.vs, p.vr, p.vsa, p.vra)
    return '%s:%s' % (p.name, pdu.encode(p).hex())


def pdu_from_str(s, dsap, ssap):
    f = s.split(':')
    if f[0] == 'I':
        return pdu.Information(dsap, ssap, int(f[1]), int(f[2]), bytes.fromhex('' if f[3] == '-' else f[3]))
    if f[0] == 'RR':
        return pdu.ReceiveReady(dsap, ssap, int(f[1]))
    if f[0] == 'RNR':
        return pdu.ReceiveNotReady(dsap, ssap, int(f[1]))
    if f[0] == 'FRMR':
        return pdu.FrameReject(dsap, ssap, *[int(x) for x in f[1:]])
    raise ValueError(s)


class Pair(object):
    crashed = None      # (exception class name, op, message) of the first undocumented exception raised by the implementation

    def __init__(self, rwa, miua, rwb, miub, observer=None):
        self.observer = observer
        self.cfg = (rwa, miua, rwb, miub)
        a = tco.DataLinkConnection(128, 1)
        a.setsockopt(nfc.llcp.SO_RCVMIU, miua)
        a.setsockopt(nfc.llcp.SO_RCVBUF, rwa)
        a.bind(ADDR['A'])
        srv = tco.DataLinkConnection(128, 1)
        srv.setsockopt(nfc.llcp.SO_RCVMIU, miub)
        srv.setsockopt(nfc.llcp.SO_RCVBUF, rwb)
        srv.bind(ADDR['B'])
        srv.listen(1)
        # the CONNECT that a.connect() is going to produce (checked below)
        conn = pdu.Connect(ADDR['B'], ADDR['A'], a.recv_miu, a.recv_win)
        srv.enqueue(pdu.decode(pdu.encode(conn)))
        b = srv.accept()
        cc = srv.dequeue(2175, 0)
        assert cc is not None and cc.name == 'CC', cc
        a.recv_queue.append(pdu.decode(pdu.encode(cc)))
        a.connect(ADDR['B'])
        sent_conn = a.dequeue(2175, 0)
        assert sent_conn is not None and pdu.encode(sent_conn) == pdu.encode(conn), sent_conn
        assert a.state.ESTABLISHED and b.state.ESTABLISHED
        assert len(a.send_queue) == 0 and len(a.recv_queue) == 0 and len(b.send_queue) == 0 and len(b.recv_queue) == 0
        self.ep = {'A': a, 'B': b}
        self.wire = {'A': collections.deque(), 'B': collections.deque()}   # outgoing wire of the side

    # ------------------------------------------------------------------ state
    def ep_state(self, sd):
        x = self.ep[sd]
        return '%d %d %d %d %d %d %d %d%d%d %d %d' % (
            1 if x.state.ESTABLISHED else 0, x.send_cnt, x.send_ack, x.recv_cnt, x.recv_ack, x.recv_confs, x.acks_recvd,
            1 if x.mode.RECV_BUSY else 0, 1 if x.mode.RECV_BUSY_SENT else 0, 1 if x.mode.SEND_BUSY else 0,
            len(x.send_queue), len(x.recv_queue))

    def state(self):
        return '%s | %s | %d %d' % (self.ep_state('A'), self.ep_state('B'), len(self.wire['A']), len(self.wire['B']))

    # ------------------------------------------------------------------ ops
    def _emit(self, sd, p):
        if p is None:
            return 'pdu none'
        raw = pdu.encode(p)
        self.wire[sd].append(raw)
        s = pdu_str(pdu.decode(raw))
        if self.observer:
            self.observer.emitted(sd, s)
        return 'pdu ' + s

    # primitives (overridden by LlcPair)
    def _send(self, sd, m):
        return self.ep[sd].send(m, nfc.llcp.MSG_DONTWAIT)

    def _poll(self, sd, event):
        return self.ep[sd].poll(event, 0)

    def _recv(self, sd):
        return self.ep[sd].recv()

    def _setbusy(self, sd, b):
        self.ep[sd].setsockopt(nfc.llcp.SO_RCVBSY, b)

    def _enqueue(self, sd, p):
        self.ep[sd].enqueue(p)

    def _collect(self, sd, miu):
        # what llc.collect() does for one data link connection without aggregation
        x = self.ep[sd]
        p = x.dequeue(miu, 0)
        if p is None:
            p = x.sendack()
        return self._emit(sd, p)

    def op(self, line):
        w = line.split()
        cmd, sd = w[0], w[1]
        x = self.ep[sd]
        try:
            if cmd == 'send':
                m = bytes.fromhex('' if w[2] == '-' else w[2])
                r = self._send(sd, m)
                out = 'send ok ' + ('true' if r is True else 'false')
                if self.observer and r is True:
                    self.observer.accepted(sd, m)
            elif cmd == 'recv':
                if self._poll(sd, 'recv'):
                    m = self._recv(sd)
                    if m is None:
                        out = 'recv ok none'
                    else:
                        out = 'recv ok msg ' + (bytes(m).hex() or '-')
                        if self.observer:
                            self.observer.returned(sd, bytes(m))
                else:
                    out = 'recv ok none'
            elif cmd == 'busy':
                self._setbusy(sd, w[2] == '1')
                out = 'unit'
            elif cmd == 'pollacks':
                out = 'poll ok ' + ('true' if self._poll(sd, 'acks') else 'false')
            elif cmd == 'deq':
                out = self._emit(sd, x.dequeue(int(w[2]), int(w[3])))
            elif cmd == 'ack':
                out = self._emit(sd, x.sendack())
            elif cmd == 'deliver':
                src = other(sd)
                if self.wire[src]:
                    p = pdu.decode(self.wire[src].popleft())
                    s = pdu_str(p)
                    before = (x.state.ESTABLISHED, x.recv_cnt, len(x.recv_queue), len(x.send_queue),
                              x.send_queue[0].name if x.send_queue else None)
                    self._enqueue(sd, p)
                    # classify what enqueue did from observable state (for comparison with the model's result)
                    if not before[0]:
                        res = 'ignored'
                    elif p.name == 'FRMR':
                        res = 'shutdown'
                    elif p.name in ('RR', 'RNR'):
                        res = 'ack'
                    elif p.name == 'I':
                        if x.recv_cnt != before[1]:
                            res = 'accepted' if len(x.recv_queue) == before[2] + 1 else 'discarded'
                        elif x.send_queue and x.send_queue[0].name == 'FRMR' and len(x.send_queue) == 1:
                            res = 'rejected'
                        else:
                            res = 'unknown'
                    else:
                        res = 'other'
                    out = 'deliver %s %s' % (s, res)
                    if self.observer:
                        self.observer.delivered(sd, s, res)
                else:
                    out = 'deliver none'
            elif cmd == 'collect':
                out = self._collect(sd, int(w[2]))
            elif cmd == 'inject':
                p = pdu_from_str(w[2], ADDR[other(sd)], ADDR[sd])
                self.wire[sd].append(pdu.encode(p))
                out = 'inject'
            else:
                raise ValueError(line)
        except LlcpError as e:
            out = '%s err LlcpError:%d' % ({'pollacks': 'poll'}.get(cmd, cmd), e.errno)
        except RuntimeError as e:
            if cmd == 'recv':          # the documented "recv_confs > recv_win" guard of DataLinkConnection.recv (in the model)
                out = '%s err RuntimeError' % cmd
                if self.observer:
                    self.observer.runtime_error(sd, cmd)
            else:
                self.crashed = (type(e).__name__, cmd, str(e)[:200])
                out = '%s crash %s' % (cmd, type(e).__name__)
        except Exception as e:     # anything else is not a documented outcome of the call
            self.crashed = (type(e).__name__, cmd, str(e)[:200])
            out = '%s crash %s' % (cmd, type(e).__name__)
        try:
            st = self.state()
        except Exception as e:
            self.crashed = self.crashed or (type(e).__name__, 'state', str(e)[:200])
            st = '?'
        return out, st


class LlcPair(Pair):
    """Same interface, but the two sockets live in two real LogicalLinkControllers: the application
    calls go through llc.send / poll / recv / setsockopt, PDUs are produced by llc.collect() and
    consumed by llc.dispatch().  The connection is set up by the real CONNECT / CC exchange moved by
    dispatch() / collect().  `collect X miu` ignores miu (the LLC uses its own link MIU, which the
    caller passes to the model).  With aggregation an AGF is unpacked onto the wire PDU by PDU."""

    def __init__(self, rwa, miua, rwb, miub, link_miu_a, link_miu_b, agf=(False, False), observer=None):
        import nfc.llcp.llc as L
        self.observer = observer
        la = L.LogicalLinkController(miu=link_miu_a, agf=agf[0], sec=False)
        lb = L.LogicalLinkController(miu=link_miu_b, agf=agf[1], sec=False)
        la.cfg['send-miu'], lb.cfg['send-miu'] = link_miu_b, link_miu_a
        la.cfg['send-agf'], lb.cfg['send-agf'] = agf[0], agf[1]
        a = la.socket(L.DATA_LINK_CONNECTION)
        la.setsockopt(a, nfc.llcp.SO_RCVMIU, miua)
        la.setsockopt(a, nfc.llcp.SO_RCVBUF, rwa)
        la.bind(a)
        srv = lb.socket(L.DATA_LINK_CONNECTION)
        lb.setsockopt(srv, nfc.llcp.SO_RCVMIU, miub)
        lb.setsockopt(srv, nfc.llcp.SO_RCVBUF, rwb)
        lb.bind(srv, b'urn:nfc:sn:verif')
        lb.listen(srv, 1)
        conn = pdu.Connect(srv.addr, a.addr, a.recv_miu, a.recv_win)
        lb.dispatch(pdu.decode(pdu.encode(conn)))
        b = lb.accept(srv)
        cc = lb.collect()
        assert cc is not None and cc.name == 'CC', cc
        a.recv_queue.append(pdu.decode(pdu.encode(cc)))
        la.connect(a, srv.addr)
        c2 = la.collect()
        assert c2 is not None and pdu.encode(c2) == pdu.encode(conn), c2
        assert a.state.ESTABLISHED and b.state.ESTABLISHED
        self.llc = {'A': la, 'B': lb}
        self.ep = {'A': a, 'B': b}
        self.cfg = (a.recv_win, a.recv_miu, b.recv_win, b.recv_miu)      # what the two sockets really negotiated
        self.link_miu = {'A': la.cfg['send-miu'], 'B': lb.cfg['send-miu']}
        self.wire = {'A': collections.deque(), 'B': collections.deque()}

    def _send(self, sd, m):
        return self.llc[sd].send(self.ep[sd], m, nfc.llcp.MSG_DONTWAIT)

    def _poll(self, sd, event):
        return self.llc[sd].poll(self.ep[sd], event, 0)

    def _recv(self, sd):
        return self.llc[sd].recv(self.ep[sd])

    def _setbusy(self, sd, b):
        self.llc[sd].setsockopt(self.ep[sd], nfc.llcp.SO_RCVBSY, b)

    def _enqueue(self, sd, p):
        self.llc[sd].dispatch(p)

    def _collect(self, sd, miu):
        p = self.llc[sd].collect()
        if p is not None and p.name == 'AGF':
            inner = list(pdu.decode(pdu.encode(p)))
            return 'agf ' + ' '.join(self._emit(sd, q)[4:] for q in inner)
        return self._emit(sd, p)
