"""C19 - Peer-to-peer activation negotiates limits both sides then obey.

Obligations: Props/C19.v (miu / lto / wks / lsc agreement of the LLCP parameters carried in the
general bytes, NFC-DEP payload limit from the peer's LR with DID/NAD overhead, bit rate, RWT).
Correspondence: two real stacks - LogicalLinkController.activate(mac=nfc.dep.Initiator) and
LogicalLinkController.activate(mac=nfc.dep.Target) - activated against each other over
harness/sim/air.py, compared with the extracted model Model/Negotiate.v: the ATR_REQ / ATR_RES /
PSL_REQ / PSL_RES frames and every parameter both stacks hold afterwards; plus the kernels
(ATR lr, PSL dsi/dri/lr, LTO normalisation) and the take-over of arbitrary general bytes.
Monitor (from the property text): what A holds as sending limit equals what B holds as its own
receiving parameter (MIU, LTO, WKS, LSC), the NFC-DEP payload limit follows the peer's LR value with
the DID/NAD overhead, the bit rate is the selected one on both sides and on every later frame, RWT is
the same on both sides, later traffic stays within LR.
"""
import itertools
import logging
import threading
import time

from common import Check

import nfc.clf
import nfc.dep
import nfc.llcp
import nfc.llcp.llc
import nfc.llcp.pdu
from sim import air

logging.disable(logging.CRITICAL)

LR = (64, 128, 192, 254)
BRTY = ('106A', '212F', '424F')


def hexs(b):
    return bytes(b).hex() if b is not None and len(b) else '-'


def clamp(lo, hi, x):
    return min(max(lo, x), hi)


def fz(x):
    return '-' if x is None else str(x)


def make_llc(o):
    llc = nfc.llcp.llc.LogicalLinkController(miu=o['miu'], lto=o['lto'], lsc=o['lsc'], agf=o.get('agf', True))
    llc.cfg['llcp-sec'] = bool(o['sec'])       # (OpenSSL may be absent on the host; the flag only selects the DPC bit here)
    for i, sap in enumerate(o['saps']):
        if sap != 1:
            llc.snl[b'urn:nfc:sn:svc%d' % i] = sap
    return llc


def saps_of(llc):
    return list(llc.snl.values())


def lopt_args(o, llc):
    return '%d %d %d %d %s' % (o['miu'], o['lto'], o['lsc'], 1 if o['sec'] else 0,
                               ','.join(str(s) for s in saps_of(llc)) or '-')


def cfg_line(ok, llc):
    if ok != 'ok 1':
        return '0 0 0 0 0 0 0'
    c = llc.cfg
    v = c['rcvd-ver']
    return '1 %d %d %d %d %d %d' % (c['send-miu'], c['recv-lto'], c['send-wks'], c['send-lsc'], c['llcp-dpc'], v[0] * 16 + v[1])


def wt_of(rwt):
    """exponent of a response waiting time value"""
    for wt in range(0, 16):
        if rwt == 4096 / 13.56E6 * 2 ** wt:
            return wt
    return -1


class RecMac(object):
    """stands in for the NFC-DEP layer below an activated LogicalLinkController: records what llc.exchange hands to
    the MAC layer and answers with a SYMM PDU"""

    def __init__(self):
        self.sent = []

    def exchange(self, data, timeout):
        self.sent.append(None if data is None else bytes(data))
        return bytearray(b'\x00\x00')


REPLAY_PATTERN = []      # set by --replay: only this (kinds, sizes) pattern


def llcp_patterns(m, rng, quick):
    """payload sizes (octets) for PDUs pending on 3..6 service access points in the SAME collect round, relative to the
    negotiated send MIU m: subsets fit into one aggregated frame, the total does not (or just does).  Inside an AGF
    a UI PDU of p octets costs 2 (length) + 2 (header) + p, an I PDU 2 + 3 + p."""
    if REPLAY_PATTERN:
        return list(REPLAY_PATTERN)

    def cost(kind, p):
        return (4 if kind == 'u' else 5) + p
    pats = []
    h = max(1, (m - 14) // 2 - 3)
    pats.append(('uuu', [10, h, h]))                                   # each of the last two fits alone, not both
    pats.append(('uiu', [10, h, max(1, h - 1)]))
    a = max(1, m // 3 - 5)
    for tot in (m - 1, m, m + 1, m + 2, m + 3):                        # exact totals around the MIU
        c = tot - 2 * cost('u', a) - 4
        if 1 <= c <= m:
            pats.append(('uuu', [a, a, c]))
    c = m + 1 - cost('u', a) - cost('i', a) - 4
    if 1 <= c <= m:
        pats.append(('iuu', [a, a, c]))
    q = max(1, m // 4 - 4)
    pats.append(('uuuu', [q, q, q, max(1, m + 2 - 3 * (q + 4) - 4)]))
    pats.append(('uuiuu', [1, max(1, m // 3), max(1, m // 3), max(1, m // 3), 1]))
    pats.append(('uuuuuu', [max(1, m // 2), max(1, m // 2 - 6), 1, max(1, m // 3), 1, max(1, m - 3 - 2)]))
    pats.append(('uiu', [max(1, m - 3 - rng.randrange(0, 5)), max(1, m // 2), 1]))
    # connection set-up PDUs behind a UI that leaves only a few octets: c = listening socket with a pending CC (after accept),
    # n = CONNECT by service name
    for r in (rng.randrange(0, 8), 9, 12):
        pats.append(('uc', [max(1, m - 4 - 2 - r), 0]))
        pats.append(('un', [max(1, m - 4 - 2 - r - 20), 0]))
    pats.append(('ucnu', [max(1, m // 2), 0, 0, max(1, m // 2 - 20)]))
    for _ in range(1 if quick else 4):
        n = rng.randrange(3, 7)
        kinds = ''.join(rng.choice('uuui') for _ in range(n))
        if 'i' not in kinds and rng.random() < 0.5:
            kinds = 'i' + kinds[1:]
        if kinds.count('i') > 1:
            kinds = kinds.replace('i', 'u', kinds.count('i') - 1)
        pats.append((kinds, [max(1, min(m, rng.choice([1, m // 3, m // 2, m - 3 - rng.randrange(0, 6), (m - 20) // 2, m // 4]))) for _ in range(n)]))
    return [(k, [min(x, m) for x in sz]) for k, sz in pats]


def llcp_traffic(llc, kinds, sizes):
    """queue one PDU per service access point (kinds: u = logical data link socket, i = connection-mode socket brought
    up by a dispatched CONNECT and accept()), then run collect() / exchange() until nothing is pending; returns the
    frames handed to the MAC layer.  The sockets are dropped from the SAP table afterwards."""
    DONTWAIT = nfc.llcp.MSG_DONTWAIT
    mac = RecMac()
    llc.mac = mac
    try:
        conns = []
        for i, k in enumerate(kinds):
            if k == 'i':
                ls = llc.socket(nfc.llcp.DATA_LINK_CONNECTION)
                llc.bind(ls, 40 + i)
                llc.listen(ls, 1)
                llc.dispatch(nfc.llcp.pdu.Connect(40 + i, 33 + i, 2175, 2))
                conns.append((i, llc.accept(ls)))
        while True:                        # the CC PDUs go out first (they are judged as well)
            p = llc.collect()
            if p is None:
                break
            llc.exchange(p, 0.1)
        npre = len(mac.sent)
        waiting = []
        for i, k in enumerate(kinds):
            if k == 'u':
                s = llc.socket(nfc.llcp.LOGICAL_DATA_LINK)
                llc.bind(s, 40 + i)
                llc.sendto(s, sizes[i] * b'\xa5', 16 + i, DONTWAIT)
            elif k == 'c':                 # CONNECT received, accept(): the CC waits in the listening socket
                ls = llc.socket(nfc.llcp.DATA_LINK_CONNECTION)
                llc.bind(ls, 40 + i)
                llc.listen(ls, 1)
                llc.dispatch(nfc.llcp.pdu.Connect(40 + i, 33 + i, 2175, 2))
                llc.accept(ls)
            elif k == 'n':                 # connect() by service name: the CONNECT PDU waits, the caller blocks until the answer
                cs = llc.socket(nfc.llcp.DATA_LINK_CONNECTION)
                llc.bind(cs, 40 + i)
                th = threading.Thread(target=_try_connect, args=(llc, cs, b'urn:nfc:sn:a-service-with-a-long-name'), daemon=True)
                th.start()
                for _ in range(2000):
                    if len(cs.send_queue):
                        break
                    time.sleep(0.0005)
                waiting.append((cs, th))
        for i, c in conns:
            llc.send(c, min(sizes[i], c.send_miu) * b'\x5a', DONTWAIT)
        rounds = 0
        while rounds < 64:
            rounds += 1
            p = llc.collect()
            if p is None:
                break
            llc.exchange(p, 0.1)
        return mac.sent, npre
    finally:
        for cs, th in locals().get('waiting', []):       # refuse the connection so that the connect() call returns
            try:
                llc.dispatch(nfc.llcp.pdu.DisconnectedMode(cs.addr, 1, 2))
            except Exception:  # noqa
                pass
            th.join(2.0)
        for addr in range(16, 64):
            llc.sap[addr] = None
        llc.mac = None


def _try_connect(llc, sock, name):
    try:
        llc.connect(sock, name)
    except Exception:  # noqa: refused at the end of the round
        pass


def main():
    ck = Check('C19')
    ck.trusted = ['Coq 8.16.1 kernel', 'extraction: ExtrOcamlBasic only; extract/c19_run.ml driver',
                  'translate/kspec_c19.py (expression translator for the lr / dsi / dri / wt properties, the option clamps, the '
                  'PP octets, the self.miu assignments and the send-lto normalisation)',
                  'harness/sim/air.py: fake clf objects; TgtClf.listen plays the device driver on the target side '
                  '(ATR_RES / PSL_RES, bit rate switch) after nfc.clf.rcs380; IniClf.sense offers one passive target']
    ck.assumptions = ['the response waiting time is represented by its exponent (both sides evaluate 4096/13.56E6 * 2**wt)',
                      'valid options: miu 128..2175 (LLCP MIUX is 11 bits), lsc 0..3, DID absent or 1..14; other values are '
                      'modelled and compared but agreement is not demanded of them',
                      'active communication mode and discovery are outside the model (the peer is found in passive mode)']
    ck.coq(gen=['Negotiate'], targets=['Model/Negotiate.vo', 'Proofs/Negotiate.vo', 'Bridge/Negotiate.vo'], props='C19')
    mr = ck.model()
    if mr is None:
        ck.finish()
    rng = ck.rng
    quick = ck.tier == 'quick'

    lines, impl, meta = [], [], []
    last_objs = [None, None, None, None]

    def run(brty0, dep_i, dep_t, oa, ob, kind, via_connect=False, a=None, b=None, ini=None, tgt=None, hist=None):
        """a / b / ini / tgt: objects that went through earlier activations (hist: their description); whatever the
        history, the activation is compared with the model and judged like a first one"""
        if via_connect:
            return run_connect(brty0, dep_i, dep_t, oa, ob, kind)
        def viol(key, what, data):
            ck.violation(('reactivated:' if hist else '') + key, ('after re-activation of the same objects: ' if hist else '') + what, data)
        a = make_llc(oa) if a is None else a
        b = make_llc(ob) if b is None else b
        # what either application configured (the cfg entry 'send-lsc' holds the REMOTE value after an activation)
        a_lsc, b_lsc = oa['lsc'], ob['lsc']
        a_lto, b_lto = a.cfg['send-lto'], b.cfg['send-lto']
        a_wks = 1 + sum(1 << s for s in saps_of(a) if s < 15)
        b_wks = 1 + sum(1 << s for s in saps_of(b) if s < 15)
        # one NFC-DEP exchange with an LLCP PDU of the negotiated maximum size in each direction
        sizes = [(oa['probe'], ob['probe'])]
        o = air.p2p(brty0, dep_i, dep_t, a, b, sizes, ini=ini, tgt=tgt)
        link = o['link']
        ini, tgt = link.ini, link.tgt
        case = {'brty0': brty0, 'dep_i': dep_i, 'dep_t': dep_t, 'llc_a': {k: v for k, v in oa.items()}, 'llc_b': {k: v for k, v in ob.items()}}
        if hist:
            case['history'] = hist
        last_objs[:] = [a, b, ini, tgt]
        # ---- canonical observation of the implementation
        nact = o.get('n_act', len(o['frames']))
        id3 = air.FakeOs.urandom(10) if brty0 == '106A' else air.SENSF_RES[1:9] + b'ST'
        id3t = bytes.fromhex('01fe') + air.FakeOs.urandom(6) + b'ST'
        both = o.get('a_ok') == 'ok 1' and o.get('b_ok') == 'ok 1'
        if o.get('a_ok') == 'ok 1' and o.get('b_ok') in ('ok 1', 'ok 0'):
            tline = '-'
            if o['b_ok'] == 'ok 1':
                tline = '%d %d %s %d %s' % (tgt.miu, wt_of(tgt.rwt), fz(tgt.did), BRTY.index(tgt.target.brty), hexs(tgt.gbi))
            im = 'ok frames=%s | I: %d %d %s %s %d %s | T: %s | A: %s | B: %s' % (
                ';'.join(f[1] for f in o['frames'][:nact]),
                ini.miu, wt_of(ini.rwt_real), fz(ini.did), fz(ini.nad), BRTY.index(ini.target.brty), hexs(ini.gbt),
                tline, cfg_line(o['a_ok'], a), cfg_line(o['b_ok'], b))
        else:
            im = o.get('a_ok', '?') if o.get('a_ok') != 'ok 1' else o.get('b_ok', '?')
        lines.append('neg %d %d %d %s %s %d %d %s %s %s %s' % (
            BRTY.index(brty0), dep_i.get('brs', 2), dep_i.get('lri', 3), fz(dep_i.get('did')), fz(dep_i.get('nad')),
            dep_t.get('lrt', 3), dep_t.get('rwt', 8), lopt_args(oa, a), lopt_args(ob, b), id3.hex(), id3t.hex()))
        impl.append(im)
        meta.append((kind, case))
        ck.case((brty0, sorted(dep_i.items(), key=str), sorted(dep_t.items(), key=str), sorted(oa.items(), key=str), sorted(ob.items(), key=str)),
                True, {'kind': kind, 'brty0': brty0, 'dep_i': dep_i, 'dep_t': dep_t, 'miu': (oa['miu'], ob['miu']), 'lto': (oa['lto'], ob['lto'])})
        ck.count(kind)

        # ---- monitor -------------------------------------------------------------------------
        did, nad = dep_i.get('did'), dep_i.get('nad')
        valid_dep = (did is None or 1 <= did <= 14) and (nad is None or 0 <= nad <= 255)

        def valid_llc(x):
            return 128 <= x['miu'] <= 2175 and 0 <= x['lsc'] <= 3 and x['lto'] >= 0 and all(0 <= s < 64 for s in x['saps'])
        if not (valid_dep and valid_llc(oa) and valid_llc(ob)):
            return
        if not both:
            viol('activation-failed', 'activation with valid options failed: %s / %s' % (o.get('a_ok'), o.get('b_ok')), case)
            return
        for (x, xo, y, yo, y_lsc, y_lto, y_wks, nm) in ((a, oa, b, ob, b_lsc, b_lto, b_wks, 'initiator'),
                                                        (b, ob, a, oa, a_lsc, a_lto, a_wks, 'target')):
            if x.cfg['send-miu'] != y.cfg['recv-miu']:
                viol('miu-mismatch', '%s holds send-miu %d, the peer holds recv-miu %d' % (nm, x.cfg['send-miu'], y.cfg['recv-miu']), case)
            if x.cfg['recv-lto'] != y.cfg['send-lto']:
                cls = 'above-2550' if yo['lto'] > 2559 else ('not-multiple-of-10' if yo['lto'] % 10 else 'other')
                viol('lto-mismatch:' + cls, '%s holds recv-lto %d ms, the peer holds (and was configured with) send-lto %d ms'
                             % (nm, x.cfg['recv-lto'], y.cfg['send-lto']), case)
            if x.cfg['send-wks'] != y_wks:
                viol('wks-mismatch', '%s holds service list %04x, the peer offers %04x' % (nm, x.cfg['send-wks'], y_wks), case)
            if x.cfg['send-lsc'] != y_lsc:
                viol('lsc-mismatch', '%s holds link service class %d, the peer announced %d' % (nm, x.cfg['send-lsc'], y_lsc), case)
        lri, lrt = clamp(0, 3, dep_i.get('lri', 3)), clamp(0, 3, dep_t.get('lrt', 3))
        ov = (did is not None) + (nad is not None)
        if ini.miu + 3 + ov != LR[lrt]:
            viol('dep-miu:initiator', 'initiator payload limit %d + overhead %d does not follow the target LR %d' % (ini.miu, 3 + ov, LR[lrt]), case)
        if tgt.miu + 3 + (did is not None) != LR[lri]:
            viol('dep-miu:target:did=%s' % (did is not None), 'target payload limit %d + overhead %d does not follow the initiator LR %d'
                         % (tgt.miu, 3 + (did is not None), LR[lri]), case)
        brs = clamp(0, 2, dep_i.get('brs', 2))
        exp_brty = BRTY[max(brs, BRTY.index(brty0))]
        # ... in every attribute a driver tunes from: brty, brty_send and brty_recv of the RemoteTarget / LocalTarget objects
        for who, tg in (('initiator', ini.target), ('target', tgt.target)):
            # (LocalTarget has no separate properties: its brty reads 'send/recv' when the two differ)
            got = (tg.brty, getattr(tg, 'brty_send', None) or getattr(tg, '_brty_send', tg.brty), getattr(tg, 'brty_recv', None) or getattr(tg, '_brty_recv', tg.brty))
            if got != (exp_brty, exp_brty, exp_brty):
                viol('brty-attributes:' + who, '%s target object holds brty / brty_send / brty_recv = %s / %s / %s, selected %s'
                     % ((who,) + got + (exp_brty,)), case)
        if ini.target.brty != exp_brty or tgt.target.brty != exp_brty:
            viol('brty-mismatch', 'bit rate after activation: initiator %s, target %s, selected %s' % (ini.target.brty, tgt.target.brty, exp_brty), case)
        exp_rwt = 4096 / 13.56E6 * 2 ** clamp(0, 14, dep_t.get('rwt', 8))
        if ini.rwt_real != tgt.rwt or tgt.rwt != exp_rwt:
            viol('rwt-mismatch', 'response waiting time: initiator %r, target %r, announced %r' % (ini.rwt_real, tgt.rwt, exp_rwt), case)
        # all later traffic stays within those limits
        for d, h, fate, btx, brx, rnd in o['frames'][nact:]:
            n = len(h) // 2 - 1 - (1 if btx == '106A' else 0)
            lim = LR[lrt] if d == 'I' else LR[lri]
            if n > lim:
                viol('traffic-lr-exceeded:%s:did=%s' % (d, did is not None), 'frame of %d transport bytes exceeds LR %d of its receiver' % (n, lim), case)
            if btx != exp_brty or brx != exp_brty or (h[:2] == 'f0') != (exp_brty == '106A'):
                viol('traffic-brty', 'frame sent at %s / received at %s, selected %s' % (btx, brx, exp_brty), case)
        if o['ini'] != ['ok %d' % ob['probe']] or o['tgt'][:1] != ['ok %d' % oa['probe']]:
            viol('traffic-failed:%s' % ((o['ini'] + o['tgt'] + ['?'])[0].split()[-1] if not o['ini'] or not o['ini'][0].startswith('ok') else 'target'),
                         'an exchange of maximum size LLCP PDUs after activation failed: %s / %s' % (o['ini'], o['tgt']), case)
        # ... also at the LLCP layer: PDUs pending on several service access points in the same collect round; every frame
        # handed to the MAC layer has an information field within the MIU the peer announced in this configuration
        for x, y, xo, nm in ((a, b, oa, 'initiator'), (b, a, ob, 'target')):
            peer_miu = y.cfg['recv-miu']
            for kinds, szs in llcp_patterns(x.cfg['send-miu'], rng, quick):
                try:
                    frames, npre = llcp_traffic(x, kinds, szs)
                except Exception as e:  # noqa
                    viol('llcp-traffic-error:' + type(e).__name__, 'LLCP traffic after activation raised %r' % e,
                                 dict(case, side=nm, kinds=kinds, sizes=szs))
                    break
                ck.count('llcp-traffic')
                ck.cov['evaluations'] += 1
                for f in frames:
                    if f is not None and len(f) - 2 > peer_miu:
                        viol('llcp-traffic-miu-exceeded:agf=%s' % bool(xo['agf']),
                                     '%s sent an LLCP frame with an information field of %d octets, the peer announced MIU %d '
                                     '(PDUs of %s octets pending on %d service access points, kinds %s)'
                                     % (nm, len(f) - 2, peer_miu, szs, len(szs), kinds),
                                     dict(case, side=nm, kinds=kinds, sizes=szs, frame_len=len(f)))
                if sum(1 for f in frames[npre:] if f is not None) == 0:
                    viol('llcp-traffic-nothing-sent', '%s: nothing was sent although PDUs were pending' % nm,
                                 dict(case, side=nm, kinds=kinds, sizes=szs))

    def run_connect(brty0, dep_i, dep_t, oa, ob, kind):
        """the same activation through ContactlessFrontend.connect(llcp=...) / _llcp_connect: only the options
        brs, acm, rwt, lrt, lri reach the NFC-DEP layer (DID / NAD cannot be given this way)"""
        def setup(o):
            def f(llc):
                llc.cfg['llcp-sec'] = bool(o['sec'])
                for i, sap in enumerate(o['saps']):
                    if sap != 1:
                        llc.snl[b'urn:nfc:sn:svc%d' % i] = sap
            return f
        opts_a = dict(role='initiator', miu=oa['miu'], lto=oa['lto'], lsc=oa['lsc'], agf=oa['agf'], **dep_i)
        opts_b = dict(role='target', miu=ob['miu'], lto=ob['lto'], lsc=ob['lsc'], agf=ob['agf'], **dep_t)
        # both option sets may carry the other role's keys as well, as an application passing one dictionary would
        o = air.p2p_connect(brty0, opts_a, opts_b, setup(oa), setup(ob), [(oa['probe'], ob['probe'])])
        case = {'via': 'connect', 'brty0': brty0, 'llcp_a': {k: v for k, v in opts_a.items()}, 'llcp_b': {k: v for k, v in opts_b.items()}}
        ck.case(('connect', brty0, sorted(opts_a.items(), key=str), sorted(opts_b.items(), key=str), oa['saps'], ob['saps'], oa['sec'], ob['sec']), True)
        ck.count(kind)
        if o.get('a_ok') != 'ok 1' or o.get('b_ok') != 'ok 1':
            im = o.get('a_ok', '?') if o.get('a_ok') != 'ok 1' else o.get('b_ok', '?')
            a = b = None
        else:
            a, b = o['llc_a'], o['llc_b']
            ini, tgt = a.mac, b.mac
            im = 'ok frames=%s | I: %d %d %s %s %d %s | T: %d %d %s %d %s | A: %s | B: %s' % (
                ';'.join(f[1] for f in o['frames'][:o['n_act']]),
                ini.miu, wt_of(ini.rwt), fz(ini.did), fz(ini.nad), BRTY.index(ini.target.brty), hexs(ini.gbt),
                tgt.miu, wt_of(tgt.rwt), fz(tgt.did), BRTY.index(tgt.target.brty), hexs(tgt.gbi),
                cfg_line('ok 1', a), cfg_line('ok 1', b))
        id3 = air.FakeOs.urandom(10) if brty0 == '106A' else air.SENSF_RES[1:9] + b'ST'
        id3t = bytes.fromhex('01fe') + air.FakeOs.urandom(6) + b'ST'
        sa = ','.join(str(x) for x in ([1] + [x for x in oa['saps'] if x != 1])) or '-'
        sb = ','.join(str(x) for x in ([1] + [x for x in ob['saps'] if x != 1])) or '-'
        lines.append('neg %d %d %d - - %d %d %d %d %d %d %s %d %d %d %d %s %s %s' % (
            BRTY.index(brty0), dep_i.get('brs', 2), dep_i.get('lri', 3), dep_t.get('lrt', 3), dep_t.get('rwt', 8),
            oa['miu'], oa['lto'], oa['lsc'], 1 if oa['sec'] else 0, sa, ob['miu'], ob['lto'], ob['lsc'], 1 if ob['sec'] else 0, sb,
            id3.hex(), id3t.hex()))
        impl.append(im)
        meta.append((kind, case))
        if a is None:
            if 128 <= oa['miu'] <= 2175 and 128 <= ob['miu'] <= 2175:
                ck.violation('connect-failed', 'connect(llcp=...) with valid options failed: %s / %s' % (o.get('a_ok'), o.get('b_ok')), case)
            return
        # the options given to connect() are the ones in force
        exp_brty = BRTY[max(clamp(0, 2, dep_i.get('brs', 2)), BRTY.index(brty0))]
        if a.mac.target.brty != exp_brty or b.mac.target.brty != exp_brty:
            ck.violation('connect-brs-not-passed', 'bit rate %s / %s after connect(brs=%s)' % (a.mac.target.brty, b.mac.target.brty, dep_i.get('brs')), case)
        if a.mac.miu + 3 != LR[clamp(0, 3, dep_t.get('lrt', 3))] or b.mac.miu + 3 != LR[clamp(0, 3, dep_i.get('lri', 3))]:
            ck.violation('connect-lr-not-passed', 'payload limits %d / %d after connect(lri=%s) / connect(lrt=%s)'
                         % (a.mac.miu, b.mac.miu, dep_i.get('lri'), dep_t.get('lrt')), case)
        if b.mac.rwt != 4096 / 13.56E6 * 2 ** clamp(0, 14, dep_t.get('rwt', 8)) or a.mac.rwt != b.mac.rwt:
            ck.violation('connect-rwt-not-passed', 'rwt %r / %r after connect(rwt=%s)' % (a.mac.rwt, b.mac.rwt, dep_t.get('rwt')), case)
        if a.cfg['recv-miu'] != oa['miu'] or b.cfg['recv-miu'] != ob['miu'] or a.cfg['send-agf'] != oa['agf'] or b.cfg['send-agf'] != ob['agf']:
            ck.violation('connect-llc-options-not-passed', 'LLC options miu/agf not in force after connect()', case)

    def history(steps, kind='history'):
        """successive activations of the SAME LogicalLinkController X (options ox) - and of its nfc.dep Initiator / Target
        objects whenever it takes the same role again - against fresh peers with other parameters, in the given roles"""
        X = xi = xt = None
        hist = []
        for st in steps:
            ox, oy = dict(st['ox']), dict(st['oy'])
            if st['role'] == 'I':
                probes(ox, oy)
                run(st['brty0'], st['dep_i'], st['dep_t'], ox, oy, kind, a=X, ini=xi, hist=list(hist))
                X, xi = last_objs[0], last_objs[2]
            else:
                probes(oy, ox)
                run(st['brty0'], st['dep_i'], st['dep_t'], oy, ox, kind, b=X, tgt=xt, hist=list(hist))
                X, xt = last_objs[1], last_objs[3]
            hist.append({k: st[k] for k in ('role', 'brty0', 'dep_i', 'dep_t', 'ox', 'oy')})

    def flush():
        if not lines:
            return
        out = mr.run(lines)
        nmis = 0
        for line, im, got, (kind, case) in zip(lines, impl, out, meta):
            if got != im:
                nmis += 1
                if nmis <= 5:
                    a, b = im.split(' | '), got.split(' | ')
                    ck.correspondence_mismatch('activation:' + kind, {'case': case, 'differences_impl_model': [(x[:200], y[:200]) for x, y in zip(a, b) if x != y] or [(im[:200], got[:200])]})
        ck.cov['traces_validated_against_impl'] = ck.cov.get('traces_validated_against_impl', 0) + len(lines) - nmis
        del lines[:], impl[:], meta[:]

    MIUS = [127, 128, 129, 247, 248, 249, 1023, 2174, 2175, 2176]
    LTOS = [10, 100, 105, 500, 2550, 2560]

    def llc_opts(miu=None, lto=None, lsc=None, sec=None, saps=None, agf=None):
        o = {'miu': rng.choice(MIUS + [128, 248, 2175, 1500]) if miu is None else miu,
             'lto': rng.choice(LTOS + [0, 9, 1000, 2559, 3000, 99, 101]) if lto is None else lto,
             'lsc': rng.choice([0, 1, 2, 3, 3]) if lsc is None else lsc,
             'sec': rng.random() < 0.5 if sec is None else sec,
             'saps': rng.choice([[1], [1, 4], [1, 4, 16], [1, 2, 3, 14], [1, 14, 15, 20]]) if saps is None else saps,
             'agf': rng.random() < 0.5 if agf is None else agf}
        o['probe'] = 0
        return o

    def probes(oa, ob):
        # the largest LLCP PDU either side may send: peer's MIU + 2 header octets (+1 sequence octet for I PDUs)
        oa['probe'] = max(1, min(max(ob['miu'], 128), 2175) + 3)
        ob['probe'] = max(1, min(max(oa['miu'], 128), 2175) + 3)

    # ---------------- replay of a recorded case
    if ck.replay:
        import json
        rec = json.load(open(ck.replay))
        cases = [rec['case']] if 'case' in rec else [m['case']['case'] for m in rec.get('first_disagreements', []) if 'case' in m.get('case', {})]
        for c in cases:
            if c.get('via') == 'connect':
                oa = {k: c['llcp_a'][k] for k in ('miu', 'lto', 'lsc', 'agf')}
                ob = {k: c['llcp_b'][k] for k in ('miu', 'lto', 'lsc', 'agf')}
                oa.update(sec=False, saps=[1])
                ob.update(sec=False, saps=[1])
                probes(oa, ob)
                di = {k: v for k, v in c['llcp_a'].items() if k in ('brs', 'lri', 'lrt', 'rwt', 'acm')}
                dt = {k: v for k, v in c['llcp_b'].items() if k in ('brs', 'lri', 'lrt', 'rwt', 'acm')}
                run(c['brty0'], di, dt, oa, ob, 'replay', via_connect=True)
            elif c.get('history'):
                last = c['history'][-1]
                cur_role = 'I' if c['llc_a'].get('miu') == last['ox'].get('miu') and c['llc_a'].get('lto') == last['ox'].get('lto') and \
                    c['llc_a'].get('lsc') == last['ox'].get('lsc') and c['llc_a'].get('saps') == last['ox'].get('saps') else 'T'
                cur = {'role': cur_role, 'brty0': c['brty0'], 'dep_i': c['dep_i'], 'dep_t': c['dep_t'],
                       'ox': c['llc_a'] if cur_role == 'I' else c['llc_b'], 'oy': c['llc_b'] if cur_role == 'I' else c['llc_a']}
                if c.get('kinds'):
                    REPLAY_PATTERN[:] = [(c['kinds'], list(c['sizes']))]
                history(list(c['history']) + [cur], kind='replay')
            elif 'llc_a' in c:
                if c.get('kinds'):
                    REPLAY_PATTERN[:] = [(c['kinds'], list(c['sizes']))]
                run(c['brty0'], c['dep_i'], c['dep_t'], dict(c['llc_a']), dict(c['llc_b']), 'replay')
        flush()
        ck.finish(level='proof', rule='replay of ' + ck.replay, explanation='replay')

    # ---------------- corpus (each was a defect of the unrepaired tree)
    oa, ob = llc_opts(248, 500, 3, False, [1], True), llc_opts(248, 105, 3, False, [1], True)
    probes(oa, ob)
    run('106A', {'brs': 2, 'lri': 0, 'did': 5}, {'lrt': 0, 'rwt': 8}, oa, ob, 'corpus')      # target MIU ignores DID
    oa, ob = llc_opts(248, 2560, 3, False, [1], True), llc_opts(248, 500, 3, False, [1], True)
    probes(oa, ob)
    run('106A', {'brs': 0}, {}, oa, ob, 'corpus')                                             # LTO 2560 announced as 0
    oa, ob = llc_opts(248, 500, 3, False, [1], True), llc_opts(248, 500, 3, False, [1], True)
    probes(oa, ob)
    run('212F', {'brs': 2, 'lri': 3, 'did': 14}, {'lrt': 3}, oa, ob, 'corpus')                # length byte 256 at LR 254 with DID
    big, bare = llc_opts(2175, 2550, 3, False, [1, 4], True), llc_opts(128, 100, 0, False, [1], True)
    mine = llc_opts(248, 500, 1, False, [1], True)
    for roles in ('II', 'TT'):
        history([{'role': r, 'brty0': '106A', 'dep_i': {'brs': 0}, 'dep_t': {}, 'ox': mine, 'oy': py} for r, py in zip(roles, (big, bare))],
                kind='corpus')
    flush()

    # ---------------- the DEP parameter grid x LLCP parameter combinations
    rwts = list(range(0, 15)) if not quick else [0, 7, 8, 14]
    grid = [(b0, brs, lri, lrt, rwt) for b0 in ('106A', '212F') for brs in range(3) for lri in range(4) for lrt in range(4) for rwt in rwts]
    if quick:
        grid = rng.sample(grid, 330)
    # pairwise covering set of the LLCP options (miu x lto x lsc x sec x agf): every pair of values occurs
    llcp = []
    for miu, lto in itertools.product(MIUS, LTOS):
        llcp.append(dict(miu=miu, lto=lto, lsc=rng.randrange(4), sec=rng.random() < 0.5, agf=rng.random() < 0.5))
    for miu, lsc in itertools.product(MIUS, range(4)):
        llcp.append(dict(miu=miu, lto=rng.choice(LTOS), lsc=lsc, sec=rng.random() < 0.5, agf=rng.random() < 0.5))
    for lto, lsc in itertools.product(LTOS, range(4)):
        llcp.append(dict(miu=rng.choice(MIUS), lto=lto, lsc=lsc, sec=rng.random() < 0.5, agf=rng.random() < 0.5))
    k = 0
    per = 1 if quick else 6
    for (b0, brs, lri, lrt, rwt) in grid:
        if b0 == '212F' and brs == 0:
            continue          # Initiator.activate searches 212F targets only when brs > 0
        for _ in range(per):
            oa, ob = llc_opts(**llcp[k % len(llcp)]), llc_opts(**llcp[(k * 7 + 3) % len(llcp)])
            k += 1
            probes(oa, ob)
            did = rng.choice([None, None, 1, 14, 7])
            nad = rng.choice([None, None, None, 5])
            di = {'brs': brs, 'lri': lri}
            if did is not None:
                di['did'] = did
            if nad is not None:
                di['nad'] = nad
            if rng.random() < 0.3:
                di['acm'] = rng.random() < 0.5
            run(b0, di, {'lrt': lrt, 'rwt': rwt}, oa, ob, 'grid')
        if k % 200 == 0:
            flush()
    flush()

    # ---------------- defaults and out-of-range option values (clamping)
    for _ in range(150 if quick else 1500):
        oa, ob = llc_opts(), llc_opts()
        if rng.random() < 0.3:
            oa['miu'] = rng.choice([0, 1, 100, 127, 2176, 3000, 65663, 65664, 70000])
        if rng.random() < 0.3:
            ob['lsc'] = rng.choice([4, 5, 7, -1])
        probes(oa, ob)
        di = {}
        if rng.random() < 0.7:
            di['brs'] = rng.choice([-1, 0, 1, 2, 3, 9])
        if rng.random() < 0.7:
            di['lri'] = rng.choice([-2, 0, 1, 2, 3, 4, 17])
        if rng.random() < 0.5:
            di['did'] = rng.choice([0, 1, 14, 15, 255])
        if rng.random() < 0.3:
            di['nad'] = rng.choice([0, 1, 255])
        dt = {}
        if rng.random() < 0.7:
            dt['lrt'] = rng.choice([-1, 0, 1, 2, 3, 4, 100])
        if rng.random() < 0.7:
            dt['rwt'] = rng.choice([-3, 0, 5, 8, 14, 15, 16, 99])
        b0 = rng.choice(['106A', '106A', '212F'])
        if b0 == '212F' and clamp(0, 2, di.get('brs', 2)) == 0:
            b0 = '106A'
        run(b0, di, dt, oa, ob, 'clamping')
    flush()

    # ---------------- histories: the SAME llc object (and its nfc.dep objects) activated two and three times in a row against
    # fresh peers with other parameters (MIU, LTO, WKS, LSC, DPC; one peer omits all optional fields: 128 / 100 ms / 0),
    # in all role sequences; after every activation the held values and the LLCP traffic reflect THIS peer only
    peers = [dict(miu=2175, lto=2550, lsc=3, sec=True, saps=[1, 4], agf=True),
             dict(miu=128, lto=100, lsc=0, sec=False, saps=[1], agf=True),            # omits MIUX, LTO and OPT
             dict(miu=160, lto=10, lsc=2, sec=False, saps=[1, 4, 16], agf=False),
             dict(miu=1000, lto=500, lsc=1, sec=True, saps=[1, 2, 3, 14], agf=True),
             dict(miu=248, lto=1000, lsc=3, sec=False, saps=[1, 14, 15, 20], agf=True)]
    hk = 0
    for roles in ('II', 'IT', 'TI', 'TT', 'III', 'ITI', 'TIT', 'TTT', 'IIT', 'TTI'):
        for rep in range(1 if quick else 4):
            ox = llc_opts(miu=rng.choice([248, 300, 128, 2000]), lto=rng.choice([500, 100, 1500]), lsc=rng.choice([1, 2, 3]),
                          sec=rng.random() < 0.5, saps=rng.choice([[1], [1, 4]]), agf=True)
            steps = []
            order = rng.sample(peers, len(roles)) if rep else [peers[(hk + i) % len(peers)] for i in range(len(roles))]
            hk += 1
            if rep == 0 and roles in ('II', 'TT', 'IT'):
                order = [peers[0], peers[1]] + order[2:]        # large MIU / long LTO first, then the peer that omits the fields
            for r, py in zip(roles, order):
                oy = llc_opts(**py)
                b0 = rng.choice(['106A', '212F'])
                di = {'brs': rng.choice([1, 2]), 'lri': rng.randrange(4)}
                if rng.random() < 0.4:
                    di['did'] = rng.choice([1, 7])
                steps.append({'role': r, 'brty0': b0, 'dep_i': di, 'dep_t': {'lrt': rng.randrange(4), 'rwt': rng.choice([4, 8, 10])},
                              'ox': ox, 'oy': oy})
            history(steps)
    flush()

    # ---------------- the same through ContactlessFrontend.connect(llcp=...) (option pass-through of _llcp_connect)
    for _ in range(150 if quick else 1500):
        oa, ob = llc_opts(), llc_opts()
        probes(oa, ob)
        di, dt = {}, {}
        if rng.random() < 0.8:
            di['brs'] = rng.choice([0, 1, 2, 2, 3, -1])
        if rng.random() < 0.8:
            di['lri'] = rng.choice([0, 1, 2, 3, 4])
        if rng.random() < 0.3:
            di['acm'] = rng.random() < 0.5
        if rng.random() < 0.3:
            di['lrt'] = rng.randrange(4)         # a key of the other role: must have no effect
        if rng.random() < 0.8:
            dt['lrt'] = rng.choice([0, 1, 2, 3, -1])
        if rng.random() < 0.8:
            dt['rwt'] = rng.choice([0, 4, 8, 12, 14, 15])
        if rng.random() < 0.3:
            dt['brs'] = rng.randrange(3)
        b0 = rng.choice(['106A', '106A', '212F'])
        if b0 == '212F' and clamp(0, 2, di.get('brs', 2)) == 0:
            b0 = '106A'
        run(b0, di, dt, oa, ob, 'connect', via_connect=True)
    flush()

    # ---------------- kernels
    klines, kexp = [], []
    for pp in range(256):
        klines.append('lr %d' % pp)
        kexp.append(str(nfc.dep.ATR_REQ(bytearray(10), 0, 0, 0, pp, bytearray()).lr))
        ck.case(('lr', pp), True)
    for brs in range(256):
        fsl = (brs * 7 + 3) & 255
        p = nfc.dep.PSL_REQ(0, brs, fsl)
        klines.append('psl %d %d' % (brs, fsl))
        kexp.append('%d %d %d' % (p.dsi, p.dri, p.lr))
        ck.case(('psl', brs), True)
    for lto in list(range(0, 2700, 7)) + [2549, 2550, 2551, 2559, 2560, 5000, 100000]:
        klines.append('lto %d' % lto)
        kexp.append(str(nfc.llcp.llc.LogicalLinkController(lto=lto).cfg['send-lto']))
        ck.case(('lto', lto), True)
    ck.count('kernels', len(klines))

    # take-over of arbitrary general bytes (valid, mutated, truncated)
    def takeover_impl(sec, gb):
        llc = nfc.llcp.llc.LogicalLinkController()
        llc.cfg['llcp-sec'] = sec
        mac = nfc.dep.Initiator(clf=None)
        mac.activate = lambda **kw: bytearray(gb)
        mac.rwt = None
        try:
            ok = llc.activate(mac)
        except nfc.llcp.pdu.DecodeError:
            return 'err DecodeError'         # (not since e19069b: activate returns False)
        except Exception as e:  # noqa
            return 'crash ' + type(e).__name__
        return 'ok ' + cfg_line('ok 1' if ok else 'ok 0', llc)
    seeds = [bytes.fromhex(x) for x in ('46666d010113', '46666d0101130202007803020003040132070103', '46666d010111020207ff03020013',
                                        '46666d01011302020800', '46666d0101130401ff0701ff', '46666d010113050103060361626308026162090201020a00',
                                        '46666d01011302', '46666d0101130202', '46666d010113080100', '46666d0101130800', '46666d0101130901',
                                        '46666e010113', '', '4666', '46666d0101')]
    gbs = list(seeds)
    for sd in seeds:
        for _ in range(10 if quick else 100):
            if len(sd) > 3:
                i = rng.randrange(3, len(sd))
                gbs.append(sd[:i] + bytes([rng.randrange(256)]) + sd[i + 1:])
                gbs.append(sd[:i])
                gbs.append(sd + bytes(rng.randrange(12) for _ in range(rng.randrange(1, 5))))
    for gb in gbs:
        for sec in (False, True):
            klines.append('takeover %d %s' % (sec, hexs(gb)))
            kexp.append(takeover_impl(sec, gb))
            ck.case(('takeover', sec, gb), len(gb) > 6)
    ck.count('takeover', 2 * len(gbs))
    out = mr.run(klines)
    nmis = 0
    for line, im, got in zip(klines, kexp, out):
        if got != im:
            nmis += 1
            if nmis <= 5:
                ck.correspondence_mismatch('kernel', {'input': line, 'impl': im, 'model': got})
    ck.cov['traces_validated_against_impl'] = ck.cov.get('traces_validated_against_impl', 0) + len(klines) - nmis

    ck.finish(level='proof',
              rule='activations of two real stacks against each other: start technology 106A/212F x brs 0..2 x lri 0..3 x lrt 0..3 x '
                   'rwt x DID/NAD x a pairwise covering set of miu {127,128,129,247,248,249,1023,2174,2175,2176} x lto '
                   '{10,100,105,500,2550,2560} x lsc 0..3 x sec x agf on both devices, plus out-of-range and default option '
                   'values, and the same through ContactlessFrontend.connect(llcp=...) (option pass-through of _llcp_connect); every '
                   'activation is followed by one NFC-DEP exchange of maximum size LLCP PDUs in both directions; '
                   'kernels: ATR lr for all PP, PSL dsi/dri/lr for all BRS, LTO normalisation, take-over of valid/mutated '
                   'general bytes. every case is non-trivial (a full negotiation); distinct by hash of all options',
              explanation='theorems for all option values over Model/Negotiate.v; the model is tied to dep.py / llc.py / pdu.py by '
                          'the differential run (activation frames and all parameters held by both stacks)')


if __name__ == '__main__':
    main()
