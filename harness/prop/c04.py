"""C04 - NFC-DEP delivers each payload exactly once, intact, or reports failure.

Obligations: Props/C04.v (frame bound, fault-free exactness, safety for every fault script).
Correspondence: a real nfc.dep.Initiator and a real nfc.dep.Target coupled by harness/sim/air.py
(two threads, strictly alternating, virtual clock, fault script per round) against the extracted
model Model/Dep.v: every frame on the air with its fate, the results of every exchange() on both
sides, the results of send_timeout_extension(), whether the target got activated; plus
decode_frame of both classes on valid and mutated frames.
Monitor (from the property text): no frame exceeds the LR announced by its receiver; payload lists
handed to the applications are prefixes of what the other side passed to exchange(); every other
outcome is a CommunicationError (or None at the target); a single lost or corrupted frame per
protocol step is recovered transparently (absorbable scripts, DESIGN.md appendix D).
"""
import itertools
import logging

from common import Check

import nfc.clf
import nfc.dep
from sim import air

logging.disable(logging.CRITICAL)

LR = (64, 128, 192, 254)
BRTY = ('106A', '212F', '424F')
FAULTS = (('L', 'D'), ('C', 'D'), ('D', 'L'), ('D', 'C'))


def hexs(b):
    return bytes(b).hex() if len(b) else '-'


def final_brty(cfg):
    i = BRTY.index(cfg['brty'])
    return cfg['brty'] if cfg['brs'] <= i else BRTY[cfg['brs']]


def model_line(cfg, P, R, script, rtox, timeout, release):
    did, nad = cfg['did'], cfg['nad']
    tdid = did if (did is not None and did > 0) else None
    imiu = LR[cfg['lrt']] - 3 - (did is not None) - (nad is not None)
    tmiu = LR[cfg['lri']] - 3 - (tdid is not None)

    def f(x):
        return '-' if x is None else str(x)
    sc = '.'.join(a + b for a, b in script) or '-'
    ps = ','.join((bytes(p).hex() or '.') for p in P) or '-'
    app = ','.join('%s:%s' % ('.'.join(map(str, air.rtox_values(rtox, k))) or '0', (bytes(r).hex() or '.'))
                   for k, r in enumerate(R)) or '-'
    rel = {True: 'R', False: 'D', None: '-'}[release]
    return 'conv %d %s %s %d %s %d %d %s %s %s %s' % (final_brty(cfg) == '106A', f(did), f(nad), imiu, f(tdid), tmiu,
                                                       timeout, rel, sc, ps, app)


def fix(x):
    return x.replace('crash error', 'crash struct.error')


def impl_line(o):
    fr = ';'.join('%s:%s:%s' % (d, h or '-', f) for d, h, f, _, _, r in o['frames'] if r >= o['base'])
    return 'frames=%s | ini=%s | tgt=%s | rtx=%s | act=%d' % (
        fr, ','.join(map(fix, o['ini'])), ','.join(map(fix, o['tgt'])), ','.join(map(fix, o['tgt_rtox'])),
        1 if o.get('tgt_activated') else 0)


def pdu_kind(h, brty):
    """classify a frame (hex) for the keys of violations: INF/ACK/NAK/ATN/RTOX/RLS/..."""
    b = bytes.fromhex(h)
    if brty == '106A':
        b = b[1:]
    if len(b) < 4:
        return {8: 'DSL', 9: 'DSL', 10: 'RLS', 11: 'RLS'}.get(b[2] if len(b) > 2 else -1, 'short')
    if b[2] in (6, 7):
        return {0: 'INF', 1: 'INF', 4: 'ACK', 5: 'NAK', 8: 'ATN', 9: 'RTOX'}.get(b[3] >> 4, 'fmt%d' % (b[3] >> 4))
    return {8: 'DSL', 9: 'DSL', 10: 'RLS', 11: 'RLS'}.get(b[2], 'other')


def flat_rtox(rtox):
    return [x for k in range(len(rtox or [])) for x in air.rtox_values(rtox, k)]


def sparse(script):
    """every faulty round is followed by (at least) two fault free rounds: each lost or corrupted frame is the only
    fault of its protocol step - faulty round, attention round, retransmission round (Proofs/DepSrr.v Sparse;
    rounds beyond the script are fault free)"""
    bad = [i for i, f in enumerate(script) if tuple(f) != ('D', 'D')]
    return all(b - a >= 3 for a, b in zip(bad, bad[1:]))


class Runner(object):
    def __init__(self, ck, mr):
        self.ck, self.mr = ck, mr
        self.lines, self.impl, self.meta = [], [], []
        self.nviol = 0
        self.prefix = ''

    def conv(self, cfg, P, R, script, rtox=None, timeout=8, release=True, kind='random', ini=None, tgt=None, hist=None, reuse=None, model=True):
        ck = self.ck
        script = [tuple(x) for x in script]
        o = air.conversation(cfg, P, R, script, rtox=rtox, ini_timeout=timeout, release=release, ini=ini, tgt=tgt)
        case = {'cfg': cfg, 'payloads': [hexs(p) for p in P], 'responses': [hexs(r) for r in R],
                'script': ''.join(a + b for a, b in script), 'rtox': rtox, 'timeout': timeout, 'release': release}
        if hist:
            # the same Initiator and / or Target object went through these conversations before (each after a new activation)
            case['reuse'], case['history'] = reuse, hist
        self.prefix = 'reactivated-%s:' % reuse if hist else ''
        if model:           # (scripts with the fates B / P / E are outside the model: monitor only)
            self.lines.append(model_line(cfg, P, R, script, rtox, timeout, release))
            self.impl.append(impl_line(o))
            self.meta.append((kind, case))
        nfaults = sum(1 for f in script if f != ('D', 'D'))
        chained = any(len(p) > o['ini_miu'] for p in P) or any(len(r) > (o['tgt_miu'] or 1) for r in R)
        ck.case((sorted(cfg.items(), key=str), case['payloads'], case['responses'], case['script'], rtox, timeout, release, reuse, repr(hist)),
                chained or nfaults > 0,
                {'kind': kind, 'cfg': cfg, 'sizes': [len(p) for p in P], 'faults': nfaults, 'ini': [x[:12] for x in o['ini']][:4]})
        ck.count(kind)
        self.monitor(cfg, P, R, script, rtox, timeout, release, o, case)
        return o

    # ---------------------------------------------------------------- monitor (property text)
    def viol(self, key, what, data):
        self.ck.violation(self.prefix + key, ('after re-activation of the same %s object: ' % data.get('reuse') if self.prefix else '') + what, data)

    def history(self, convs, reuse, kind='history'):
        """successive activations + conversations on the SAME Initiator and / or Target object (reuse: 'initiator' |
        'target' | 'both'); every conversation is judged and compared with the model like a first one"""
        ini = tgt = None
        hist = []
        for c in convs:
            o = self.conv(c['cfg'], c['P'], c['R'], c.get('script', []), rtox=c.get('rtox'), timeout=c.get('timeout', 8),
                          release=c.get('release', True), kind=kind, ini=ini, tgt=tgt, hist=list(hist), reuse=reuse)
            if reuse in ('initiator', 'both'):
                ini = o['objs'][0]
            if reuse in ('target', 'both'):
                tgt = o['objs'][1]
            hist.append({'cfg': c['cfg'], 'payloads': [hexs(p) for p in c['P']], 'responses': [hexs(r) for r in c['R']],
                         'script': ''.join(a + b for a, b in c.get('script', [])), 'rtox': c.get('rtox'),
                         'timeout': c.get('timeout', 8), 'release': c.get('release', True)})

    def monitor(self, cfg, P, R, script, rtox, timeout, release, o, case):
        ck = self.ck
        valid_cfg = cfg['did'] is None or 1 <= cfg['did'] <= 14
        valid_app = all(len(p) > 0 for p in P) and all(len(r) > 0 for r in R) and \
            all(0 <= x < 60 for x in flat_rtox(rtox))
        # no frame exceeds the payload size announced by the receiver
        for d, h, fate, btx, brx, rnd in o['frames']:
            n = len(h) // 2 - 1 - (1 if btx == '106A' else 0)
            lim = LR[cfg['lrt']] if d == 'I' else LR[cfg['lri']]
            if n > lim:
                self.viol('lr-exceeded:%s:did=%s' % (d, cfg['did'] is not None),
                             'frame of %d transport bytes sent to a receiver that announced LR=%d' % (n, lim), case)
        if not valid_app:
            return
        exp_i = ['ok ' + hexs(r) for r in R]
        exp_t = ['ok ' + hexs(p) for p in P]
        got_i = [x for x in o['ini'] if x.startswith('ok')]
        got_t = [x for x in o['tgt'] if x.startswith('ok')]
        if got_i != exp_i[:len(got_i)] or len(got_i) > len(P):
            self.viol('foreign-data:initiator', 'initiator application received data that is not a prefix of what '
                         'the target passed to exchange()', dict(case, got=o['ini']))
        if got_t != exp_t[:len(got_t)]:
            self.viol('foreign-data:target:rtox=%s' % bool(flat_rtox(rtox)),
                         'target application received data that is not a prefix of what the initiator '
                         'passed to exchange()', dict(case, got=o['tgt']))
        for side, res in (('initiator', o['ini']), ('target', o['tgt'] + o['tgt_rtox'])):
            for x in res:
                if x.startswith('crash'):
                    self.viol('crash:%s:%s' % (side, x.split()[1]),
                                 '%s application got %s instead of a CommunicationError' % (side, x.split()[1]),
                                 dict(case, ini=o['ini'], tgt=o['tgt']))
        # every exchange() returns data / None or raises a CommunicationError, within a bounded number of frontend calls;
        # a frontend that reports BrokenLinkError (RF field gone) is not polled any further
        for side, res in (('initiator', o['ini']), ('target', o['tgt'] + o['tgt_rtox'])):
            if 'blocks' in res:
                self.viol('blocks:' + side, '%s went on calling the frontend more than %d times' % (side, air.CALL_BOUND), dict(case, ini=o['ini'], tgt=o['tgt']))
        n = o.get('tgt_calls_after_broken_link')
        if n is not None and o.get('tgt_activated') and (n > 1 or 'err BrokenLinkError' not in o['tgt'] + o['tgt_rtox']):
            self.viol('broken-link-not-reported:target', 'the frontend raised BrokenLinkError at the target: %d further frontend calls, '
                      'Target.exchange ended with %s' % (n, (o['tgt'] or ['nothing'])[-1]), dict(case, tgt=o['tgt']))
        if 'ini_deactivate' in o:
            self.viol('crash:deactivate', 'Initiator.deactivate raised ' + o['ini_deactivate'], case)
        # transparent recovery of absorbable scripts
        nfaults = sum(1 for f in script if f != ('D', 'D'))
        # (with time-out extension: C04_dep_exact_rtox - no corrupted response, time-out >= 60 RWT, at most three extensions per
        # response; a corrupted response is then not recoverable by design: RTOX answered to NAK is a protocol error)
        fr = flat_rtox(rtox)
        per = [len(air.rtox_values(rtox, k)) for k in range(len(rtox or []))]
        absorbable = sparse(script) and all(x in 'DLC' for f in script for x in f) and ((not fr and timeout >= 2) or
                                         (fr and timeout >= 60 and max(per) <= 3 and not any(f == ('D', 'C') for f in script)))
        if valid_cfg and len(R) >= len(P) and absorbable:
            exact = o['ini'] == exp_i[:len(P)] and o['tgt'][:len(P)] == exp_t
            if not exact:
                # own key for the class repaired by c04-nak-ack-retransmit-chained (request_retransmission rejected a
                # retransmitted ACK): the conversation ends with  INF(more) delivered / ACK corrupted /
                # NAK delivered / ACK delivered / ProtocolError
                dep = [(d, pdu_kind(h, btx), ft, h, btx) for d, h, ft, btx, _, r in o['frames'] if r >= o['base']]
                while dep and dep[-1][1] in ('RLS', 'DSL'):
                    dep.pop()
                tail = [(d, k, ft) for d, k, ft, _, _ in dep[-4:]]
                if (tail == [('I', 'INF', 'D'), ('T', 'ACK', 'C'), ('I', 'NAK', 'D'), ('T', 'ACK', 'D')] and
                        o['ini'] and o['ini'][-1] == 'err ProtocolError'):
                    self.viol('not-recovered:corrupted-ack',
                                 'a corrupted ACK response during initiator chaining is not recovered: the ACK retransmitted '
                                 'after NAK is rejected with ProtocolError', dict(case, ini=[x[:20] for x in o['ini']], tgt=[x[:20] for x in o['tgt']]))
                    return
                if not any(f != ('D', 'D') for f in script):
                    self.viol('nofault-not-exact:did=%s' % (cfg['did'] is not None),
                              'a fault free conversation was not delivered exactly',
                              dict(case, ini=[x[:20] for x in o['ini']], tgt=[x[:20] for x in o['tgt']]))
                    return
                lost = any(f[0] != 'D' or f == ('D', 'L') for f in script)
                self.viol('not-recovered:other:did=%s:timeout=%s' % (cfg['did'] is not None, lost),
                             'a single lost/corrupted frame per protocol step was not recovered transparently '
                             '(DID in use: %s, a time-out occurred: %s)' % (cfg['did'] is not None, lost),
                             dict(case, ini=[x[:20] for x in o['ini']], tgt=[x[:20] for x in o['tgt']]))

    def flush(self):
        if not self.lines:
            return
        out = self.mr.run(self.lines)
        nmis = 0
        for line, im, got, (kind, case) in zip(self.lines, self.impl, out, self.meta):
            if got != im:
                nmis += 1
                if nmis <= 5:
                    a, b = im.split(' | '), got.split(' | ')
                    diff = [(x[:160], y[:160]) for x, y in zip(a, b) if x != y and not x.startswith('frames')]
                    fa, fb = a[0].split(';'), b[0].split(';')
                    k = next((i for i, (x, y) in enumerate(zip(fa, fb)) if x != y), min(len(fa), len(fb)))
                    self.ck.correspondence_mismatch('conversation:' + kind, {
                        'case': case, 'first_frame_difference': [k, fa[k][:80] if k < len(fa) else None, fb[k][:80] if k < len(fb) else None],
                        'results_impl_model': diff})
        self.ck.cov['traces_validated_against_impl'] = self.ck.cov.get('traces_validated_against_impl', 0) + len(self.lines) - nmis
        self.lines, self.impl, self.meta = [], [], []


def scripts_upto(n, k, faults=FAULTS):
    """all scripts over n rounds with exactly k faulty rounds"""
    for pos in itertools.combinations(range(n), k):
        for fs in itertools.product(faults, repeat=k):
            s = [('D', 'D')] * n
            for p, f in zip(pos, fs):
                s[p] = f
            yield s


def rounds_of(o):
    return max(f[5] for f in o['frames']) - o['base'] + 1


# ---------------------------------------------------------------- decode_frame correspondence
class _T(object):
    def __init__(self, brty):
        self.brty = brty


def show_dep(p):
    return 'fmt=%d pni=%d did=%s nad=%s data=%s' % (p.pfb.fmt, p.pfb.pni, '-' if p.did is None else p.did,
                                                  '-' if p.nad is None else p.nad, hexs(p.data))


def show_pdu(p):
    n = type(p).__name__
    if n in ('DEP_REQ', 'DEP_RES'):
        return n + ' ' + show_dep(p)
    if n == 'ATR_REQ':
        return 'ATR_REQ %s %s %s' % (hexs(p.nfcid3), ','.join(map(str, [p.did, p.bs, p.br, p.pp])), hexs(p.gb))
    if n == 'ATR_RES':
        return 'ATR_RES %s %s %s' % (hexs(p.nfcid3), ','.join(map(str, [p.did, p.bs, p.br, p.to, p.pp])), hexs(p.gb))
    if n == 'PSL_REQ':
        return 'PSL_REQ %d,%d,%d' % (p.did, p.brs, p.fsl)
    if n == 'PSL_RES':
        return 'PSL_RES %d' % p.did
    return '%s %s' % (n, '-' if p.did is None else p.did)


def decode_impl(cls, brty, frame):
    d = cls(clf=None)
    d.target = _T(brty)
    try:
        return 'ok ' + show_pdu(d.decode_frame(bytearray(frame)))
    except nfc.clf.ProtocolError:
        return 'err ProtocolError'
    except nfc.clf.TransmissionError:
        return 'err TransmissionError'
    except Exception as e:  # noqa
        return 'crash ' + type(e).__name__


def main():
    ck = Check('C04')
    ck.trusted = ['Coq 8.16.1 kernel', 'extraction: ExtrOcamlBasic only; extract/c04_run.ml driver',
                  'translate/kspec_c04.py (shape-checked extraction of the pure kernels of dep.py: PFB octet, packet number steps, '
                  'payload slicing, RTOX tests, retry counts, frame length / start byte code and checks)',
                  'harness/sim/air.py (in-memory half-duplex air link, fake clf objects, virtual clock) and the '
                  'application loops of harness/sim/air.py:conversation']
    ck.assumptions = ['time: the initiator response waiting time is one unit of virtual time, a time-out costs exactly '
                      'the time-out passed to clf.exchange, nothing else costs time (the deadline of '
                      'send_dep_req_recv_dep_res is an oracle determined by the exchange time-out and the script); the '
                      'target never times out by itself (it gets TimeoutError when the link is closed)',
                      'activation (ATR/PSL) is fault free and the fault script starts with the first DEP_REQ; the fake '
                      'driver keeps listening after lost or corrupted frames',
                      'valid configurations: DID absent or 1..14 (DID 0 with the DID flag set is modelled and '
                      'compared, but transparent recovery is not demanded of it); payloads non-empty']
    ck.coq(gen=['DepK'], targets=['Model/Dep.vo', 'Bridge/Dep.vo', 'Proofs/DepCodec.vo', 'Proofs/DepTarget.vo', 'Proofs/DepBound.vo', 'Proofs/DepSrr.vo',
                    'Proofs/DepExact.vo', 'Proofs/DepSafety.vo'],
           props='C04')
    mr = ck.model()
    if mr is None:
        ck.finish()
    rng = ck.rng
    quick = ck.tier == 'quick'
    run = Runner(ck, mr)

    def cfg_(brty='212F', did=None, nad=None, lri=0, lrt=0, brs=0):
        return dict(brty=brty, did=did, nad=nad, lri=lri, lrt=lrt, brs=brs)

    # ---------------- replay of a recorded case
    if ck.replay:
        import json
        rec = json.load(open(ck.replay))
        cases = [rec['case']] if 'case' in rec else [m['case']['case'] for m in rec.get('first_disagreements', []) if 'case' in m.get('case', {})]
        for c in cases:
            if 'payloads' not in c:
                continue
            unhex = lambda h: b'' if h == '-' else bytes.fromhex(h)  # noqa

            def conv_of(x):
                return {'cfg': x['cfg'], 'P': [unhex(y) for y in x['payloads']], 'R': [unhex(y) for y in x['responses']],
                        'script': [(x['script'][i], x['script'][i + 1]) for i in range(0, len(x['script']), 2)],
                        'rtox': x.get('rtox'), 'timeout': x.get('timeout', 8), 'release': x.get('release', True)}
            if c.get('history'):
                run.history([conv_of(x) for x in c['history']] + [conv_of(c)], c.get('reuse'), kind='replay')
                continue
            sc = c['script']
            run.conv(c['cfg'], [unhex(x) for x in c['payloads']], [unhex(x) for x in c['responses']],
                     [(sc[i], sc[i + 1]) for i in range(0, len(sc), 2)], rtox=c.get('rtox'), timeout=c.get('timeout', 8),
                     release=c.get('release', True), kind='replay')
        run.flush()
        ck.finish(level='proof', rule='replay of ' + ck.replay, explanation='replay')

    # ---------------- corpus of minimised past failures (each was a defect of the unrepaired tree)
    c = cfg_(did=5)
    run.conv(c, [b'\x01' * 3], [b'\x11' * 61], [], kind='corpus')                        # target frame LR+1 with DID
    run.conv(cfg_(did=5, lri=3), [b'\x01'], [b'\x11' * 251], [], kind='corpus')          # length byte 256: struct.error
    run.conv(c, [b'\x01' * 3, b'\x02'], [b'\x11', b'\x12'], [('L', 'D')], kind='corpus')  # ATN without DID is ignored
    run.conv(c, [b'\x01' * 3, b'\x02'], [b'\x11', b'\x12'], [('D', 'L')], kind='corpus')
    run.conv(cfg_(), [b'\x01' * 62, b'\x02'], [b'\x11', b'\x12'], [('D', 'C')], kind='corpus')   # corrupted ACK
    run.conv(cfg_(), [b'\x01' * 62, b'\x02' * 3, b'\x03' * 2, b'\x04'], [b'\x11' * 63, b'\x12' * 2, b'\x13', b'\x14'],
             [('D', 'D')] * 4 + [('D', 'L')], rtox=[0, 1, 0, 2], kind='corpus')         # RTOX byte delivered as payload
    run.conv(cfg_(), [b'\x01\x02'], [b'\x03'], [('L', 'D'), ('D', 'L'), ('D', 'L')], kind='corpus')  # release in first exchange
    # NAD 0 / DID at the frame size limit: the NAD octet is sent whenever nad is not None, also for nad=0
    run.conv(cfg_(nad=0, lrt=3), [b'\x01' * 250, b'\x02' * 251], [b'\x11', b'\x12'], [], kind='corpus')
    run.conv(cfg_(brty='106A', nad=0, did=2, lrt=0), [b'\x01' * 59, b'\x02' * 60], [b'\x11' * 60, b'\x12' * 61], [], kind='corpus')
    # the same object activated again: previous conversation of 1 PDU (target packet number 0 is stale), of 3 PDUs
    # (initiator packet number 3 would be carried over if activate did not reset it)
    one = {'cfg': cfg_(), 'P': [b'\x01'], 'R': [b'\x02']}
    three = {'cfg': cfg_(), 'P': [b'\x01', b'\x02', b'\x03'], 'R': [b'\x11', b'\x12', b'\x13']}
    run.history([one, one], 'target', kind='corpus')
    run.history([three, one], 'initiator', kind='corpus')
    # time-out extension: three extensions in a row, lost RTOX request / lost RTOX response / lost information PDU right after
    # the handshake (recovered), a fourth extension (TimeoutError), a corrupted RTOX response (ProtocolError by design)
    rx = cfg_(brty='106A', did=5)
    run.conv(rx, [b'\x01' * 70, b'\x02'], [b'\x11' * 125, b'\x12'], [], rtox=[[5, 1, 59], [2]], timeout=100, kind='corpus')
    run.conv(rx, [b'\x01' * 70, b'\x02'], [b'\x11' * 125, b'\x12'],
             [('D', 'D'), ('D', 'D'), ('L', 'D'), ('D', 'D'), ('D', 'D'), ('D', 'L'), ('D', 'D'), ('D', 'D'), ('D', 'D'), ('D', 'D'), ('D', 'D'), ('D', 'L')],
             rtox=[[5, 1, 59], [2]], timeout=100, kind='corpus')
    run.conv(cfg_(), [b'\x01'], [b'\x02'], [('D', 'D'), ('D', 'L')], rtox=[[3]], timeout=100, kind='corpus')
    run.conv(cfg_(), [b'\x01'], [b'\x02'], [], rtox=[[1, 1, 1, 1]], timeout=100, kind='corpus')
    run.conv(cfg_(), [b'\x01'], [b'\x02'], [('D', 'C')], rtox=[[5]], timeout=100, kind='corpus')
    # invalid arguments (compared with the model, not judged): empty payload / empty response
    run.conv(cfg_(), [b''], [b'\x01'], [], kind='argument')
    run.conv(cfg_(), [b'\x01'], [b''], [], kind='argument')
    run.conv(cfg_(), [b'\x01', b''], [b'\x02', b'\x03'], [], kind='argument')
    run.conv(cfg_(did=0), [b'\x01'], [b'\x02'], [], kind='argument')                     # DID 0 with the DID flag set
    run.flush()

    # ---------------- payloads of exactly MIU-1, MIU, MIU+1 in both directions for every LR pair, NAD absent / 0 / 7,
    # DID absent / 2 (MIU from the property text: LR of the receiver minus D4/D5 code, PFB and the DID / NAD octets
    # actually present in the frame); the frame-length monitor sees every frame
    k = 0
    for lri in range(4):
        for lrt in range(4):
            for nad in (None, 0, 7):
                for did in (None, 2):
                    k += 1
                    cfg = cfg_(brty=BRTY[k % 3], did=did, nad=nad, lri=lri, lrt=lrt, brs=k % 3)
                    mi = LR[lrt] - 3 - (did is not None) - (nad is not None)
                    mt = LR[lri] - 3 - (did is not None)
                    P = [bytes([0x20 + i]) * n for i, n in enumerate((mi - 1, mi, mi + 1))]
                    R = [bytes([0x90 + i]) * n for i, n in enumerate((mt - 1, mt, mt + 1))]
                    run.conv(cfg, P, R, [], kind='miu-boundary')
    run.flush()

    # ---------------- histories: 2-3 successive activations + conversations on the SAME Initiator object, on the SAME
    # Target object, on both; conversation lengths 1..5 PDUs (all packet number residues, incl. the wrap), released by
    # RLS / DSL / not at all in between; every conversation must behave like the first one of fresh objects
    for reuse in ('initiator', 'target', 'both'):
        for n1 in range(1, 6):
            for rel in (True, False, None):
                c1 = {'cfg': cfg_(brty=BRTY[n1 % 3], did=(None, 2)[n1 % 2]), 'P': [bytes([0x30 + i]) for i in range(n1)],
                      'R': [bytes([0xa0 + i]) * 2 for i in range(n1)], 'release': rel}
                n2 = 1 + (n1 + (0 if rel else 1)) % 5
                c2 = {'cfg': cfg_(brty=BRTY[(n1 + 1) % 3], nad=(None, 0)[n1 % 2], lri=n1 % 4), 'P': [bytes([0x40 + i]) * 3 for i in range(n2)],
                      'R': [bytes([0xb0 + i]) for i in range(n2)], 'release': rng.choice([True, False, None])}
                c3 = {'cfg': cfg_(), 'P': [b'\x51' * 62, b'\x52'], 'R': [b'\xc1', b'\xc2' * 62], 'release': True}
                run.history([c1, c2, c3] if n1 % 2 else [c1, c2], reuse)
    # a history with faults in the earlier conversation (it may end in the middle of a step)
    for reuse in ('initiator', 'target', 'both'):
        for s1 in ([('L', 'D')] * 3, [('D', 'D'), ('D', 'L'), ('D', 'L'), ('D', 'L')], [('D', 'C'), ('D', 'D'), ('D', 'D'), ('C', 'D')]):
            c1 = {'cfg': cfg_(), 'P': [b'\x61' * 70, b'\x62'], 'R': [b'\xd1', b'\xd2'], 'script': s1, 'release': rng.choice([True, None])}
            c2 = {'cfg': cfg_(did=3), 'P': [b'\x71', b'\x72'], 'R': [b'\xe1' * 65, b'\xe2']}
            run.history([c1, c2], reuse)
    run.flush()

    # ---------------- every CommunicationError subclass of nfc.clf (instances of the classes of the tree under test) at every
    # frontend call of BOTH roles: T = TimeoutError (L), X = TransmissionError (C), P = ProtocolError, B = BrokenLinkError
    # (persistent at the target: the RF field stays off), E = the base class.  Monitor only (the model has D / L / C).
    for cfg in (cfg_(), cfg_(brty='106A', did=3)):
        Pf = [b'\x21' * 62, b'\x22']
        Rf = [b'\x91' * 63, b'\x92']
        o = run.conv(cfg, Pf, Rf, [], kind='nofault')
        nr = rounds_of(o) + 1
        for pos in range(nr):
            for fate in 'LCPBE':
                for which in (0, 1):
                    f = (fate, 'D') if which == 0 else ('D', fate)
                    run.conv(cfg, Pf, Rf, [('D', 'D')] * pos + [f], kind='fault-family', model=fate in 'LC',
                             timeout=rng.choice([3, 8, 130]), release=rng.choice([True, None]))
                    if fate in 'PE':       # twice in a row
                        run.conv(cfg, Pf, Rf, [('D', 'D')] * pos + [f, f], kind='fault-family', model=False)
    run.flush()

    # ---------------- exhaustive fault scripts for short conversations
    short = [
        (cfg_(), [61 + 1, 3, 61], [2 * 61 + 1, 2, 1], None),
        (cfg_(brty='106A', did=5, nad=7), [59 + 1, 3], [60 + 1, 2], None),
        (cfg_(brty='424F', did=1), [1, 2, 1, 1, 1], [1, 1, 2, 1, 1], None),                 # beyond the PNI wrap
        (cfg_(brty='106A'), [62, 3, 2, 1], [63, 2, 1, 1], [0, 1, 0, 2]),                    # with RTOX
        (cfg_(brty='424F', did=2), [1, 62], [1, 63], [[2, 1, 3], [1, 2]]),                  # several extensions in a row
    ]
    if not quick:
        short += [
            (cfg_(brty='212F', nad=2, lri=1, lrt=0), [61, 60, 120], [125, 126, 1], None),
            (cfg_(brty='106A', did=14, lri=0, lrt=1), [124, 125, 1], [60, 61, 121], [3, 0, 3]),
        ]
    maxk = 2 if quick else 3
    for cfg, ps, rs, rt in short:
        P = [bytes([0x10 + i]) * n for i, n in enumerate(ps)]
        R = [bytes([0x80 + i]) * n for i, n in enumerate(rs)]
        o = run.conv(cfg, P, R, [], rtox=rt, kind='nofault')
        n = rounds_of(o) + 1
        for k in range(1, maxk + 1):
            allk = list(scripts_upto(n, k))
            if k == 3 and len(allk) > 6000:
                allk = rng.sample(allk, 6000)
            for s in allk:
                run.conv(cfg, P, R, s, rtox=rt, kind='exhaustive-%d' % k)
            run.flush()

    # ---------------- fault-free conversations: payload sizes around k*MIU, all LR, DID/NAD, framing
    for lri in range(4):
        for lrt in range(4):
            for did, nad in ((None, None), (3, None), (None, 9), (14, 1), (None, 0), (2, 0)):
                brty = BRTY[(lri + lrt + (did or 0)) % 3]
                cfg = cfg_(brty=brty, did=did, nad=nad, lri=lri, lrt=lrt, brs=rng.randrange(3))
                mi = LR[lrt] - 3 - (did is not None) - (nad is not None)
                mt = LR[lri] - 3 - (did is not None)
                ks = [0, 1, 2, 3] if quick else [0, 1, 2, 3, 4, 5]
                sizes_i = sorted(set(max(1, k * mi + d) for k in ks for d in (-2, -1, 0, 1, 2)))
                sizes_t = sorted(set(max(1, k * mt + d) for k in ks for d in (-2, -1, 0, 1, 2)))
                nconv = 2 if quick else 6
                for _ in range(nconv):
                    n = rng.randrange(1, 13)
                    P = [bytes(rng.randrange(256) for _ in range(rng.choice(sizes_i))) for _ in range(n)]
                    R = [bytes(rng.randrange(256) for _ in range(rng.choice(sizes_t))) for _ in range(n)]
                    run.conv(cfg, P, R, [], release=rng.choice([True, False, None]), kind='nofault')
    run.flush()

    # ---------------- random conversations with random scripts
    F = [('D', 'D'), ('L', 'D'), ('C', 'D'), ('D', 'L'), ('D', 'C'), ('L', 'L'), ('C', 'C'), ('C', 'L')]
    for it in range(1200 if quick else 30000):
        did = rng.choice([None, None, 1, 14, 7, 0])
        nad = rng.choice([None, None, 3, 0])
        lri, lrt = rng.randrange(4), rng.randrange(4)
        cfg = cfg_(brty=rng.choice(BRTY), did=did, nad=nad, lri=lri, lrt=lrt, brs=rng.randrange(3))
        mi = LR[lrt] - 3 - (did is not None) - (nad is not None)
        mt = LR[lri] - 3 - (did is not None)
        n = rng.randrange(1, 8)

        def size(m):
            return max(1, rng.choice([1, 2, m - 1, m, m + 1, 2 * m - 1, 2 * m, 2 * m + 1, 3 * m, rng.randrange(1, 3 * m)]))
        P = [bytes([rng.randrange(256)]) * size(mi) for _ in range(n)]
        R = [bytes([rng.randrange(256)]) * size(mt) for _ in range(rng.choice([n, n, n, n, max(0, n - 1)]))]
        rt = None
        if rng.random() < 0.3:
            rt = [[rng.choice([1, 2, 5, 59, 60]) for _ in range(rng.choice([0, 0, 1, 1, 2, 3, 4]))] for _ in range(n)]
        dens = rng.choice([0.03, 0.08, 0.15, 0.3, 0.6])
        if rng.random() < 0.4:
            # sparse script: isolated single faults
            s, i = [], 0
            while i < 40:
                if rng.random() < 0.5:
                    s += [('D', 'D')] * rng.randrange(0, 6)
                s += [F[rng.randrange(1, len(F))]] + [('D', 'D')] * rng.choice([2, 2, 3])
                i = len(s)
        else:
            s = [F[rng.randrange(1, len(F))] if rng.random() < dens else F[0] for _ in range(rng.randrange(0, 50))]
        run.conv(cfg, P, R, s, rtox=rt, timeout=rng.choice([1, 2, 3, 8, 8, 20, 60, 130]), release=rng.choice([True, False, None]),
                 kind='random')
        if it % 500 == 499:
            run.flush()
    run.flush()

    # ---------------- decode_frame of both classes vs the model (valid and mutated frames)
    lines, expect = [], []
    seeds = []
    for b in BRTY:
        pre = b'\xf0' if b == '106A' else b''
        for body in (bytes.fromhex('d50700'), bytes.fromhex('d5070405'), bytes.fromhex('d5070c0509aabb'), bytes.fromhex('d50740'),
                     bytes.fromhex('d50780'), bytes.fromhex('d5079005'), bytes.fromhex('d509'), bytes.fromhex('d50b07'),
                     bytes.fromhex('d50501'), bytes.fromhex('d50101fe0102030405060708000000083246666d010110'),
                     bytes.fromhex('d40600aa'), bytes.fromhex('d4060c0103bb'), bytes.fromhex('d40680'), bytes.fromhex('d40a'),
                     bytes.fromhex('d40803'), bytes.fromhex('d404000900'), bytes.fromhex('d40001fe0102030405060708000000323246666d010110'),
                     bytes.fromhex('d5070c05'), bytes.fromhex('d50708'), bytes.fromhex('d507')):
            seeds.append((b, pre + bytes([len(body) + 1]) + body))
    muts = []
    for b, fr in seeds:
        muts.append((b, fr))
        for k in range(len(fr) + 1):
            muts.append((b, fr[:k]))
        for _ in range(6 if quick else 40):
            i = rng.randrange(len(fr))
            muts.append((b, fr[:i] + bytes([rng.randrange(256)]) + fr[i + 1:]))
            muts.append((b, fr + bytes(rng.randrange(256) for _ in range(rng.randrange(1, 3)))))
        for ob in BRTY:
            muts.append((ob, fr))
    for b, fr in muts:
        for cls, cmd in ((nfc.dep.Initiator, 'dec_ini'), (nfc.dep.Target, 'dec_tgt')):
            lines.append('%s %d %s' % (cmd, b == '106A', hexs(fr)))
            expect.append(decode_impl(cls, b, fr))
            ck.case((cmd, b, fr), len(fr) > 0)
            ck.count('decode_frame')
    out = mr.run(lines)
    nmis = 0
    for line, im, got in zip(lines, expect, out):
        if got != im:
            nmis += 1
            if nmis <= 5:
                ck.correspondence_mismatch('decode_frame', {'input': line, 'impl': im, 'model': got})
    ck.cov['traces_validated_against_impl'] = ck.cov.get('traces_validated_against_impl', 0) + len(lines) - nmis

    ck.finish(level='proof',
              rule='conversations of 1..12 exchanges between a real Initiator and a real Target: payload sizes k*MIU+-2, '
                   'LR 64/128/192/254 on both sides, DID/NAD on/off, 106A/212F/424F framing, RTOX requests, release by '
                   'RLS/DSL/none; fault scripts exhaustive up to %d faulty rounds for short conversations (incl. beyond the '
                   'PNI wrap), random (sparse and dense) beyond. non-trivial = chaining or at least one fault; distinct by '
                   'hash of configuration, payloads and script' % maxk,
              explanation='theorems for all scripts/sizes over Model/Dep.v; the model is tied to src/nfc/dep.py by the '
                          'differential run (every frame with its fate, every application result)')


if __name__ == '__main__':
    main()
