"""C11 - LLCP PDU encoding and decoding are mutually consistent (src/nfc/llcp/pdu.py).

Obligations: Props/C11.v (len_encode, decode_encode, decode_total, decode_reencode, agf_local, decode_sound).
Correspondence (both ways, via the extracted model extract/bin/c11):
  * structured PDUs of all 15 classes with boundary / out-of-range field values:
      real  p.encode() / len(p)   vs   model encode / pdu_len      (+ model validb vs the property's value ranges)
  * byte strings (exhaustive <= 2 bytes, all 65536 headers x tails, mutated encodings, aggregates, random up to
    2200 bytes, windows (offset, size) inside larger buffers):
      real  decode(data, offset, size) -> class + field dump + re-encoding + len   vs   model decode
Monitor = the property text applied to the Python objects:
  decode(encode(p)) == p field-wise, len(p) == len(encode(p)), a decoded PDU re-encodes and decodes to an equal PDU,
  the only exception class is nfc.llcp.pdu.DecodeError, the result agrees with an independent reader of the LLCP
  frame formats (ref_decode below, works on the PDU's own bytes only), and a PDU inside an aggregate / a window is
  decoded from its own bytes only.
"""
import hashlib
import json
import logging
import multiprocessing
import sys

from common import Check, hx

import nfc.llcp.pdu as P

logging.disable(logging.CRITICAL)

TARGETS = ['Model/Pdu.vo', 'Proofs/PduBase.vo', 'Proofs/PduWin.vo', 'Proofs/PduLen.vo', 'Proofs/PduRt.vo',
           'Proofs/PduTotal.vo', 'Model/PduSpec.vo', 'Proofs/PduAgf.vo', 'Proofs/PduSound.vo', 'Bridge/Pdu.vo', 'Bridge/PduF.vo']

# ------------------------------------------------------------------------------------------------
# specs: JSON-able description of a PDU object
#   ['symm', d, s] ['pax', d, s, v, m, w, l, o] ['agf', d, s, [spec..]] ['ui', d, s, hex]
#   ['connect', d, s, miu, rw, hex|None] ['disc', d, s] ['cc', d, s, miu, rw] ['dm', d, s, reason]
#   ['frmr', d, s, fl, pt, ns, nr, vs, vr, vsa, vra] ['snl', d, s, [[tid, hex]..], [[tid, sap]..]]
#   ['dps', d, s, hex|None, hex|None] ['info', d, s, ns, nr, hex] ['rr', d, s, nr] ['rnr', d, s, nr]
#   ['unknown', pt, d, s, hex]
# ------------------------------------------------------------------------------------------------


def ob(h):
    return None if h is None else bytes.fromhex(h)


def build(sp):
    k = sp[0]
    if k == 'symm':
        return P.Symmetry(sp[1], sp[2])
    if k == 'pax':
        return P.ParameterExchange(*sp[1:8])
    if k == 'agf':
        return P.AggregatedFrame(sp[1], sp[2], [build(x) for x in sp[3]])
    if k == 'ui':
        return P.UnnumberedInformation(sp[1], sp[2], ob(sp[3]))
    if k == 'connect':
        return P.Connect(sp[1], sp[2], sp[3], sp[4], ob(sp[5]))
    if k == 'disc':
        return P.Disconnect(sp[1], sp[2])
    if k == 'cc':
        return P.ConnectionComplete(sp[1], sp[2], sp[3], sp[4])
    if k == 'dm':
        return P.DisconnectedMode(sp[1], sp[2], sp[3])
    if k == 'frmr':
        return P.FrameReject(*sp[1:11])
    if k == 'snl':
        return P.ServiceNameLookup(sp[1], sp[2], [(t, bytes.fromhex(n)) for t, n in sp[3]], [tuple(x) for x in sp[4]])
    if k == 'dps':
        return P.DataProtectionSetup(sp[1], sp[2], ob(sp[3]), ob(sp[4]))
    if k == 'info':
        return P.Information(sp[1], sp[2], sp[3], sp[4], ob(sp[5]))
    if k == 'rr':
        return P.ReceiveReady(sp[1], sp[2], sp[3])
    if k == 'rnr':
        return P.ReceiveNotReady(sp[1], sp[2], sp[3])
    if k == 'unknown':
        return P.UnknownProtocolDataUnit(sp[1], sp[2], sp[3], ob(sp[4]))
    raise ValueError(k)


def xb(b):
    return 'x' + bytes(b).hex()


def oz(v):
    return 'n' if v is None else str(v)


def obs(v):
    return 'n' if v is None else xb(v)


def spec_str(sp):
    """the model driver's PDU syntax for a spec"""
    k = sp[0]
    if k == 'agf':
        return 'agf(%d,%d,[%s])' % (sp[1], sp[2], ';'.join(spec_str(x) for x in sp[3]))
    if k == 'pax':
        return 'pax(%d,%d,%s)' % (sp[1], sp[2], ','.join(oz(v) for v in sp[3:8]))
    if k in ('ui',):
        return 'ui(%d,%d,x%s)' % (sp[1], sp[2], sp[3])
    if k == 'connect':
        return 'connect(%d,%d,%d,%d,%s)' % (sp[1], sp[2], sp[3], sp[4], 'n' if sp[5] is None else 'x' + sp[5])
    if k == 'snl':
        return 'snl(%d,%d,[%s],[%s])' % (sp[1], sp[2], ';'.join('%d/x%s' % (t, n) for t, n in sp[3]),
                                         ';'.join('%d/%d' % (t, a) for t, a in sp[4]))
    if k == 'dps':
        return 'dps(%d,%d,%s,%s)' % (sp[1], sp[2], 'n' if sp[3] is None else 'x' + sp[3], 'n' if sp[4] is None else 'x' + sp[4])
    if k == 'info':
        return 'info(%d,%d,%d,%d,x%s)' % (sp[1], sp[2], sp[3], sp[4], sp[5])
    if k == 'unknown':
        return 'unknown(%d,%d,%d,x%s)' % (sp[1], sp[2], sp[3], sp[4])
    return '%s(%s)' % (k, ','.join(str(v) for v in sp[1:]))


def dump(p):
    """field-wise observation of a Python PDU object, in the model driver's syntax"""
    t = type(p)
    if t is P.Symmetry:
        return 'symm(%d,%d)' % (p.dsap, p.ssap)
    if t is P.ParameterExchange:
        return 'pax(%d,%d,%s)' % (p.dsap, p.ssap, ','.join(oz(v) for v in (p._version, p._miux, p._wks, p._lto, p._opt)))
    if t is P.AggregatedFrame:
        return 'agf(%d,%d,[%s])' % (p.dsap, p.ssap, ';'.join(dump(q) for q in p))
    if t is P.UnnumberedInformation:
        return 'ui(%d,%d,%s)' % (p.dsap, p.ssap, xb(p.data))
    if t is P.Connect:
        return 'connect(%d,%d,%d,%d,%s)' % (p.dsap, p.ssap, p.miu, p.rw, obs(p.sn))
    if t is P.Disconnect:
        return 'disc(%d,%d)' % (p.dsap, p.ssap)
    if t is P.ConnectionComplete:
        return 'cc(%d,%d,%d,%d)' % (p.dsap, p.ssap, p.miu, p.rw)
    if t is P.DisconnectedMode:
        return 'dm(%d,%d,%d)' % (p.dsap, p.ssap, p.reason)
    if t is P.FrameReject:
        return 'frmr(%s)' % ','.join(str(v) for v in (p.dsap, p.ssap, p.rej_flags, p.rej_ptype, p.ns, p.nr, p.vs, p.vr, p.vsa, p.vra))
    if t is P.ServiceNameLookup:
        return 'snl(%d,%d,[%s],[%s])' % (p.dsap, p.ssap, ';'.join('%d/%s' % (a, xb(b)) for a, b in p.sdreq),
                                         ';'.join('%d/%d' % (a, b) for a, b in p.sdres))
    if t is P.DataProtectionSetup:
        return 'dps(%d,%d,%s,%s)' % (p.dsap, p.ssap, obs(p.ecpk), obs(p.rn))
    if t is P.Information:
        return 'info(%d,%d,%d,%d,%s)' % (p.dsap, p.ssap, p.ns, p.nr, xb(p.data))
    if t is P.ReceiveReady:
        return 'rr(%d,%d,%d)' % (p.dsap, p.ssap, p.nr)
    if t is P.ReceiveNotReady:
        return 'rnr(%d,%d,%d)' % (p.dsap, p.ssap, p.nr)
    if t is P.UnknownProtocolDataUnit:
        return 'unknown(%d,%d,%d,%s)' % (p.ptype, p.dsap, p.ssap, xb(p.payload))
    return '?' + t.__name__


def dump_norm(p):
    """dump with the empty service name / key / nonce identified with None (neither is encoded)"""
    t = type(p)
    if t is P.Connect:
        return 'connect(%d,%d,%d,%d,%s)' % (p.dsap, p.ssap, p.miu, p.rw, obs(p.sn or None))
    if t is P.DataProtectionSetup:
        return 'dps(%d,%d,%s,%s)' % (p.dsap, p.ssap, obs(p.ecpk or None), obs(p.rn or None))
    if t is P.AggregatedFrame:
        return 'agf(%d,%d,[%s])' % (p.dsap, p.ssap, ';'.join(dump_norm(q) for q in p))
    return dump(p)


def classify_enc(fn):
    try:
        r = fn()
        return 'ok ' + (bytes(r).hex() or '-')
    except P.EncodeError:
        return 'err EncodeError'
    except Exception as e:  # noqa
        n = type(e).__name__
        return 'crash ' + ('struct.error' if n == 'error' else n)


def impl_decode(data, off, size):
    """observation of the real decode: the model driver's 'dec' answer"""
    try:
        q = P.decode(data, off, size)
    except P.DecodeError:
        return 'err DecodeError', None
    except Exception as e:  # noqa
        n = type(e).__name__
        return 'crash ' + ('struct.error' if n == 'error' else n), None
    try:
        ln = len(q)
    except Exception as e:  # noqa
        ln = 'exc:' + type(e).__name__
    return 'ok %s re=%s len=%s' % (dump(q), classify_enc(q.encode).replace(' ', ':'), ln), q


# ------------------------------------------------------------------------------------------------
# independent reading of the LLCP 1.3 frame formats (works on the PDU's own bytes only)
#   header: DSAP(6) PTYPE(4) SSAP(6); PTYPE table 4.3; TLV formats 4.4/4.5; AGF 4.3.3; FRMR 4.3.9
#   liberal where the format leaves room: octets after the defined fields and parameters of a type that the PDU does
#   not define are ignored; a parameter with a wrong length or one that does not fit into the PDU makes it malformed
# ------------------------------------------------------------------------------------------------
def ref_tlvs(b):
    out = []
    i = 0
    while len(b) - i >= 2:
        t, ln = b[i], b[i + 1]
        if i + 2 + ln > len(b):
            return None
        out.append((t, b[i + 2:i + 2 + ln]))
        i += 2 + ln
    return out


FIXLEN = {1: 1, 2: 2, 3: 2, 4: 1, 5: 1, 7: 1, 9: 2}


def ref_decode(w, inner=False):
    w = bytes(w)
    if len(w) < 2:
        return None
    dsap, ptype, ssap = w[0] >> 2, ((w[0] & 3) << 2) | (w[1] >> 6), w[1] & 63
    info = w[2:]
    if ptype in (1, 4, 6, 9, 10):
        tl = ref_tlvs(info)
        if tl is None:
            return None
        for t, v in tl:
            if t in FIXLEN and len(v) != FIXLEN[t]:
                return None
            if t == 8 and len(v) < 1:
                return None
    if ptype == 0:
        return 'symm(0,0)' if (dsap, ssap) == (0, 0) and not info else None
    if ptype == 1:
        if (dsap, ssap) != (0, 0):
            return None
        f = {}
        for t, v in tl:
            if t == 1:
                f['v'] = v[0]
            elif t == 2:
                f['m'] = int.from_bytes(v, 'big') % 2048
            elif t == 3:
                f['w'] = int.from_bytes(v, 'big')
            elif t == 4:
                f['l'] = v[0]
            elif t == 7:
                f['o'] = v[0] % 8
        return 'pax(0,0,%s)' % ','.join(oz(f.get(k)) for k in 'vmwlo')
    if ptype == 2:
        if (dsap, ssap) != (0, 0) or inner:
            return None
        subs = []
        i = 0
        while i < len(info):
            if len(info) - i < 2:
                return None
            n = info[i] * 256 + info[i + 1]
            if i + 2 + n > len(info):
                return None
            s = ref_decode(info[i + 2:i + 2 + n], inner=True)
            if s is None:
                return None
            subs.append(s)
            i += 2 + n
        return 'agf(0,0,[%s])' % ';'.join(subs)
    if ptype == 3:
        return 'ui(%d,%d,%s)' % (dsap, ssap, xb(info))
    if ptype in (4, 6):
        miu, rw, sn = 128, 1, None
        for t, v in tl:
            if t == 2:
                miu = 128 + int.from_bytes(v, 'big') % 2048
            elif t == 5:
                rw = v[0] % 16
            elif t == 6 and ptype == 4:
                sn = v
        if ptype == 4:
            return 'connect(%d,%d,%d,%d,%s)' % (dsap, ssap, miu, rw, obs(sn))
        return 'cc(%d,%d,%d,%d)' % (dsap, ssap, miu, rw)
    if ptype == 5:
        return 'disc(%d,%d)' % (dsap, ssap)
    if ptype == 7:
        return 'dm(%d,%d,%d)' % (dsap, ssap, info[0]) if len(info) == 1 else None
    if ptype == 8:
        if len(info) != 4:
            return None
        nib = [x for b_ in info for x in (b_ >> 4, b_ & 15)]
        return 'frmr(%d,%d,%s)' % (dsap, ssap, ','.join(str(x) for x in nib))
    if ptype == 9:
        if (dsap, ssap) != (1, 1):
            return None
        rq = ['%d/%s' % (v[0], xb(v[1:])) for t, v in tl if t == 8]
        rs = ['%d/%d' % (v[0], v[1]) for t, v in tl if t == 9]
        return 'snl(1,1,[%s],[%s])' % (';'.join(rq), ';'.join(rs))
    if ptype == 10:
        if (dsap, ssap) != (0, 0):
            return None
        e = r = None
        for t, v in tl:
            if t == 10:
                e = v
            elif t == 11:
                r = v
        return 'dps(0,0,%s,%s)' % (obs(e), obs(r))
    if ptype in (12, 13, 14):
        if len(info) < 1:
            return None
        ns, nr = info[0] >> 4, info[0] & 15
        if ptype == 12:
            return 'info(%d,%d,%d,%d,%s)' % (dsap, ssap, ns, nr, xb(info[1:]))
        return '%s(%d,%d,%d)' % ('rr' if ptype == 13 else 'rnr', dsap, ssap, nr)
    return 'unknown(%d,%d,%d,%s)' % (ptype, dsap, ssap, xb(info))


# ------------------------------------------------------------------------------------------------
# the property's value ranges (text of C11), independent of the model's validb
# ------------------------------------------------------------------------------------------------
def in_r(v, lo, hi):
    return v is not None and lo <= v <= hi


def spec_len(sp):
    """length of the encoding according to the frame formats"""
    k = sp[0]
    hl = lambda h: len(h) // 2  # noqa
    if k in ('symm', 'disc'):
        return 2
    if k == 'pax':
        return 2 + sum(n for v, n in zip(sp[3:8], (3, 4, 4, 3, 3)) if v is not None)
    if k == 'agf':
        return 2 + sum(2 + spec_len(x) for x in sp[3])
    if k == 'ui':
        return 2 + hl(sp[3])
    if k in ('connect', 'cc'):
        return 2 + (4 if sp[3] > 128 else 0) + (3 if sp[4] != 1 else 0) + (2 + hl(sp[5]) if k == 'connect' and sp[5] else 0)
    if k == 'dm':
        return 3
    if k == 'frmr':
        return 6
    if k == 'snl':
        return 2 + sum(3 + hl(n) for _t, n in sp[3]) + 4 * len(sp[4])
    if k == 'dps':
        return 2 + sum(2 + hl(h) for h in sp[3:5] if h)
    if k == 'info':
        return 3 + hl(sp[5])
    if k in ('rr', 'rnr'):
        return 3
    return 2 + hl(sp[4])


def prop_valid(sp, inner=False):
    k = sp[0]
    sap = lambda a, b: in_r(a, 0, 63) and in_r(b, 0, 63)  # noqa
    oi = lambda v, hi: v is None or in_r(v, 0, hi)  # noqa
    obn = lambda h: h is None or 1 <= len(h) // 2 <= 255  # noqa
    if k == 'symm':
        return (sp[1], sp[2]) == (0, 0)
    if k == 'pax':
        return (sp[1], sp[2]) == (0, 0) and oi(sp[3], 255) and oi(sp[4], 2047) and oi(sp[5], 65535) and oi(sp[6], 255) and oi(sp[7], 7)
    if k == 'agf':
        return (sp[1], sp[2]) == (0, 0) and not inner and all(x[0] != 'agf' and prop_valid(x, True) and spec_len(x) <= 65535 for x in sp[3])
    if k in ('ui', 'disc'):
        return sap(sp[1], sp[2])
    if k == 'connect':
        return sap(sp[1], sp[2]) and in_r(sp[3], 128, 128 + 2047) and in_r(sp[4], 0, 15) and obn(sp[5])
    if k == 'cc':
        return sap(sp[1], sp[2]) and in_r(sp[3], 128, 128 + 2047) and in_r(sp[4], 0, 15)
    if k == 'dm':
        return sap(sp[1], sp[2]) and in_r(sp[3], 0, 255)
    if k == 'frmr':
        return sap(sp[1], sp[2]) and all(in_r(v, 0, 15) for v in sp[3:11])
    if k == 'snl':
        return (sp[1], sp[2]) == (1, 1) and all(in_r(t, 0, 255) and len(n) // 2 <= 254 for t, n in sp[3]) and \
            all(in_r(t, 0, 255) and in_r(a, 0, 255) for t, a in sp[4])
    if k == 'dps':
        return (sp[1], sp[2]) == (0, 0) and obn(sp[3]) and obn(sp[4])
    if k == 'info':
        return sap(sp[1], sp[2]) and in_r(sp[3], 0, 15) and in_r(sp[4], 0, 15)
    if k in ('rr', 'rnr'):
        return sap(sp[1], sp[2]) and in_r(sp[3], 0, 15)
    if k == 'unknown':
        return sp[1] in (11, 15) and sap(sp[2], sp[3])
    return False


# ------------------------------------------------------------------------------------------------
# generators
# ------------------------------------------------------------------------------------------------
class Gen:
    def __init__(self, rng):
        self.rng = rng

    def pick(self, good, bad, pbad):
        r = self.rng
        return r.choice(bad) if r.random() < pbad else r.choice(good)

    def sap(self, pbad):
        r = self.rng
        return self.pick([0, 1, 2, 4, 16, 31, 32, 62, 63, r.randrange(64)], [-1, 64, 65, 255, 1000], pbad)

    def n4(self, pbad):
        return self.pick([0, 1, 7, 8, 14, 15, self.rng.randrange(16)], [-1, 16, 17, 255, 256], pbad)

    def blob(self, lens):
        r = self.rng
        n = r.choice(lens)
        return bytes(r.randrange(256) for _ in range(n)).hex()

    def payload(self):
        r = self.rng
        return self.blob([0, 0, 1, 2, 3, 5, 16, 127, 128, 129, 255, 256, r.randrange(0, 300), r.choice([1000, 2175, 2176, 2200])])

    def spec(self, kind=None, pbad=0.0, inner=False):
        r = self.rng
        kinds = ['symm', 'pax', 'ui', 'connect', 'disc', 'cc', 'dm', 'frmr', 'snl', 'dps', 'info', 'rr', 'rnr', 'unknown']
        k = kind or r.choice(kinds + ([] if inner else ['agf', 'agf']))
        z = lambda: self.pick([0], [1, 63, -1], pbad)  # noqa
        if k == 'symm':
            return ['symm', z(), z()]
        if k == 'pax':
            def o(good, bad):
                return None if r.random() < 0.35 else self.pick(good, bad, pbad)
            return ['pax', z(), z(), o([0, 1, 0x10, 0x11, 0x13, 255, r.randrange(256)], [-1, 256, 1000]),
                    o([0, 1, 120, 0x7FE, 0x7FF, r.randrange(2048)], [-1, 0x800, 0xFFFF, 0x10000]),
                    o([0, 1, 3, 0x8000, 0xFFFF, r.randrange(65536)], [-1, 0x10000]),
                    o([0, 1, 10, 100, 254, 255, r.randrange(256)], [-1, 256]),
                    o([0, 1, 2, 3, 4, 7], [-1, 8, 255, 256])]
        if k == 'agf':
            n = r.choice([0, 1, 1, 2, 2, 3, 5, r.randrange(0, 12)])
            subs = [self.spec(pbad=pbad / 2, inner=True) for _ in range(n)]
            if pbad and r.random() < pbad:
                subs.insert(r.randrange(len(subs) + 1), self.spec('agf', 0.0) if r.random() < 0.7 else ['ui', 1, 1, 'ab' * 65540])
            return ['agf', z(), z(), subs]
        if k == 'ui':
            return ['ui', self.sap(pbad), self.sap(pbad), self.payload()]
        if k in ('connect', 'cc'):
            miu = self.pick([128, 129, 130, 248, 1000, 2174, 2175, 128 + r.randrange(2048)], [0, 1, 127, 2176, 5000, 65663, 65664, -5], pbad)
            rw = self.pick([0, 0, 1, 1, 2, 7, 8, 14, 15, r.randrange(16)], [16, 255, 256, -1], pbad)
            if k == 'cc':
                return ['cc', self.sap(pbad), self.sap(pbad), miu, rw]
            sn = r.choice([None, None, 'urn:nfc:sn:snep'.encode().hex(), self.blob([1, 2, 30, 254, 255]),
                           self.blob([r.randrange(1, 256)])])
            if pbad and r.random() < pbad:
                sn = r.choice(['', self.blob([256, 300])])
            return ['connect', self.sap(pbad), self.sap(pbad), miu, rw, sn]
        if k == 'disc':
            return ['disc', self.sap(pbad), self.sap(pbad)]
        if k == 'dm':
            return ['dm', self.sap(pbad), self.sap(pbad), self.pick([0, 1, 2, 3, 0x10, 0x11, 0x20, 0x21, 255, r.randrange(256)], [-1, 256], pbad)]
        if k == 'frmr':
            return ['frmr', self.sap(pbad), self.sap(pbad)] + [self.n4(pbad / 3) for _ in range(8)]
        if k == 'snl':
            one = lambda: self.pick([1], [0, 2, 63], pbad)  # noqa
            rq = [[self.pick([0, 1, 127, 255, r.randrange(256)], [-1, 256], pbad / 2),
                   self.blob([0, 1, 15, 253, 254, r.randrange(0, 255)]) if r.random() > pbad / 2 else self.blob([255, 256])]
                  for _ in range(r.choice([0, 0, 1, 1, 2, 3, 8]))]
            rs = [[self.pick([0, 1, 255, r.randrange(256)], [-1, 256], pbad / 2), self.pick([0, 1, 16, 63, 64, 255], [-1, 256], pbad / 2)]
                  for _ in range(r.choice([0, 0, 1, 1, 2, 3, 40]))]
            return ['snl', one(), one(), rq, rs]
        if k == 'dps':
            e = r.choice([None, self.blob([64]), self.blob([1, 2, 63, 255, r.randrange(1, 256)])])
            n = r.choice([None, self.blob([8]), self.blob([1, 7, 255, r.randrange(1, 256)])])
            if pbad and r.random() < pbad:
                e = r.choice(['', self.blob([256])])
            return ['dps', z(), z(), e, n]
        if k == 'info':
            return ['info', self.sap(pbad), self.sap(pbad), self.n4(pbad), self.n4(pbad), self.payload()]
        if k in ('rr', 'rnr'):
            return [k, self.sap(pbad), self.sap(pbad), self.n4(pbad)]
        if k == 'unknown':
            return ['unknown', self.pick([11, 15], [0, 3, 12, 16, 1023, 1024, -1], pbad), self.sap(pbad), self.sap(pbad), self.payload()]
        raise ValueError(k)


def nest_agf(n, leaf=b'\x00\x00'):
    b = leaf
    for _ in range(n):
        b = b'\x00\x80' + len(b).to_bytes(2, 'big') + b
    return b


TAILS = [b'', b'\x00', b'\x01', b'\x10', b'\xff', b'\x00\x00', b'\x02\x02', b'\x05\x01\x00', b'\x05\x01\x1f', b'\x02\x02\xff\xff',
         b'\x06\x00', b'\x06\x03abc', b'\x06\x05ab', b'\x00\x02\x00\x00', b'\x00\x02\x00\x80', b'\x00\x03\x0c\xc1', b'\x00\x01\x00',
         b'\x08\x01\x07', b'\x08\x00', b'\x09\x02\x01\x10', b'\x01\x01\x13\x07\x01\x03', b'\x0a\x02ab\x0b\x01c', b'\x12\x34\x56\x78',
         b'\x12\x34\x56\x78\x9a', b'\x00\x04\x11\x20\x06\x05\x00\x05\x0c\xc1\x41\x42\x43', b'\x04\x01\x64\x03\x02\x00\x13']


def mutate(rng, b):
    b = bytearray(b)
    k = rng.randrange(9)
    if k == 0 and b:
        i = rng.randrange(len(b))
        b[i] ^= 1 << rng.randrange(8)
    elif k == 1 and b:
        del b[rng.randrange(len(b)):]
    elif k == 2:
        b += bytes(rng.randrange(256) for _ in range(rng.choice([1, 1, 2, 3, 8])))
    elif k == 3 and b:
        i = rng.randrange(len(b))
        b[i] = rng.choice([0, 1, 2, 255, (len(b) - i) & 255, (len(b) - i - 1) & 255, (len(b) - i + 1) & 255, rng.randrange(256)])
    elif k == 4 and len(b) > 2:
        i = rng.randrange(2, len(b))
        del b[i:i + rng.choice([1, 2, 3])]
    elif k == 5 and len(b) > 2:
        i = rng.randrange(2, len(b) + 1)
        b[i:i] = bytes(rng.randrange(256) for _ in range(rng.choice([1, 2, 3])))
    elif k == 6 and len(b) >= 2:
        # another PDU type over the same body
        pt = rng.randrange(16)
        b[0] = (b[0] & 0xFC) | (pt >> 2)
        b[1] = (b[1] & 0x3F) | ((pt & 3) << 6)
    elif k == 7 and len(b) > 3:
        i = rng.randrange(2, len(b) - 1)
        b[i], b[i + 1] = b[i + 1], b[i]
    elif k == 8 and len(b) > 4:
        i = rng.randrange(2, len(b))
        b = b[:i] + b[2:i] + b[i:]
    return bytes(b)


def agf_of(encs):
    return b'\x00\x80' + b''.join(len(e).to_bytes(2, 'big') + e for e in encs)


# ------------------------------------------------------------------------------------------------
# monitor
# ------------------------------------------------------------------------------------------------
def kind_of(s):
    return s.split('(', 1)[0]


def first_diff_field(a, b):
    """name the first differing field of two dumps of the same class (for the violation key)"""
    names = {'connect': ['dsap', 'ssap', 'miu', 'rw', 'sn'], 'cc': ['dsap', 'ssap', 'miu', 'rw'],
             'pax': ['dsap', 'ssap', 'version', 'miux', 'wks', 'lto', 'opt']}
    ka = kind_of(a)
    if ka != kind_of(b):
        return 'type'
    if ka == 'agf':
        return 'member'
    fa, fb = a[len(ka) + 1:-1].split(','), b[len(ka) + 1:-1].split(',')
    for i, (x, y) in enumerate(zip(fa, fb)):
        if x != y:
            n = names.get(ka)
            return n[i] if n and i < len(n) else 'field%d' % i
    return 'fields'


def monitor_pdu(ck, sp):
    """property text on a valid PDU: decode(encode(p)) has the same type and field values; len(p) == len(encode(p))"""
    p = build(sp)
    want = dump(p)
    k = sp[0]
    case = {'kind': 'pdu', 'spec': sp}
    try:
        e = p.encode()
    except Exception as ex:  # noqa
        ck.violation('encode-valid-raises:%s:%s' % (k, type(ex).__name__), 'encode() of a PDU with valid field values raises', case)
        return
    try:
        ln = len(p)
    except Exception as ex:  # noqa
        ck.violation('len-raises:%s:%s' % (k, type(ex).__name__), 'len() of a PDU with valid field values raises', case)
        return
    if ln != len(e):
        ck.violation('len:%s' % k, 'len(pdu) = %d differs from len(encode(pdu)) = %d for %s' % (ln, len(e), want[:80]), case)
    try:
        q = P.decode(e)
    except Exception as ex:  # noqa
        ck.violation('roundtrip:%s:raises:%s' % (k, type(ex).__name__), 'decode(encode(pdu)) raises for %s' % want[:80], case)
        return
    got = dump(q)
    if got != want:
        ck.violation('roundtrip:%s:%s' % (k, first_diff_field(want, got)),
                     'decode(encode(p)) differs from p: %s -> %s -> %s' % (want[:100], bytes(e).hex()[:60], got[:100]), case)


def monitor_bytes(ck, data, off, size, obs_, q, tag):
    """property text on a byte string (window off,size of data)"""
    case = {'kind': 'bytes', 'data': hx(data), 'offset': off, 'size': size}
    if obs_.startswith('crash'):
        exc = obs_.split()[1]
        w = data[off:off + size] if 0 <= off and off + size <= len(data) else data
        cls = 'agf-nesting' if (exc == 'RecursionError') else ('%02x%02x' % (w[0] & 3, w[1] & 0xC0) if len(w) >= 2 else 'short')
        ck.violation('decode-exception:%s:%s' % (exc, cls), 'decode raises %s instead of DecodeError' % exc, case)
        return
    if q is None:
        return
    w = bytes(data[off:off + size])
    d = dump(q)
    k = kind_of(d)
    # agreement with the independent reader, which sees the PDU's own bytes only
    ref = ref_decode(w)
    if ref != d:
        own = 'own-bytes' if (k == 'agf' or off != 0 or size != len(data)) else 'ref'
        ck.violation('%s:%s' % (own, k), 'decode yields %s but the frame format reads %s (own bytes %s)' % (d[:90], str(ref)[:90], w.hex()[:60]), case)
        return
    # own bytes only: the same window alone decodes to the same PDU
    if off != 0 or size != len(data):
        try:
            alone = dump(P.decode(w))
        except Exception as ex:  # noqa
            alone = 'exc ' + type(ex).__name__
        if alone != d:
            ck.violation('own-bytes:window:' + k, 'PDU decoded from a window depends on bytes outside it: %s vs %s' % (d[:90], alone[:90]), case)
            return
    # re-encoding decodes to an equal PDU, reported length = length of the encoding
    try:
        e = q.encode()
    except Exception as ex:  # noqa
        ck.violation('reencode-raises:%s:%s' % (k, type(ex).__name__), 'a decoded PDU can not be encoded: %s' % d[:90], case)
        return
    try:
        ln = len(q)
    except Exception as ex:  # noqa
        ln = 'exc ' + type(ex).__name__
    if ln != len(e):
        ck.violation('len-decoded:%s' % k, 'len(pdu) = %s differs from len(encode(pdu)) = %d for decoded %s' % (ln, len(e), d[:80]), case)
    try:
        q2 = P.decode(e)
    except Exception as ex:  # noqa
        ck.violation('reencode:%s:raises:%s' % (k, type(ex).__name__), 're-encoding of a decoded PDU does not decode: %s' % d[:90], case)
        return
    if dump_norm(q2) != dump_norm(q) or not (q2 == q):
        ck.violation('reencode:%s:%s' % (k, first_diff_field(dump_norm(q), dump_norm(q2))),
                     're-encoding of a decoded PDU decodes to a different PDU: %s -> %s' % (d[:90], dump(q2)[:90]), case)


# ------------------------------------------------------------------------------------------------
def dec3_digest(b0):
    """the 65536 observations for the 3-byte strings starting with b0 (thorough tier, one process per b0)"""
    h = hashlib.md5()
    bad = []
    for b1 in range(256):
        for b2 in range(256):
            d = bytes((b0, b1, b2))
            o, q = impl_decode(d, 0, 3)
            h.update(o.encode() + b'\n')
            if o.startswith('crash'):
                bad.append((d.hex(), o))
            elif q is not None:
                ref = ref_decode(d)
                if ref != dump(q):
                    bad.append((d.hex(), 'ref ' + str(ref) + ' vs ' + dump(q)))
                else:
                    try:
                        e = q.encode()
                        q2 = P.decode(e)
                        if len(q) != len(e) or dump_norm(q2) != dump_norm(q):
                            bad.append((d.hex(), 'reencode'))
                    except Exception as ex:  # noqa
                        bad.append((d.hex(), 'reencode raises ' + type(ex).__name__))
    return b0, h.hexdigest(), bad[:5]


def main():
    ck = Check('C11')
    ck.trusted = ['Coq 8.16.1 kernel (vm_compute only in the non-vacuity example; no native_compute)',
                  'translate/kspec_c11.py (fail-closed translators: __len__ methods; codec kernels cut out of pdu.py and handed to py2coq)',
                  'translate/py2coq.py; translate/kspec_c10.py (MIUX reserved-bit test and mask kernels, cited from Gen/CollectK.v)',
                  'extraction: ExtrOcamlBasic only; extract/c11_run.ml driver (PDU text syntax parser/printer); OCaml 4.13.1',
                  'correspondence harness harness/prop/c11.py (field dump of the Python PDU objects, reference reader)']
    ck.assumptions = ['whole-function translation (Gen/PduF.v): PDU field values are ints / bytes (`x is None` on them is False, rw / miu are never None), '
                      '`size` is always passed, Parameter.decode\'s dynamically typed V is represented by the model\'s tlv constructors, '
                      'Python recursion decode -> AggregatedFrame.decode -> decode is fuelled (depth 400, proved never to exceed 2)',
                      '__len__ bridge: Connect/ConnectionComplete .miu and .rw are ints (never None), as produced by decode and by every constructor call in nfcpy',
                      'offset >= 0 (a negative offset makes struct.unpack_from index from the end; no caller does that)',
                      'PDU field values are Python ints / bytes (None only where the class defines it as "absent")',
                      'encode()/len() of hand-built AggregatedFrame objects nested deeper than CPython\'s recursion limit '
                      'are outside the model (a valid aggregate does not contain aggregates)',
                      'field-wise equality after re-encoding identifies an empty service name / ECPK / RN with an absent one '
                      '(neither is encoded); Python\'s own == (equality of encodings) holds without this identification']
    ck.coq(gen=['PduLen', 'PduK', 'CollectK', 'PduF'], targets=TARGETS, props='C11')
    mr = ck.model()
    if mr is None:
        ck.finish()
    rng = ck.rng
    quick = ck.tier == 'quick'
    g = Gen(rng)

    lines, expect = [], []

    def add(line, impl, kind):
        lines.append(line)
        expect.append((impl, kind))

    def pdu_case(sp, kind):
        """one structured PDU: correspondence of encode / len / valid, then the monitor if its values are valid"""
        try:
            p = build(sp)
        except Exception:  # noqa
            return
        s = spec_str(sp)
        add('enc ' + s, classify_enc(p.encode), kind + ':enc')
        try:
            ln = str(len(p))
        except Exception as ex:  # noqa
            ln = 'exc ' + type(ex).__name__
        add('len ' + s, ln, kind + ':len')
        v = prop_valid(sp)
        add('valid ' + s, 'true' if v else 'false', kind + ':valid-domain')
        ck.case(('p', s), v, {'pdu': s[:100]} if v else None)
        ck.count('pdu:' + sp[0] + (':valid' if v else ':invalid'))
        if v:
            monitor_pdu(ck, sp)

    def bytes_case(data, off=0, size=None, kind='bytes', asarray=False):
        size = len(data) if size is None else size
        d = bytearray(data) if asarray else bytes(data)
        o, q = impl_decode(d, off, size)
        add('dec %s %d %d' % (hx(data) or '-', off, size), o, kind)
        ck.case(('b', bytes(data), off, size), q is not None or len(data) > 2,
                {'bytes': hx(data)[:60], 'result': o[:80]} if q is not None else None)
        ck.count(kind + (':ok' if q is not None else (':crash' if o.startswith('crash') else ':err')))
        monitor_bytes(ck, bytes(data), off, size, o, q, kind)
        return q

    # ---------------------------------------------------------------- replay of a recorded case
    if ck.replay:
        rec = json.load(open(ck.replay))
        c = rec.get('case', {})
        if c.get('kind') == 'pdu':
            pdu_case(c['spec'], 'replay')
        elif c.get('kind') == 'bytes':
            bytes_case(bytes.fromhex(c['data']), c['offset'], c['size'], 'replay')
    else:
        # ------------------------------------------------------------ corpus of minimised past failures
        for sp in (['connect', 4, 32, 128, 0, None], ['cc', 4, 32, 128, 0], ['connect', 1, 32, 2175, 0, '75726e3a6e66633a736e3a736e6570'],
                   ['connect', 4, 32, 128, 1, None], ['cc', 63, 63, 129, 15],
                   ['agf', 0, 0, [['connect', 4, 32, 128, 0, None], ['cc', 4, 32, 300, 0]]]):
            pdu_case(sp, 'corpus')
        H = bytes.fromhex
        bytes_case(H('0080') + H('0004') + H('11200605') + H('0005') + H('0cc1414243'), kind='corpus')      # TLV over-read in AGF
        bytes_case(H('11200605') + b'ABCDE', 0, 4, kind='corpus')                                          # TLV over-read, window
        bytes_case(H('0080') + H('0005') + H('0cc1') + b'XYZ', 0, 6, kind='corpus')                        # sub-PDU beyond the AGF
        bytes_case(H('0080') + H('0006') + H('008000050cc1') + H('0003') + H('0cc141'), kind='corpus')     # the same, nested
        bytes_case(H('0080') + H('0002') + H('0000') + H('00') + H('020000'), 0, 7, kind='corpus')         # 1 byte length field
        bytes_case(H('0080000400800000'), kind='corpus')                                                   # AGF in AGF
        bytes_case(H('008000020080'), kind='corpus')                                                       # EMPTY AGF in AGF (seeded C11-2)
        bytes_case(H('00800002000000020080'), kind='corpus')                                               # ... as last member
        bytes_case(H('008000020080000480c14142'), kind='corpus')                                           # ... as first member
        for n in (2, 3, 100, 400, 496, 497, 498, 499, 520, 540):
            bytes_case(nest_agf(n), kind='corpus-nest')
        bytes_case(H('004001011302020003'), kind='corpus')
        bytes_case(H('1120') + H('0600'), kind='corpus')                                                   # empty service name
        bytes_case(H('0280') + H('0a00') + H('0b00'), kind='corpus')

        # ------------------------------------------------------------ structured PDUs
        kinds = ['symm', 'pax', 'agf', 'ui', 'connect', 'disc', 'cc', 'dm', 'frmr', 'snl', 'dps', 'info', 'rr', 'rnr', 'unknown']
        per = 260 if quick else 4000
        for k in kinds:
            for i in range(per):
                pdu_case(g.spec(k, pbad=0.0 if i % 3 else 0.35), 'pdu')
        # all RW x a MIU set, all SAP pairs on the diagonals, all N(S)/N(R)
        for rw in range(16):
            for miu in (128, 129, 2175):
                pdu_case(['connect', 32, 16, miu, rw, None], 'pdu-sweep')
                pdu_case(['cc', 32, 16, miu, rw], 'pdu-sweep')
        for a in range(64):
            pdu_case(['disc', a, 63 - a], 'pdu-sweep')
            pdu_case(['ui', a, a, '00'], 'pdu-sweep')
            pdu_case(['unknown', 11 if a % 2 else 15, a, 63 - a, 'ff'], 'pdu-sweep')
        for ns in range(16):
            for nr in range(16):
                pdu_case(['info', 5, 6, ns, nr, 'aa'], 'pdu-sweep')
                pdu_case(['frmr', 5, 6, ns, nr, nr, ns, 15 - ns, 15 - nr, ns, nr], 'pdu-sweep')
            pdu_case(['rr', 5, 6, ns], 'pdu-sweep')
            pdu_case(['rnr', 5, 6, ns], 'pdu-sweep')
        for m in ([0, 1, 2, 1023, 1024, 2046, 2047] if quick else range(2048)):
            pdu_case(['pax', 0, 0, None, m, None, None, None], 'pdu-sweep')
            pdu_case(['connect', 1, 2, 128 + m, 1, None], 'pdu-sweep')
        for n in ([1, 2, 254, 255] if quick else range(1, 256)):
            pdu_case(['connect', 1, 2, 128, 1, 'ab' * n], 'pdu-sweep')
            pdu_case(['dps', 0, 0, 'cd' * n, 'ef' * n], 'pdu-sweep')
            pdu_case(['snl', 1, 1, [[n, 'ab' * (n - 1)]], []], 'pdu-sweep')

        # ------------------------------------------------------------ byte strings
        bytes_case(b'')
        for a in range(256):
            bytes_case(bytes([a]), kind='short')
        tails_q = TAILS
        for a in range(256):
            for b in range(256):
                hd = bytes([a, b])
                bytes_case(hd, kind='hdr')
                if quick:
                    ts = [rng.choice(tails_q), bytes(rng.randrange(256) for _ in range(rng.choice([1, 2, 3, 4, 6])))]
                else:
                    ts = tails_q + [bytes(rng.randrange(256) for _ in range(rng.choice([1, 2, 3, 4, 6, 9]))) for _ in range(4)]
                for t in ts:
                    bytes_case(hd + t, kind='hdr-tail')
        # valid encodings, their mutations, aggregates of them, windows
        nenc = 1500 if quick else 20000
        encs = []
        for _ in range(nenc):
            sp = g.spec(pbad=0.0)
            try:
                e = build(sp).encode()
            except Exception:  # noqa
                continue
            encs.append(e)
            bytes_case(e, kind='valid', asarray=rng.random() < 0.2)
            for _ in range(3 if quick else 5):
                m = mutate(rng, e)
                if rng.random() < 0.3:
                    m = mutate(rng, m)
                bytes_case(m, kind='mutated')
            if rng.random() < 0.5:
                pre = bytes(rng.randrange(256) for _ in range(rng.choice([0, 1, 2, 5])))
                post = bytes(rng.randrange(256) for _ in range(rng.choice([0, 1, 2, 3, 9])))
                cut = rng.choice([0, 0, 1, 2])
                bytes_case(pre + e + post, len(pre), max(len(e) - cut, 0), kind='window')
        small = [e for e in encs if len(e) < 300 and e[:2] != b'\x00\x80']
        for _ in range(1200 if quick else 15000):
            subs = [rng.choice(small) for _ in range(rng.choice([1, 2, 2, 3, 4, 7]))]
            a = agf_of(subs)
            bytes_case(a, kind='agf')
            b = bytearray(a)
            # corrupt one of the length fields / splice sub-PDUs
            pos = 2
            lens = []
            for s_ in subs:
                lens.append(pos)
                pos += 2 + len(s_)
            i = rng.choice(lens)
            delta = rng.choice([-3, -2, -1, 1, 2, 3, 5, 255])
            v = max(0, min(65535, b[i] * 256 + b[i + 1] + delta))
            b[i], b[i + 1] = v >> 8, v & 255
            bytes_case(bytes(b), kind='agf-lenfield')
            bytes_case(mutate(rng, a), kind='agf-mutated')
            if rng.random() < 0.3:
                post = bytes(rng.randrange(256) for _ in range(rng.choice([1, 2, 4, 8])))
                bytes_case(bytes(b) + post, 0, len(b), kind='agf-window')
                bytes_case(a + post, 0, len(a) + rng.choice([0, 1]), kind='agf-window')
            if rng.random() < 0.15:
                bytes_case(agf_of([a] + subs[:1]), kind='agf-nested')
        # every PDU type as a bare 2-byte header (and header + short tails) as a member of an aggregate,
        # at first / middle / last / only position and one level deeper (member of a nested aggregate)
        sym, uim = b'\x00\x00', b'\x80\xc1AB'
        mtails = [b'', b'\x00', b'\x10', b'\x00\x00', b'\x05\x01\x00', b'\x00\x02\x00\x80', b'\x06\x00',
                  b'\x12\x34\x56\x78']
        for pt in range(16):
            for dsap, ssap in ((0, 0), (1, 1), (32, 16), (63, 63)):
                hd = bytes([(dsap << 2) | (pt >> 2), ((pt & 3) << 6) | ssap])
                for t in (mtails if (dsap, ssap) != (63, 63) else mtails[:2]):
                    m = hd + t
                    for subs in ([m], [m, uim], [sym, m, uim], [sym, m], [m, m]):
                        bytes_case(agf_of(subs), kind='agf-member')
                    bytes_case(agf_of([agf_of([m])]), kind='agf-member-nested')
                    bytes_case(agf_of([sym, agf_of([m, uim])]), kind='agf-member-nested')
                    bytes_case(agf_of([sym, agf_of([sym, m]), uim]), kind='agf-member-nested')
        # aggregates whose members are aggregates with 0 / 1 members (the empty one is exactly a header)
        for inner in (b'\x00\x80', agf_of([sym]), agf_of([b'\x00\x80'])):
            for subs in ([inner], [inner, uim], [sym, inner], [sym, inner, uim], [inner, inner]):
                bytes_case(agf_of(subs), kind='agf-nested')
        for n in ([1, 2, 5, 50, 300, 495, 500, 543] if quick else list(range(1, 40)) + list(range(480, 545, 3))):
            bytes_case(nest_agf(n, rng.choice(small)), kind='agf-nested')
        # random strings up to 2200 bytes, biased to the interesting headers
        for _ in range(2500 if quick else 40000):
            n = rng.choice([3, 4, 5, 6, 7, 8, 12, 20, 40, 128, 130, 300, rng.randrange(3, 2201), rng.randrange(3, 64)])
            d = bytearray(rng.randrange(256) for _ in range(n))
            if rng.random() < 0.7:
                pt = rng.randrange(16)
                sap = rng.choice([(0, 0), (1, 1), (rng.randrange(64), rng.randrange(64))])
                d[0] = (sap[0] << 2) | (pt >> 2)
                d[1] = ((pt & 3) << 6) | sap[1]
            if rng.random() < 0.5 and n > 6:
                # make the body look like TLVs
                i = 2
                while i + 2 <= n:
                    d[i] = rng.randrange(0, 14)
                    d[i + 1] = rng.choice([0, 1, 1, 2, 2, 3, rng.randrange(256)])
                    i += 2 + d[i + 1]
            bytes_case(bytes(d), kind='random')
        bytes_case(bytes(2200), kind='random')
        bytes_case(b'\x00\xc0' + bytes(2198), kind='random')

    # ------------------------------------------------------------------ model run + compare
    out = mr.run(lines, timeout=3000)
    nmis = 0
    for line, (impl, kind), got in zip(lines, expect, out):
        if got != impl:
            nmis += 1
            if nmis <= 5:
                ck.correspondence_mismatch(kind, {'input': line[:300], 'impl': impl[:300], 'model': got[:300]})
    ck.cov['traces_validated_against_impl'] = len(lines) - nmis

    # ------------------------------------------------------------------ thorough: all 3-byte strings
    if not quick and not ck.replay:
        with multiprocessing.Pool(14) as pool:
            res = pool.map(dec3_digest, range(256), chunksize=4)
        mo = mr.run(['dec3d %d' % b0 for b0 in range(256)], timeout=3000)
        for (b0, dig, bad), m in zip(res, mo):
            ck.cov['evaluations'] += 65536
            for dh, what in bad:
                ck.violation('dec3:' + what.split()[0], '3-byte string %s: %s' % (dh, what), {'kind': 'bytes', 'data': dh, 'offset': 0, 'size': 3})
            if dig != m:
                # locate
                for b1 in range(256):
                    ans = mr.run(['dec3 %d %d' % (b0, b1)])[0].split('|')
                    for b2 in range(256):
                        o, _q = impl_decode(bytes((b0, b1, b2)), 0, 3)
                        if o != ans[b2]:
                            ck.correspondence_mismatch('dec3', {'input': '%02x%02x%02x' % (b0, b1, b2), 'impl': o, 'model': ans[b2]})
                            break
                    else:
                        continue
                    break
        ck.count('dec3-exhaustive', 256 * 65536)

    ck.finish(level='proof',
              rule='structured PDUs of all 15 classes (boundary field values, 1/3 with out-of-range values; sweeps over RW x MIU, '
                   'SAPs, N(S) x N(R), MIUX, name lengths); byte strings: exhaustive <= 2 bytes, all 65536 headers x tails, valid '
                   'encodings with 9 mutation operators, aggregates with corrupted length fields, windows inside larger buffers, '
                   'nested aggregates up to depth 543, random/TLV-shaped strings up to 2200 bytes (thorough: all 3-byte strings). '
                   'non-trivial = PDU with valid field values, or byte string longer than a header or decoding to a PDU; '
                   'distinct by hash of the case',
              explanation='theorems over all PDUs / all byte strings for the model + differential run of the real '
                          'encode/len/decode against the extracted model + the property text and an independent frame reader '
                          'applied to the real objects')


if __name__ == '__main__':
    main()
