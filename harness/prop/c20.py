"""C20 - tag authentication and MAC-protected reads cannot be fooled.

Obligations: Props/C20.v (DES key-parity invariance, mac_read_sound, auth_iff_mac, auth_same_key,
auth_other_key under the ideal-MAC premise, Lite-S mutual authentication, protect_then_auth for FeliCa Lite / Lite-S / NTAG21x,
DES known answers in Proofs/DesKat.v).
Correspondence: real FelicaLite / FelicaLiteS / NTAG21x objects (nfc.tag.activate over a fake
frontend) talking to harness/sim/auth_tags.py cards that hold a key and compute MACs with an
independently written 3DES, os.urandom of nfc.tag.tt3_sony replaced by the generated challenge,
every single-bit and random multi-bit modification of every response in transit; observations
(return values / exception classes, final _authenticated/_sk/_iv, commands sent) against the
extracted reader model; card responses against the extracted tag model; DES / 3DES-CBC /
generate_mac against pyDes, the simulator's integer DES and the model.
Monitor: an independent reading of the property text on the implementation's observations.
"""
import json
import logging

from common import Check, hx

import nfc
import nfc.clf
import nfc.tag
import nfc.tag.tt2
import nfc.tag.tt2_nxp
import nfc.tag.tt3
import nfc.tag.tt3_sony
import pyDes

from sim import auth_tags as sim

logging.disable(logging.CRITICAL)

IDM = bytes([1, 2, 3, 4, 5, 6, 7, 8])


def hexarg(b):
    return hx(b) if b is not None and len(b) else '-'


# ---------------------------------------------------------------- running the real code
def observe(fn):
    try:
        r = fn()
    except nfc.tag.TagCommandError as e:
        return 'exc TagCommandError:%d' % e.errno
    except Exception as e:  # noqa
        n = type(e).__name__
        return 'exc ' + ('struct.error' if n == 'error' else n)
    if r is True:
        return 'ok true'
    if r is False:
        return 'ok false'
    if r is None:
        return 'ok none'
    if isinstance(r, (bytes, bytearray)):
        return 'ok data ' + hexarg(bytes(r))
    return 'ok ?' + repr(r)


class Urandom:
    """replacement for the `os` module attribute of nfc.tag.tt3_sony: urandom() returns the
    generated challenges in order"""

    def __init__(self):
        self.queue = []

    def urandom(self, n):
        if self.queue:
            return bytes(self.queue.pop(0))
        return bytes(n)


URANDOM = Urandom()


def make_felica(card):
    clf = sim.FakeClf(card)
    t = nfc.clf.RemoteTarget("212F")
    t.sensf_res = bytearray(b'\x01' + card.idm + bytes([0, 0xF1 if card.lites else 0xF0]) + b'\xff' * 6 + b'\x88\xb4')
    tag = nfc.tag.activate(clf, t)
    want = nfc.tag.tt3_sony.FelicaLiteS if card.lites else nfc.tag.tt3_sony.FelicaLite
    assert type(tag) is want, type(tag)
    return clf, tag


def make_mutator(mask):
    def f(rsp):
        return bytes(a ^ b for a, b in zip(rsp, mask))
    return f


def run_felica(lites, init, ops, mutation=None):
    """ops: ('auth', pw, rc) | ('rmac', [blocks]) | ('wmac', data, block) | ('prot', pw|None, rp, pf, rc).
    mutation: None or (response index, xor mask).  returns a result dict"""
    card = sim.FelicaLiteCard(lites=lites, idm=IDM, init=init)
    before = card.init_items()
    clf, tag = make_felica(card)
    if mutation is not None:
        clf.mutations[mutation[0]] = make_mutator(mutation[1])
    obs = []
    marks = []       # transcript position at the start of each op
    for op in ops:
        marks.append(len(clf.transcript))
        if op[0] == 'auth':
            URANDOM.queue = [op[2]]
            obs.append(observe(lambda: tag.authenticate(op[1])))
        elif op[0] == 'rmac':
            obs.append(observe(lambda: tag.read_with_mac(*op[1])))
        elif op[0] == 'wmac':
            obs.append(observe(lambda: tag.write_with_mac(op[1], op[2])))
        elif op[0] == 'prot':
            URANDOM.queue = [op[4]]
            obs.append(observe(lambda: tag.protect(op[1], read_protect=op[2], protect_from=op[3])))
    marks.append(len(clf.transcript))
    state = '%s %s %s' % ('true' if tag._authenticated else 'false', 'none' if tag._sk is None else hexarg(tag._sk),
                          'none' if tag._iv is None else hexarg(tag._iv))
    return dict(obs=obs, state=state, transcript=list(clf.transcript), true_rsp=list(clf.true_rsp), before=before,
                card=card, marks=marks)


def op_token(op):
    if op[0] == 'auth':
        return 'auth:%s:%s' % (hexarg(op[1]), hexarg(op[2]))
    if op[0] == 'rmac':
        return 'rmac:%s' % (','.join(str(b) for b in op[1]) or '-')
    if op[0] == 'wmac':
        return 'wmac:%s:%d' % (hexarg(op[1]), op[2])
    return 'prot:%s:%d:%d:%s' % ('none' if op[1] is None else hexarg(op[1]), int(op[2]), op[3], hexarg(op[4]))


def rsp_token(r):
    if r is None:
        return 'T'
    return hx(r) if len(r) else 'E'


def felica_model_line(lites, ops, transcript):
    return 'felica %s 1 %s %s %s' % ('lites' if lites else 'lite', hx(IDM),
                                     ','.join(rsp_token(r) for _c, r in transcript) or '-',
                                     ' '.join(op_token(o) for o in ops))


def init_token(items, width):
    return ','.join('%d=%s' % (b, hx(v)) for b, v in sorted(items.items())) or '-'


# ---------------------------------------------------------------- NTAG
def make_ntag(card):
    clf = sim.FakeClf(card)
    t = nfc.clf.RemoteTarget("106A")
    t.sens_res = bytearray.fromhex("4400")
    t.sel_res = bytearray.fromhex("00")
    t.sdd_res = bytearray.fromhex("04517CA1E1ED2580")
    clf.sense_target = t
    clf.recording = False
    tag = nfc.tag.activate(clf, t)
    clf.recording = True
    clf.nrsp = 0
    assert isinstance(tag, nfc.tag.tt2_nxp.NTAG21x) and tag._cfgpage == card.cfg, type(tag)
    return clf, tag


def run_ntag(cfg, init, ops, mutation=None):
    """ops: ('auth', pw) | ('prot', pw, rp, pf)"""
    card = sim.Ntag21xCard(cfg=cfg, init=init)
    before = card.init_items()
    clf, tag = make_ntag(card)
    if mutation is not None:
        clf.mutations[mutation[0]] = make_mutator(mutation[1])
    obs, marks = [], []
    for op in ops:
        marks.append(len(clf.transcript))
        if op[0] == 'auth':
            obs.append(observe(lambda: tag.authenticate(op[1])))
        else:
            obs.append(observe(lambda: tag.protect(op[1], read_protect=op[2], protect_from=op[3])))
    marks.append(len(clf.transcript))
    state = '%s %s' % ('true' if tag._authenticated else 'false', 'true' if tag.target else 'false')
    return dict(obs=obs, state=state, transcript=list(clf.transcript), true_rsp=list(clf.true_rsp), before=before,
                card=card, marks=marks, events=list(clf.events))


def ntag_model_line(cfg, ops, transcript):
    toks = []
    for op in ops:
        toks.append('auth:%s' % hexarg(op[1]) if op[0] == 'auth' else 'prot:%s:%d:%d' % (hexarg(op[1]), int(op[2]), op[3]))
    return 'ntag %d %s - %s' % (cfg, ','.join(rsp_token(r) for _c, r in transcript) or '-', ' '.join(toks))


# ---------------------------------------------------------------- the check
class Runner:
    def __init__(self, ck, mr):
        self.ck = ck
        self.mr = mr
        self.lines = []
        self.expect = []

    def add(self, line, impl, kind, info):
        self.lines.append(line)
        self.expect.append((impl, kind, info))

    def flush(self):
        if self.mr is None or not self.lines:
            return
        out = self.mr.run(self.lines)
        nmis = 0
        for line, (impl, kind, info), got in zip(self.lines, self.expect, out):
            if got != impl:
                nmis += 1
                if nmis <= 5:
                    self.ck.correspondence_mismatch(kind, {'input': line[:600], 'impl': impl[:600], 'model': got[:600], 'case': info})
        if len(out) != len(self.lines):
            self.ck.correspondence_mismatch('runner', {'lines': len(self.lines), 'out': len(out)})
        self.ck.cov['traces_validated_against_impl'] = self.ck.cov.get('traces_validated_against_impl', 0) + len(self.lines) - nmis
        self.lines, self.expect = [], []


def key_of(pw):
    return bytes(16) if not pw else bytes(pw[0:16])


def keys_match(pw, card):
    """does the card hold the key derived from the password (DES parity bits ignored)"""
    return sim.strip_parity(sim.key_to_ck_block(key_of(pw))) == sim.strip_parity(card.mem[0x87])


def mutated_region(mask):
    return [i for i, m in enumerate(mask) if m]


def felica_monitor(ck, lites, ops, res, mutation, case):
    """independent reading of the property on one run of the real code"""
    kind = 'lites' if lites else 'lite'
    card = res['card']
    marks = res['marks']
    mutated_at = mutation[0] if mutation else None
    # index (in the transcript) of the mutated response
    tpos = None
    if mutation is not None:
        k = -1
        for i, (_c, r) in enumerate(res['transcript']):
            if res['true_rsp'][i] is not None:
                k += 1
                if k == mutated_at:
                    tpos = i
    snapshot = dict(res['before'])
    for n, (op, o) in enumerate(zip(ops, res['obs'])):
        lo, hi = marks[n], marks[n + 1]
        touched = tpos is not None and lo <= tpos < hi
        if o.startswith('exc ') and not (o.startswith('exc TagCommandError') or o in ('exc ValueError', 'exc RuntimeError')):
            ck.violation('%s-%s-raises:%s' % (kind, op[0], o[4:]),
                         '%s.%s raises %s instead of returning its documented result or TagCommandError' % (
                             'FelicaLiteS' if lites else 'FelicaLite',
                             {'auth': 'authenticate', 'rmac': 'read_with_mac', 'wmac': 'write_with_mac', 'prot': 'protect'}[op[0]], o[4:]),
                         case)
            continue
        if op[0] == 'auth':
            # the key the card held when this authenticate ran
            held = case_key_at(res, lo)
            match = sim.strip_parity(sim.key_to_ck_block(key_of(op[1]))) == sim.strip_parity(held) if not (op[1] and len(op[1]) < 16) else False
            if o == 'ok true' and not match:
                ck.violation(kind + '-auth-true-wrong-key', 'authenticate returned True although the card holds a different key', case)
            if o == 'ok false' and match and tpos is None:
                ck.violation(kind + '-auth-false-right-key', 'authenticate returned False although the card holds the key derived from the password', case)
            if o.startswith('exc TagCommandError') and tpos is None and match:
                ck.violation(kind + '-auth-error-right-key', 'authenticate failed with %s on an undisturbed exchange' % o[4:], case)
        elif op[0] == 'rmac':
            # the read request is the only (last successful) exchange of this op
            if o.startswith('ok data'):
                got = bytes.fromhex(o[8:]) if o[8:] != '-' else b''
                true = None
                for i in range(lo, hi):
                    t = res['true_rsp'][i]
                    if t is not None and len(t) > 13 and t[10] == 0:
                        true = t
                nblk = len(op[1])
                if true is None or got != true[13:13 + 16 * nblk]:
                    ck.violation(kind + '-rmac-returned-modified-data', 'read_with_mac returned data that the card did not send', case)
                if touched:
                    reg = mutated_region(mutation[1])
                    if any(13 <= i < 13 + 16 * nblk + 8 for i in reg):
                        ck.violation(kind + '-rmac-modification-undetected', 'read_with_mac returned data although data or MAC were modified in transit', case)
            elif o == 'ok none' and tpos is None and len(op[1]) > 0:
                # an undisturbed MAC read after a successful authentication must verify
                if res['state'].split()[1] != 'none' and session_is_current(ops, res, n):
                    ck.violation(kind + '-rmac-rejects-genuine', 'read_with_mac rejected genuine data', case)
        elif op[0] == 'prot':
            pass
    # protect(pw) then authenticate(pw) / authenticate(other) on undisturbed runs
    if tpos is None:
        for n in range(len(ops) - 1):
            if ops[n][0] == 'prot' and res['obs'][n] == 'ok true' and ops[n][1] is not None:
                for m in range(n + 1, len(ops)):
                    if ops[m][0] == 'prot':
                        break
                    if ops[m][0] == 'auth' and not (ops[m][1] and len(ops[m][1]) < 16):
                        same = sim.strip_parity(key_of(ops[m][1])) == sim.strip_parity(key_of(ops[n][1]))
                        if same and res['obs'][m] != 'ok true':
                            ck.violation(kind + '-protect-then-auth-fails', 'authenticate with the password given to protect does not succeed (%s)' % res['obs'][m], case)
                        if not same and res['obs'][m] == 'ok true':
                            ck.violation(kind + '-protect-then-other-auth', 'authenticate with another password succeeds after protect', case)
    # a MAC-protected write only ever stores what the reader asked to store
    for n, op in enumerate(ops):
        if op[0] == 'wmac' and 0 <= op[2] <= 14:
            b0 = res['before'].get(op[2])
            b1 = card.mem.get(op[2])
            others = [o2 for o2 in ops if o2[0] == 'wmac' and o2[2] == op[2]]
            if b1 != b0 and all(b1 != bytes(o2[1]) for o2 in others):
                ck.violation(kind + '-wmac-stored-other-data', 'the card stored data that write_with_mac was not asked to write', case)
            if res['obs'][n] == 'ok none' and len(others) == 1 and b1 != bytes(op[1]):
                ck.violation(kind + '-wmac-not-stored', 'write_with_mac returned normally but the card did not store the data', case)


def case_key_at(res, pos):
    """CK block content at transcript position pos (replaying the accepted writes to block 87h)"""
    ck_block = res['before'][0x87]
    for i in range(pos):
        c, _r = res['transcript'][i]
        t = res['true_rsp'][i]
        if len(c) > 10 and c[1] == 0x08 and t is not None and len(t) >= 12 and t[10] == 0:
            body = c[10:]
            if body[:3] == b'\x01\x09\x00' and body[4:6] == b'\x80\x87':
                ck_block = body[6 + (2 if body[3] == 2 else 0):][:16]
    return ck_block


def session_is_current(ops, res, n):
    """True when op n follows a successful authenticate with no later RC write / failed attempt"""
    last = None
    for m in range(n):
        if ops[m][0] == 'auth':
            last = res['obs'][m]
        if ops[m][0] == 'prot':
            last = None
    return last == 'ok true'


# ---------------------------------------------------------------- every path by which block data reaches the application
def ndef_attribute(ln, nbr=4, nbw=1, nmaxb=13, rwflag=1):
    a = bytearray(16)
    a[0], a[1], a[2] = 0x10, nbr, nbw
    a[3:5] = nmaxb.to_bytes(2, 'big')
    a[10] = rwflag
    a[11:14] = ln.to_bytes(3, 'big')
    a[14:16] = sum(a[:14]).to_bytes(2, 'big')
    return bytes(a)


def run_data_path(lites, authed, init, key, path, masks, once, blocks=None):
    """one run of the real classes: NDEF formatted card, optional authentication, then the tamper adversary is
    switched on and block data is fetched through `path`.  returns (observation, is_authenticated, card)"""
    card = sim.FelicaLiteCard(lites=lites, idm=IDM, init=init, ndef=True)
    clf, tag = make_felica(card)
    if authed:
        URANDOM.queue = [bytes(hash_bytes(repr((lites, path, sorted(masks.items()) if masks else None))))]
        if tag.authenticate(key) is not True:
            return 'setup-failed', False, card
    pre = None
    if path == 'has_changed':
        pre = tag.ndef                     # undisturbed first read
    if masks:
        clf.tamper = sim.felica_block_tamper(masks, once)

    def fetch():
        if path == 'ndef':
            n = tag.ndef
            return None if n is None else ('ndef', bytes(n.octets), n.length, n.capacity, n.is_readable)
        if path == 'has_changed':
            if pre is None:
                return None
            changed = pre.has_changed
            n = tag.ndef
            return None if n is None else ('changed', bool(changed), bytes(n.octets))
        if path == 'read_from_ndef_service':
            r = tag.read_from_ndef_service(*blocks)
            return None if r is None else ('blocks', bytes(r))
        if path == 'read_with_mac':
            r = tag.read_with_mac(*blocks)
            return None if r is None else ('blocks', bytes(r))
        if path == 'dump':
            return ('dump', tuple(tag.dump()))
        raise ValueError(path)
    try:
        o = fetch()
    except nfc.tag.TagCommandError as e:
        o = 'exc TagCommandError:%d' % e.errno
    except Exception as e:  # noqa
        o = 'exc ' + type(e).__name__
    return o, bool(tag.is_authenticated), card


def hash_bytes(text):
    import hashlib
    return hashlib.sha256(text.encode()).digest()[:16]


def data_paths(ck, rng, quick):
    """monitor only (the NDEF layer of tt3.py is not in the C20 models): while is_authenticated is True no API
    other than the explicitly unprotected ones (read_without_mac, dump) may hand out block data that differs
    from what the card holds"""
    def rbytes(n):
        return bytes(rng.randrange(256) for _ in range(n))

    def bit(i, k):
        m = bytearray(16)
        m[i] = 1 << k
        return bytes(m)

    def multi():
        m = bytearray(16)
        for _ in range(rng.randrange(2, 9)):
            m[rng.randrange(16)] |= 1 << rng.randrange(8)
        return bytes(m)

    key = rbytes(16)
    for lites in (False, True):
        for ln in ((40,) if quick else (40, 1, 16, 100, 208)):
            nblk = (ln + 15) // 16
            init = {0: ndef_attribute(ln), 0x82: rbytes(16), 0x87: sim.key_to_ck_block(key)}
            for b in range(1, 14):
                init[b] = rbytes(16)
            true_octets = b''.join(init[b] for b in range(1, nblk + 1))[:ln]
            db = rng.randrange(1, nblk + 1)
            tampers = [None,
                       {db: bit(rng.randrange(16), rng.randrange(8))},
                       {db: multi()},
                       {0: bit(rng.choice([1, 3, 4, 10, 11, 12, 13]), rng.randrange(8))},
                       {0: bytes(13) + b'\x01\x00\x01'},                     # length changed, checksum adjusted
                       {0x81: bit(rng.randrange(8), rng.randrange(8))},
                       {0x81: multi()[:8] + bytes(8)},
                       {db: bit(rng.randrange(16), rng.randrange(8)), 0x81: bit(rng.randrange(8), rng.randrange(8))},
                       {b: multi() for b in range(1, nblk + 1)}]
            for authed in (False, True):
                for masks in tampers:
                    for once in ((False,) if masks is None else (False, True)):
                        for path in ('ndef', 'has_changed', 'read_from_ndef_service', 'read_with_mac', 'dump'):
                            if path == 'read_with_mac' and not authed:
                                continue
                            if path == 'dump' and (quick and masks is not None and once):
                                continue
                            blocks = [0] + rng.sample(range(1, 14), rng.randrange(0, 3)) if path.startswith('read_') else None
                            if blocks is not None and masks and not any(b in masks for b in blocks) and 0x81 not in masks:
                                blocks[-1] = next(iter(masks))
                            o, isauth, card = run_data_path(lites, authed, init, key, path, masks, once, blocks)
                            case = {'family': 'data-path', 'lites': lites, 'authenticated': authed, 'path': path,
                                    'tamper': None if masks is None else {str(b): hx(m) for b, m in masks.items()}, 'once': once,
                                    'blocks': blocks, 'ln': ln, 'obs': repr(o)[:200], 'key': hx(key),
                                    'init': {str(b): hx(v) for b, v in sorted(init.items())}}
                            kind = 'lites' if lites else 'lite'
                            ck.case(repr(case), masks is not None, {'kind': 'data-path ' + path, 'case': case})
                            ck.count('data-path:%s:%s' % (path, 'auth' if authed else 'plain'))
                            if o == 'setup-failed':
                                ck.violation(kind + '-auth-false-right-key', 'authenticate failed on an undisturbed exchange (data path setup)', case)
                                continue
                            if isinstance(o, str) and o.startswith('exc '):
                                if not o.startswith('exc TagCommandError'):
                                    ck.count('data-path-undocumented-exception:' + o[4:])
                                    # a response whose MAC does not verify must surface as None / TagCommandError, never
                                    # as an internal error of the reader (repaired by fix 72d9c42)
                                    ck.violation('data-path-internal-error:%s:%s' % (path, o[4:].split(':')[0].split()[0]),
                                                 'a tampered response makes %s raise an internal error instead of returning None' % path, case)
                                continue
                            if path == 'dump' or o is None:
                                continue          # dump() reads without MAC by design; None = nothing handed out
                            # what the card really holds
                            if o[0] == 'ndef':
                                good = o[1] == true_octets and o[2] == ln
                            elif o[0] == 'changed':
                                good = o[2] == true_octets     # (the `changed` flag itself is not block data)
                            else:
                                good = o[1] == b''.join(card.mem[b] for b in blocks)
                            if masks is None and not good:
                                ck.violation(kind + '-data-path-wrong-undisturbed:' + path, 'undisturbed %s does not return the card content' % path, case)
                            if masks is not None and isauth and not good:
                                ck.violation('%s-%s-returned-modified-data' % (kind, path.replace('_', '-')),
                                             '%s handed out block data that differs from what the card holds (modified in transit, MAC '
                                             'not verified) while is_authenticated is True' % path, case)


def main():
    ck = Check('C20')
    ck.trusted = ['Coq 8.16.1 kernel; vm_compute for the DES known-answer examples and table side conditions; no native_compute',
                  'translate/kspec_c20.py + py2coq.py (statements around the crypto calls of tt3_sony.py, tt3.py, tt2_nxp.py -> Gen/AuthK.v; pyDes uninterpreted)',
                  'extraction: ExtrOcamlBasic only; extract/c20_run.ml driver; OCaml 4.13.1',
                  'harness/sim/auth_tags.py (simulated cards, integer DES written independently of pyDes) and the fake frontend',
                  'pyDes 2.0.1 is the DES implementation nfcpy calls; the Coq DES model is compared with it on known answers and random blocks']
    ck.assumptions = ['cryptographic strength is not proved: auth_other_key holds under the explicit premise that the MAC is injective in the '
                      'card key (modulo DES parity bits) for the given challenge and ID block (ideal-MAC assumption)',
                      '"the key derived from the password" is read modulo DES parity bits for FeliCa (DES cannot distinguish them); NTAG21x '
                      'compares all 48 bits; NTAG21x PWD_AUTH has no integrity protection, so for modified PACK responses the monitor only '
                      'demands that True is returned when the received PACK equals the expected one',
                      'FeliCa protect() with protect_from = 0 is modelled for cards that do not answer the NFC Forum (12FCh) poll; the NDEF '
                      'attribute update that follows otherwise belongs to C01-C03',
                      'passwords are byte strings']
    ck.coq(gen=['AuthK'], targets=['Proofs/DesKat.vo', 'Proofs/AuthMac.vo', 'Proofs/AuthTag.vo', 'Proofs/AuthLiteS.vo', 'Proofs/AuthNtag.vo', 'Proofs/AuthDefects.vo', 'Bridge/Auth.vo'], props='C20')
    mr = ck.model()
    rng = ck.rng
    quick = ck.tier == 'quick'
    nfc.tag.tt3_sony.os = URANDOM
    run = Runner(ck, mr)

    def rbytes(n):
        return bytes(rng.randrange(256) for _ in range(n))

    if ck.replay:
        replay(ck, json.load(open(ck.replay)))
        ck.finish(level='proof', rule='replay of one recorded case')

    # ------------------------------------------------------------------ kernels: DES, 3DES-CBC, generate_mac
    kats = [('133457799BBCDFF1', '0123456789ABCDEF', '85E813540F0AB405'), ('0101010101010101', '8000000000000000', '95F8A5E5DD31D900'),
            ('8001010101010101', '0000000000000000', '95A8D72813DAA94D'), ('1046913489980131', '0000000000000000', '88D55E54F54C97B4'),
            ('7CA110454A1A6E57', '01A1D6D039776742', '690F5B0D9A26939B'), ('0123456789ABCDEF', '4E6F772069732074', '3FA40E8A984D4815')]
    for k, p, c in kats:
        k, p, c = bytes.fromhex(k), bytes.fromhex(p), bytes.fromhex(c)
        lib = pyDes.des(k).encrypt(p)
        if lib != c or sim.des_encrypt_bytes(k, p) != c:
            ck.correspondence_mismatch('des-kat', {'key': hx(k), 'plain': hx(p), 'pyDes': hx(lib), 'sim': hx(sim.des_encrypt_bytes(k, p))})
        run.add('des_enc %s %s' % (hx(k), hx(p)), hx(c), 'des-kat', None)
        ck.case(('kat', k, p), True)
        ck.count('des-kat')
    for _ in range(150 if quick else 3000):
        k, p = rbytes(8), rbytes(8)
        lib = pyDes.des(k).encrypt(p)
        if sim.des_encrypt_bytes(k, p) != lib:
            ck.correspondence_mismatch('des-sim', {'key': hx(k), 'plain': hx(p)})
        run.add('des_enc %s %s' % (hx(k), hx(p)), hx(lib), 'des-random', None)
        run.add('des_dec %s %s' % (hx(k), hx(lib)), hx(p), 'des-random', None)
        ck.case(('des', k, p), True)
        ck.count('des-random')
    for _ in range(150 if quick else 2000):
        k, iv, d = rbytes(16), rbytes(8), rbytes(8 * rng.randrange(0, 6))
        lib = pyDes.triple_des(k, pyDes.CBC, iv).encrypt(d) if d else b''
        if sim.tdes_cbc_bytes(k, iv, d) != lib:
            ck.correspondence_mismatch('tdes-sim', {'key': hx(k), 'iv': hx(iv), 'data': hx(d)})
        run.add('tdes_cbc %s %s %s' % (hx(k), hx(iv), hexarg(d)), hexarg(lib), 'tdes-cbc', None)
        ck.case(('tdes', k, iv, d), True)
        ck.count('tdes-cbc')
    gm = nfc.tag.tt3_sony.FelicaLite.generate_mac
    for i in range(200 if quick else 2500):
        k, iv = rbytes(16), rbytes(8)
        d = rbytes(8 * rng.randrange(0, 9))
        flip = rng.random() < 0.5
        if i % 10 == 9:       # argument checks
            d, k, iv = rng.choice([(d + b'\x00', k, iv), (d, k[:15], iv), (d, k, iv + b'\x00'), (d, k + b'\x00', iv)])
        o = observe(lambda: gm(bytearray(d), k, iv, flip))
        impl = o.replace('ok data ', 'ok ')
        run.add('mac %s %s %s %d' % (hexarg(d), hexarg(k), hexarg(iv), int(flip)), impl, 'generate_mac', None)
        if o.startswith('ok data') and len(d) % 8 == 0 and len(k) == 16 and len(iv) == 8:
            # the card-side formulation (little-endian words, CBC-MAC from RC1) gives the same value
            kk = k[8:] + k[:8] if flip else k
            want = sim.card_mac(int.from_bytes(kk[:8], 'big'), int.from_bytes(kk[8:], 'big'), iv[::-1], d)
            got = bytes.fromhex(o[8:]) if o[8:] != '-' else b''
            if got != want:
                ck.correspondence_mismatch('generate_mac-vs-card', {'data': hx(d), 'key': hx(k), 'iv': hx(iv), 'lib': hx(got), 'card': hx(want)})
        ck.case(('mac', d, k, iv, flip), True)
        ck.count('generate_mac')
    run.flush()

    # ------------------------------------------------------------------ FeliCa Lite / Lite-S scenarios
    fuzz_pool = []

    def felica_case(lites, init, ops, mutation, label, nontrivial=True):
        res = run_felica(lites, init, ops, mutation)
        case = {'family': 'felica', 'lites': lites, 'init': {str(b): hx(v) for b, v in sorted(init.items())},
                'ops': [op_token(o) for o in ops],
                'mutation': None if mutation is None else [mutation[0], hx(mutation[1])], 'obs': res['obs']}
        impl = '|'.join(res['obs']) + ' ; ' + res['state'] + ' ; ' + ','.join(hx(c) for c, _r in res['transcript'])
        run.add(felica_model_line(lites, ops, res['transcript']), impl, 'felica-reader:' + label, case)
        # the card model against the simulated card (undisturbed responses)
        run.add('ftag %s %s %s %s' % ('lites' if lites else 'lite', hx(IDM), init_token(res['before'], 16),
                                      ','.join(hx(c) for c, _r in res['transcript']) or '-'),
                ','.join('none' if r is None else hexarg(r) for r in res['true_rsp']), 'felica-card:' + label, case)
        felica_monitor(ck, lites, ops, res, mutation, case)
        if mutation is None and len(res['transcript']) >= 2:
            fuzz_pool.append((lites, dict(res['before']), [c for c, _r in res['transcript']]))
        ck.case((lites, sorted(init.items()), case['ops'], case['mutation']), nontrivial,
                {'kind': label, 'ops': case['ops'], 'mutation': case['mutation'], 'obs': res['obs']})
        ck.count('felica:' + label)
        return res

    def all_mutations(res, every_bit, nrandom, nsample=12):
        """(index, mask) for every single bit of every response (or a sample), plus random multi-bit masks"""
        rsps = [r for r in res['true_rsp'] if r is not None]
        muts = []
        for j, r in enumerate(rsps):
            bits = [(i, k) for i in range(len(r)) for k in range(8)]
            if not every_bit or (quick and len(r) <= 12):      # quick tier: write acknowledgements are sampled
                bits = rng.sample(bits, min(len(bits), nsample))
            for i, k in bits:
                m = bytearray(len(r))
                m[i] = 1 << k
                muts.append((j, bytes(m)))
            for _ in range(nrandom):
                m = bytearray(len(r))
                for _ in range(rng.randrange(2, 9)):
                    m[rng.randrange(len(r))] |= 1 << rng.randrange(8)
                muts.append((j, bytes(m)))
        return muts

    def flip_parity(key):
        return bytes(b ^ (1 if rng.random() < 0.5 else 0) for b in key)

    def card_init(key, lites):
        init = {0x82: rbytes(16), 0x87: sim.key_to_ck_block(key)}
        for b in range(0, 14):
            if rng.random() < 0.6:
                init[b] = rbytes(16)
        return init

    readable = list(range(0, 15)) + [0x82, 0x83, 0x84, 0x85, 0x86, 0x88]

    # corpus of minimised past failures
    key0 = b'0123456789abcdef'
    init0 = {0x82: bytes(range(16)), 0x87: sim.key_to_ck_block(key0)}
    m = bytearray(45)
    m[13 + 16] = 1
    felica_case(True, init0, [('auth', key0, bytes(range(16)))], (4, bytes(m)), 'corpus')
    felica_case(True, {}, [('prot', key0, False, 1, bytes(range(16))), ('auth', key0, bytes(16))], None, 'corpus')
    felica_case(True, {}, [('prot', bytearray(key0), False, 0, bytes(range(16))), ('auth', bytearray(key0), bytes(16))], None, 'corpus')

    nbase = 2 if quick else 3
    for lites in (False, True):
        for bi in range(nbase):
            key = rbytes(16)
            init = card_init(key, lites)
            every = not quick
            # (1) authenticate with the right key (up to parity), then MAC reads of several selections
            pw = flip_parity(key) + rbytes(rng.choice([0, 0, 3]))
            sel1 = rng.sample(readable, rng.randrange(1, 4))
            sel2 = rng.sample(readable + ([0x90, 0x92] if lites else []), rng.randrange(1, 4))
            ops = [('auth', pw, rbytes(16)), ('rmac', sel1), ('rmac', sel2)]
            base = felica_case(lites, init, ops, None, 'auth+read', True)
            for mu in all_mutations(base, every, 2 if quick else 6):
                felica_case(lites, init, ops, mu, 'auth+read/mutated')
            if quick and bi == 0:
                # quick tier: every single bit of every response of one short script per product
                ops = [('auth', pw, rbytes(16))] + ([] if lites else [('rmac', [rng.choice(readable)])])
                base = felica_case(lites, init, ops, None, 'auth+read', True)
                for mu in all_mutations(base, True, 2):
                    felica_case(lites, init, ops, mu, 'auth+read/mutated')
            # (2) authenticate with another key: every modification must still give False / an error
            other = bytearray(key)
            other[rng.randrange(16)] ^= 2 << rng.randrange(7)
            ops = [('auth', bytes(other), rbytes(16))]
            base = felica_case(lites, init, ops, None, 'auth-wrong-key')
            for mu in all_mutations(base, every and not quick, 2 if quick else 6):
                felica_case(lites, init, ops, mu, 'auth-wrong-key/mutated')
            # (3) protect(pw) on a blank card, then authenticate(pw), authenticate(other), MAC read
            pw2 = rbytes(rng.choice([16, 16, 20]))
            blank = {0x82: rbytes(16)}
            for b in range(0, 14):
                if rng.random() < 0.3:
                    blank[b] = rbytes(16)
            pf = rng.choice([0, 0, 1, 5, 14])
            ops = [('prot', pw2, False, pf, rbytes(16)), ('auth', pw2, rbytes(16)), ('auth', bytes(other), rbytes(16)),
                   ('auth', pw2, rbytes(16)), ('rmac', rng.sample(readable, 2))]
            base = felica_case(lites, blank, ops, None, 'protect+auth')
            for mu in all_mutations(base, False, 1 if quick else 3, 3 if quick else 12):
                felica_case(lites, blank, ops, mu, 'protect+auth/mutated')
            if lites:
                # (4) mutual authentication, MAC write, MAC read back
                blk = rng.randrange(0, 14)
                data = rbytes(16)
                ops = [('auth', key, rbytes(16)), ('wmac', data, blk), ('rmac', [blk]), ('wmac', rbytes(16), rng.randrange(0, 14))]
                base = felica_case(True, init, ops, None, 'auth+write')
                for mu in all_mutations(base, every and not quick, 2 if quick else 5):
                    felica_case(True, init, ops, mu, 'auth+write/mutated')
    # block selections: every single block, invalid selections, argument checks, unauthenticated use
    key = rbytes(16)
    for lites in (False, True):
        init = card_init(key, lites)
        rc = rbytes(16)
        sels = [[b] for b in readable + [0x80, 0x81, 0x87, 0x89, 0x90, 0x91, 0x92, 0x93, 15, 255, 256, 0x1234]]
        sels += [[], [0, 1, 2], [0, 1, 2, 3], [0x82, 0x82], [5, 0x81], [0x81, 5], [0, 300], [65535]]
        for s in sels:
            felica_case(lites, init, [('auth', key, rc), ('rmac', s)], None, 'block-selection')
        if not quick:
            for a in readable:
                for b in readable:
                    felica_case(lites, init, [('auth', key, rc), ('rmac', [a, b])], None, 'block-selection')
        felica_case(lites, init, [('rmac', [0])], None, 'unauthenticated', False)
        if lites:
            felica_case(lites, init, [('wmac', bytes(16), 0)], None, 'unauthenticated', False)
        felica_case(lites, init, [('auth', b'short', rc)], None, 'argument-check', False)
        felica_case(lites, init, [('auth', b'', rc)], None, 'factory-key')
        felica_case(lites, {0x82: rbytes(16)}, [('auth', b'', rc), ('rmac', [0x82])], None, 'factory-key')
        felica_case(lites, {}, [('prot', b'abc', False, 0, rc)], None, 'argument-check', False)
        felica_case(lites, {}, [('prot', key, False, -1, rc)], None, 'argument-check', False)
        felica_case(lites, {}, [('prot', key, True, 0, rc), ('auth', key, rc)], None, 'protect-read-protect')
        felica_case(lites, {}, [('prot', None, False, 3, rc), ('auth', b'', rc)], None, 'protect-no-password')
        felica_case(lites, {}, [('prot', b'', False, 2, rc), ('auth', b'', rc), ('auth', key, rc)], None, 'protect-factory-key')
        felica_case(lites, {}, [('prot', key, False, 0, rc), ('prot', rbytes(16), False, 0, rc), ('auth', key, rc)], None, 'protect-twice')
        felica_case(lites, {}, [('prot', key, False, 0, rc), ('auth', key, rc), ('prot', rbytes(16), False, 0, rc), ('auth', key, rc)], None,
                    'protect-twice')
        if lites:
            felica_case(True, init, [('auth', key, rc), ('wmac', bytes(15), 0)], None, 'argument-check', False)
            felica_case(True, init, [('auth', key, rc), ('wmac', bytes(16), 256)], None, 'argument-check', False)
            felica_case(True, init, [('auth', key, rc), ('wmac', rbytes(16), 0x82)], None, 'write-refused')
            locked = dict(init)
            locked[0x88] = bytes([0xFE, 0xFF, 0, 1, 7, 1, 0, 0, 0, 0, 0, 0, 0, 0, 0, 0])
            felica_case(True, locked, [('auth', key, rc), ('wmac', rbytes(16), 0), ('wmac', rbytes(16), 1), ('rmac', [0, 1])], None, 'write-refused')
    # representation boundaries of every stored field the code does arithmetic on (card key version, write
    # counter, memory configuration bytes), with protect() with / without password and authenticate after it
    def le16b(v):
        return bytes([v & 255, v >> 8])

    bkey = rbytes(16)
    for ckv in (0, 1, 0xFF, 0x100, 0xFFFE, 0xFFFF):
        for pw in (rbytes(16), b'\x00' * 16, b'\xff' * 16, b'', None):
            rc = rbytes(16)
            init = {0x82: rbytes(16), 0x86: le16b(ckv) + bytes(14)}
            after = [('auth', pw if pw is not None else b'', rbytes(16)), ('auth', b'', rbytes(16)), ('auth', bkey, rbytes(16))]
            felica_case(True, init, [('prot', pw, False, rng.choice([0, 1, 13, 14]), rc)] + after, None, 'boundary-ckv')
            init2 = dict(init)
            init2[0x87] = sim.key_to_ck_block(bkey)
            felica_case(True, init2, [('auth', bkey, rbytes(16)), ('prot', pw, rng.random() < 0.5, rng.choice([0, 5, 14]), rc)] + after,
                        None, 'boundary-ckv')
    for wc in (0, 0xFF, 0x100, 0xFFFF, 0x10000, 0xFFFFFE, 0xFFFFFF):
        init = {0x82: rbytes(16), 0x87: sim.key_to_ck_block(bkey), 0x90: wc.to_bytes(3, 'little') + bytes(13)}
        blk = rng.randrange(0, 14)
        felica_case(True, init, [('auth', bkey, rbytes(16)), ('wmac', rbytes(16), blk), ('wmac', rbytes(16), blk), ('rmac', [blk, 0x90])],
                    None, 'boundary-wcnt')
        blank = dict(init)
        blank[0x87] = bytes(16)
        felica_case(True, blank, [('prot', bkey, False, 2, rbytes(16)), ('auth', bkey, rbytes(16))], None, 'boundary-wcnt')
    for mc01 in (0x0000, 0x0001, 0x3FFF, 0x7FFF, 0xFFFF):
        for mc2 in (0x00, 0x7F, 0xFF):
            for mc5 in (0x00, 0x01, 0xFE, 0xFF):
                for lites in (False, True):
                    if not lites and mc5 not in (0x00, 0xFF):
                        continue
                    if quick and rng.random() < 0.5 and not (mc01 in (0, 0xFFFF) and mc2 in (0, 0xFF) and mc5 in (0, 0xFF)):
                        continue        # quick tier: all corner combinations, half of the others
                    mc = le16b(mc01) + bytes([mc2, rng.choice([0, 1]), 7, mc5]) + rng.choice([bytes(10), b'\xff' * 10])
                    init = {0x82: rbytes(16), 0x87: sim.key_to_ck_block(bkey), 0x88: mc, 0x86: le16b(rng.choice([0, 0xFFFF])) + bytes(14)}
                    pw = rng.choice([rbytes(16), rbytes(16), b'', None])
                    pf = rng.choice([0, 1, 13, 14, 15])
                    tail = [('auth', pw if pw is not None else b'', rbytes(16)), ('auth', bkey, rbytes(16))]
                    felica_case(lites, init, [('prot', pw, False, pf, rbytes(16))] + tail, None, 'boundary-mc')
                    felica_case(lites, init, [('auth', bkey, rbytes(16)), ('prot', pw, lites and rng.random() < 0.5, pf, rbytes(16))] + tail,
                                None, 'boundary-mc')
    run.flush()

    data_paths(ck, rng, quick)

    # the card model against the simulated card on damaged commands (no reader involved)
    for _ in range(200 if quick else 3000):
        lites, before, cmds = rng.choice(fuzz_pool)
        cmds = [bytearray(c) for c in cmds]
        for _ in range(rng.randrange(1, 3)):
            c = rng.choice(cmds)
            how = rng.random()
            if how < 0.7:
                c[rng.randrange(len(c))] ^= 1 << rng.randrange(8)
            elif how < 0.85 and len(c) > 2:
                del c[rng.randrange(len(c))]
                c[0] = len(c)
            else:
                c.insert(rng.randrange(1, len(c) + 1), rng.randrange(256))
                c[0] = len(c) & 255
        card = sim.FelicaLiteCard(lites=lites, idm=IDM, init=before)
        rsps = [card.process(bytes(c)) for c in cmds]
        run.add('ftag %s %s %s %s' % ('lites' if lites else 'lite', hx(IDM), init_token(before, 16), ','.join(hx(c) for c in cmds)),
                ','.join('none' if r is None else hexarg(r) for r in rsps), 'felica-card:fuzz',
                {'family': 'card-fuzz', 'lites': lites, 'cmds': [hx(c) for c in cmds]})
        ck.case(('fuzz', lites, tuple(bytes(c) for c in cmds)), True)
        ck.count('felica-card:fuzz')
    run.flush()

    # ------------------------------------------------------------------ NTAG21x
    def ntag_case(cfg, init, ops, mutation, label, nontrivial=True):
        res = run_ntag(cfg, init, ops, mutation)
        case = {'family': 'ntag', 'cfg': cfg, 'init': {str(p): hx(v) for p, v in sorted(init.items())},
                'ops': [list(map(lambda x: hx(x) if isinstance(x, (bytes, bytearray)) else x, o)) for o in ops],
                'mutation': None if mutation is None else [mutation[0], hx(mutation[1])], 'obs': res['obs']}
        impl = '|'.join(res['obs']) + ' ; ' + res['state'] + ' ; ' + ','.join(hx(c) for c, _r in res['transcript'])
        run.add(ntag_model_line(cfg, ops, res['transcript']), impl, 'ntag-reader:' + label, case)
        run.add('ntagtag %d %s %s' % (cfg, init_token(res['before'], 4), ','.join('S' if e[0] == 's' else hx(e[1]) for e in res['events']) or '-'),
                ','.join('sense' if e[0] == 's' else ('none' if e[2] is None else hexarg(e[2])) for e in res['events']),
                'ntag-card:' + label, case)
        ntag_monitor(ck, cfg, ops, res, mutation, case)
        ck.case((cfg, sorted(init.items()), case['ops'], case['mutation']), nontrivial,
                {'kind': 'ntag ' + label, 'ops': case['ops'], 'mutation': case['mutation'], 'obs': res['obs']})
        ck.count('ntag:' + label)
        return res

    for cfg in (16, 37, 41, 131, 227):
        for bi in range(2 if quick else 8):
            secret = rbytes(6)
            init = {cfg + 2: secret[0:4], cfg + 3: secret[4:6] + bytes(2)}
            ops = [('auth', secret + rbytes(rng.choice([0, 2])))]
            base = ntag_case(cfg, init, ops, None, 'auth')
            for mu in all_mutations(base, True, 4):
                ntag_case(cfg, init, ops, mu, 'auth/mutated')
            # every password that differs in exactly one bit, and random others
            for i in range(6):
                for k in range(8):
                    o = bytearray(secret)
                    o[i] ^= 1 << k
                    ntag_case(cfg, init, [('auth', bytes(o)), ('auth', secret)], None, 'auth-other')
            for _ in range(10):
                ntag_case(cfg, init, [('auth', rbytes(rng.choice([6, 6, 8])))], None, 'auth-other')
            ntag_case(cfg, init, [('auth', b''), ('auth', b'12345')], None, 'auth-default', False)
            # protect(pw) then authenticate(pw) / others
            pw = rbytes(rng.choice([6, 6, 9]))
            o = bytearray(pw[:6])
            o[rng.randrange(6)] ^= 1 << rng.randrange(8)
            ops = [('prot', pw, rng.random() < 0.5, rng.choice([0, 3, 4, 20, 300])), ('auth', pw), ('auth', bytes(o)), ('auth', pw)]
            base = ntag_case(cfg, {}, ops, None, 'protect+auth')
            for mu in all_mutations(base, False, 1, 4 if quick else 12):
                ntag_case(cfg, {}, ops, mu, 'protect+auth/mutated')
            ntag_case(cfg, {}, [('prot', b'', False, 0), ('auth', b''), ('auth', b'\xff\xff\xff\xff\x00\x01')], None, 'protect-default')
            ntag_case(cfg, {}, [('prot', b'abc', False, 0)], None, 'argument-check', False)
            ntag_case(cfg, init, [('prot', pw, False, 0), ('auth', pw)], None, 'protect-locked')
            ntag_case(cfg, init, [('auth', secret), ('prot', pw, True, 4), ('auth', pw), ('auth', secret)], None, 'protect-change')
    # NTAG21x boundaries: AUTH0 (0, first user page, the configuration pages, last page, FFh), the ACCESS byte
    # (PROT, CFGLCK, AUTHLIM at their extremes), PWD / PACK all-zero and all-FF
    cfgs = [16, 37, 41, 131, 227]
    n = 0
    for secret in (bytes(6), b'\xff' * 6, b'\xff\xff\xff\xff\x00\x00', rbytes(6)):
        for access in (0x00, 0x07, 0x40, 0x7F, 0x80, 0x87, 0xFF):
            for a0sel in ('0', '3', '4', 'cfg-1', 'cfg', 'cfg+2', 'last', 'ff'):
                cfg = cfgs[n % 5]
                n += 1
                auth0 = {'0': 0, '3': 3, '4': 4, 'cfg-1': cfg - 1, 'cfg': cfg, 'cfg+2': cfg + 2, 'last': cfg + 3, 'ff': 255}[a0sel]
                init = {cfg: bytes([4, 0, 0, auth0]), cfg + 1: bytes([access, 0, 0, 0]), cfg + 2: secret[0:4], cfg + 3: secret[4:6] + bytes(2)}
                pw = rng.choice([rbytes(6), bytes(6), b'\xff' * 6, b'', rbytes(8)])
                other = bytearray(pw[:6] if pw else b'\xff\xff\xff\xff\x00\x00')
                other[rng.randrange(6)] ^= 1 << rng.randrange(8)
                pf = rng.choice([0, 3, 4, cfg, cfg + 3, 255, 256, -1])
                rp = rng.random() < 0.5
                tail = [('auth', pw), ('auth', bytes(other)), ('auth', secret), ('auth', b'')]
                ntag_case(cfg, init, [('prot', pw, rp, pf)] + tail, None, 'boundary')
                ntag_case(cfg, init, [('auth', secret), ('prot', pw, rp, pf)] + tail, None, 'boundary')
    run.flush()
    ck.finish(level='proof',
              rule='DES/3DES-CBC/generate_mac: FIPS known answers and random inputs (pyDes, simulator DES, model). FeliCa Lite and Lite-S: '
                   'scripts authenticate / read_with_mac / write_with_mac / protect over random keys, challenges, card contents and block '
                   'selections (every single readable block, invalid selections, pairs in the thorough tier), each script repeated with every '
                   'single-bit modification of every response (first base case per product in quick, all in thorough; samples otherwise) and '
                   'random 2-8 bit modifications; NTAG21x: all five products, every single-bit modification of the PWD_AUTH response, every '
                   'password at Hamming distance 1, protect then authenticate; representation boundaries of the stored fields the code computes with (FeliCa Lite-S card key version 0/1/FFh/100h/FFFEh/FFFFh, WCNT up to FFFFFFh, MC bytes at their extremes; NTAG21x AUTH0 0/3/4/cfg../last/FFh, ACCESS byte extremes, PWD/PACK all-zero / all-FF) with protect with and without password and authenticate after it; every data path of an NDEF formatted Lite / Lite-S card (tag.ndef through the tt3.py base class: attribute and data blocks, has_changed, read_from_ndef_service, read_with_mac, dump), authenticated and not, with one-shot and persistent single-/multi-bit tampering of data blocks, of the attribute block (also with adjusted checksum), of the MAC block and of both. non-trivial = a run with a modified response, a key mismatch, '
                   'a protect/authenticate sequence or a MAC read (everything but pure argument checks); distinct by hash of the case',
              explanation='theorems over all passwords, keys, challenges, card contents and channel behaviours for the model (exact MAC '
                          'soundness; key equality modulo parity; key inequality under the ideal-MAC premise) + differential run of the real '
                          'tag classes and an independent card simulator against the extracted reader and card models')


def ntag_monitor(ck, cfg, ops, res, mutation, case):
    card = res['card']
    marks = res['marks']
    tpos = None
    if mutation is not None:
        k = -1
        for i, (_c, r) in enumerate(res['transcript']):
            if res['true_rsp'][i] is not None:
                k += 1
                if k == mutation[0]:
                    tpos = i
    # the secret in force over time: configuration pages written to the EEPROM become effective at the
    # next activation (sense); replay what the card saw
    eeprom = {cfg + 2: res['before'][cfg + 2], cfg + 3: res['before'][cfg + 3]}
    eff = (bytes(eeprom[cfg + 2]), bytes(eeprom[cfg + 3][0:2]))
    pos_secret = []
    for e in res['events']:
        if e[0] == 's':
            eff = (bytes(eeprom[cfg + 2]), bytes(eeprom[cfg + 3][0:2]))
            continue
        pos_secret.append(eff)
        c, t = e[1], e[2]
        if len(c) == 6 and c[0] == 0xA2 and t == b'\x0a' and c[1] in eeprom:
            eeprom[c[1]] = c[2:6]
    pos_secret.append(eff)
    for n, (op, o) in enumerate(zip(ops, res['obs'])):
        lo, hi = marks[n], marks[n + 1]
        if o.startswith('exc ') and not (o.startswith('exc TagCommandError') or o == 'exc ValueError'):
            ck.violation('ntag-%s-raises:%s' % (op[0], o[4:]), 'NTAG21x %s raises %s' % (op[0], o[4:]), case)
            continue
        if op[0] == 'auth' and not (op[1] and len(op[1]) < 6):
            key = bytes(op[1][0:6]) if op[1] else b'\xff\xff\xff\xff\x00\x00'
            pwd, pack = pos_secret[lo]
            holds = key[0:4] == pwd and key[4:6] == pack
            touched = tpos is not None and lo <= tpos < hi
            if not touched:
                if o == 'ok true' and not holds:
                    ck.violation('ntag-auth-true-wrong-key', 'NTAG21x authenticate returned True although PWD/PACK differ', case)
                if o == 'ok false' and holds:
                    ck.violation('ntag-auth-false-right-key', 'NTAG21x authenticate returned False although the tag holds PWD/PACK', case)
            else:
                seen = res['transcript'][tpos][1]
                if o == 'ok true' and seen != key[4:6]:
                    ck.violation('ntag-auth-true-wrong-pack', 'NTAG21x authenticate returned True although the received PACK differs', case)
    if tpos is None:
        for n in range(len(ops) - 1):
            if ops[n][0] == 'prot' and res['obs'][n] == 'ok true':
                k0 = bytes(ops[n][1][0:6]) if ops[n][1] else b'\xff\xff\xff\xff\x00\x00'
                for m in range(n + 1, len(ops)):
                    if ops[m][0] == 'prot':
                        break
                    if ops[m][0] == 'auth' and not (ops[m][1] and len(ops[m][1]) < 6):
                        k1 = bytes(ops[m][1][0:6]) if ops[m][1] else b'\xff\xff\xff\xff\x00\x00'
                        if k1 == k0 and res['obs'][m] != 'ok true':
                            ck.violation('ntag-protect-then-auth-fails', 'NTAG21x: authenticate with the protect password fails', case)
                        if k1 != k0 and res['obs'][m] == 'ok true':
                            ck.violation('ntag-protect-then-other-auth', 'NTAG21x: another password authenticates after protect', case)


def replay(ck, rec):
    case = rec.get('case') or {}
    if case.get('family') == 'felica':
        ops = []
        for t in case['ops']:
            f = t.split(':')
            hb = lambda s: b'' if s == '-' else bytes.fromhex(s)  # noqa: E731
            if f[0] == 'auth':
                ops.append(('auth', hb(f[1]), hb(f[2])))
            elif f[0] == 'rmac':
                ops.append(('rmac', [int(x) for x in f[1].split(',')] if f[1] != '-' else []))
            elif f[0] == 'wmac':
                ops.append(('wmac', hb(f[1]), int(f[2])))
            else:
                ops.append(('prot', None if f[1] == 'none' else hb(f[1]), f[2] == '1', int(f[3]), hb(f[4])))
        init = {int(b): bytes.fromhex(v) for b, v in case['init'].items()}
        mu = None if case['mutation'] is None else (case['mutation'][0], bytes.fromhex(case['mutation'][1]))
        res = run_felica(case['lites'], init, ops, mu)
        print('replay observations:', res['obs'])
        felica_monitor(ck, case['lites'], ops, res, mu, case)
        ck.case(repr(case), True)
    elif case.get('family') == 'ntag':
        ops = [tuple(bytes.fromhex(x) if isinstance(x, str) and i == 1 else x for i, x in enumerate(o)) for o in case['ops']]
        init = {int(b): bytes.fromhex(v) for b, v in case['init'].items()}
        mu = None if case['mutation'] is None else (case['mutation'][0], bytes.fromhex(case['mutation'][1]))
        res = run_ntag(case['cfg'], init, ops, mu)
        print('replay observations:', res['obs'])
        ntag_monitor(ck, case['cfg'], ops, res, mu, case)
        ck.case(repr(case), True)
    elif case.get('family') == 'data-path':
        init = {int(b): bytes.fromhex(v) for b, v in case['init'].items()}
        masks = None if case['tamper'] is None else {int(b): bytes.fromhex(m) for b, m in case['tamper'].items()}
        o, isauth, card = run_data_path(case['lites'], case['authenticated'], init, bytes.fromhex(case['key']), case['path'], masks,
                                        case['once'], case['blocks'])
        print('replay observation:', repr(o)[:300], 'is_authenticated =', isauth)
        ln = case['ln']
        true_octets = b''.join(init[b] for b in range(1, (ln + 15) // 16 + 1))[:ln]
        if isinstance(o, tuple) and masks is not None and isauth and case['path'] != 'dump':
            good = (o[1] == true_octets and o[2] == ln) if o[0] == 'ndef' else \
                (o[2] == true_octets) if o[0] == 'changed' else (o[1] == b''.join(card.mem[b] for b in case['blocks']))
            if not good:
                ck.violation('%s-%s-returned-modified-data' % ('lites' if case['lites'] else 'lite', case['path'].replace('_', '-')),
                             '%s handed out modified block data while is_authenticated is True' % case['path'], case)
        ck.case(repr(case), True)
    else:
        print('nothing to replay in', ck.replay)


if __name__ == '__main__':
    main()
