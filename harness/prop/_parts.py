"""Checks assembled from parts (harness/parts/<prefix>*.py).  A part module defines
  COQ   = {'C01': dict(gen=[..], targets=['Proofs/X.vo', ..], props=['C01_tlv']), ...}
  MODEL = 'tags_tlv'      # -> coq/Extract/TAGS_TLV.v + extract/tags_tlv_run.ml -> extract/bin/tags_tlv
  RULE  = {'C01': 'how cases are generated / what is non-trivial', ...}
  def run(ck, pid, mr): ...   # correspondence + monitor for property pid; mr = model runner (or None)
"""
import glob
import importlib.util
import os

from common import Check, VERIF


def load_parts(prefix):
    mods = []
    for f in sorted(glob.glob(os.path.join(VERIF, 'harness', 'parts', prefix + '*.py'))):
        sp = importlib.util.spec_from_file_location(os.path.basename(f)[:-3], f)
        m = importlib.util.module_from_spec(sp)
        sp.loader.exec_module(m)
        mods.append(m)
    return mods


def main(pid, prefix, explanation):
    ck = Check(pid)
    parts = [m for m in load_parts(prefix) if pid in getattr(m, 'COQ', {})]
    gen, targets, props = [], [], []
    for m in parts:
        c = m.COQ[pid]
        gen += [g for g in c.get('gen', []) if g not in gen]
        targets += [t for t in c.get('targets', []) if t not in targets]
        props += [p for p in c.get('props', []) if p not in props]
        ck.trusted += getattr(m, 'TRUSTED', [])
        ck.assumptions += getattr(m, 'ASSUMPTIONS', {}).get(pid, [])
    if not parts:
        ck.broken.append('no parts found for ' + pid)
    ck.coq(gen=gen, targets=targets, props=props)
    rules = []
    for m in parts:
        mr = ck.model(m.MODEL) if getattr(m, 'MODEL', None) else None
        m.run(ck, pid, mr)
        rules.append(getattr(m, 'RULE', {}).get(pid, ''))
    ck.finish(level='proof', rule=' | '.join(r for r in rules if r), explanation=explanation)
