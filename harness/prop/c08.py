"""C08 - Activating and reading arbitrary tags terminates safely.

Obligations: Props/C08.v (readers for arbitrary readable memory / arbitrary responders return no NDEF or
a sound NDEF state, never Crash/Hang; explicit command bounds; every activation response variant yields
parameters or a clean failure).
Correspondence: nfc.tag.activate() + tag.ndef (+ length, capacity, octets, is_readable, is_writeable,
has_changed) of the real code on the adversarial simulators of harness/sim/c08_tags.py against the
extracted models (Model/TagAct.v, TagReadAny.v, TagReadAnyB.v): tag class / ISO-DEP parameters, the
NDEF state or None, the number of commands (Type 1/2: computed from the model's demand by a reference
memory loader; Type 3/4: the exact frames / APDUs the model sends when the recorded answers are replayed).
Monitor: the property text - only None or a sound object (octets from non-reserved addresses inside the
data area, length <= capacity), bounded commands, no exception - evaluated on the implementation's
observations with its own arithmetic.
"""
import json
import logging
import os
import sys

from common import Check, hx

import nfc
import nfc.clf
import nfc.tag
import nfc.tag.tt1
import nfc.tag.tt2
import nfc.tag.tt3
import nfc.tag.tt4

from sim.c08_tags import AnyClf, Loop, T2Any, T1Any, T3Any, T4Any, T4Adv, T4ApduAdv, Scripted, LIMIT

logging.disable(logging.CRITICAL)

FSC = (16, 24, 32, 40, 48, 64, 96, 128, 256)


def hexarg(b):
    return bytes(b).hex() if b is not None and len(b) else '-'


def unhex(s):
    return b'' if s in (None, '-', '') else bytes.fromhex(s)


def rb(rng, n):
    return bytes(rng.getrandbits(8) for _ in range(n))


def ans(s):
    """answer configuration in a case: None (mute), 'txerr', or hex string"""
    if s is None or s == 'txerr':
        return s
    return unhex(s)


# ------------------------------------------------------------------------------ recording frontend
class RecClf(AnyClf):
    """AnyClf that records the outcome of every exchange() (for replaying them to the model)"""

    def __init__(self, *a, **kw):
        AnyClf.__init__(self, *a, **kw)
        self.log = []      # (command, outcome) with outcome 'rx:<hex>' | 'to' | 'tx'
        self.slog = []     # results of sense()

    def exchange(self, data, timeout):
        cmd = bytes(data)
        try:
            r = AnyClf.exchange(self, data, timeout)
        except nfc.clf.TimeoutError:
            self.log.append((cmd, 'to'))
            raise
        except nfc.clf.TransmissionError:
            self.log.append((cmd, 'tx'))
            raise
        self.log.append((cmd, 'rx:' + bytes(r).hex()))
        return r

    def sense(self, *targets, **kw):
        r = AnyClf.sense(self, *targets, **kw)
        self.slog.append(r is not None)
        return r


def exc_name(e):
    if isinstance(e, Loop):
        return 'hang'
    if isinstance(e, nfc.tag.TagCommandError):
        return 'TagCommandError'
    return type(e).__name__


def ndef_state(nd):
    """canonical NDEF state: 'none' | 'ndef rd wr cap octets'; plus the raw values"""
    if nd is None:
        return 'none', None
    o = nd.octets
    return ('ndef %d %d %d %s' % (nd.is_readable, nd.is_writeable, nd.capacity, hexarg(o)),
            {'length': nd.length, 'capacity': nd.capacity, 'octets': o, 'ndef': nd,
             # the object's internals now (a later has_changed overwrites them)
             'off': getattr(nd, '_ndef_tlv_offset', None), 'skip': set(getattr(nd, '_skip_bytes', ())),
             'limit': getattr(nd, '_nlen_size', 0) + nd.capacity, 'fid': bytes(getattr(nd, '_ndef_file', b''))})


def read_twice(tag, clf):
    """tag.ndef, then (if an object) tag.ndef.has_changed; what the tag object shows after each step"""
    o = {}
    try:
        nd = tag.ndef
        o['r1'], o['x1'] = ndef_state(nd)
    except Exception as e:  # noqa
        o['r1'], o['x1'] = 'exc ' + exc_name(e), None
        o['n1'] = clf.ncmd
        return o
    o['n1'] = clf.ncmd
    o['sector1'] = getattr(tag, '_current_sector', 0)
    if nd is None:
        return o
    try:
        o['changed'] = bool(nd.has_changed)
        o['r2'], o['x2'] = ndef_state(tag._ndef)
    except Exception as e:  # noqa
        o['r2'], o['x2'] = 'exc ' + exc_name(e), None
    o['n2'] = clf.ncmd
    return o


def do_activate(sim, stop, mode, **kw):
    clf = RecClf(sim, stop, mode, **kw)
    try:
        tag = nfc.tag.activate(clf, sim.target())
        act = 'none' if tag is None else type(tag).__name__
    except Exception as e:  # noqa
        tag, act = None, 'exc ' + exc_name(e)
    clf.n_act, clf.ns_act = clf.ncmd, clf.nsense
    return clf, tag, act


# ------------------------------------------------------------------------------ simulators from cases
def mk_t2(c):
    return T2Any(unhex(c['image']), uid=unhex(c['uid']), beyond=c['beyond'], sectors=c['sectors'],
                 auth=ans(c['auth']), version=ans(c['version']))


def mk_t1(c):
    return T1Any(unhex(c['hr']), unhex(c['image']), beyond=c['beyond'], rid=None if c.get('rid') is None else unhex(c['rid']))


def mk_t3(c):
    b = unhex(c['blocks'])
    return T3Any([b[i:i + 16] for i in range(0, len(b), 16)], idm=unhex(c['idm']), pmm=unhex(c['pmm']),
                 sys_in_sensf=c['sys_in_sensf'], sensf=None if c.get('sensf') is None else unhex(c['sensf']),
                 max_read=c['max_read'], beyond=c['beyond'], poll=c['poll'], poll_extra=unhex(c.get('poll_extra', '')))


def mk_t4(c):
    return T4Any({unhex(k): unhex(v) for k, v in c['files'].items()}, aids=[unhex(a) for a in c['aids']],
                 ats=ans(c['ats']), typeb=c['typeb'], sensb=unhex(c['sensb']), attrib=ans(c['attrib']), cmiu=c['cmiu'],
                 rb_mode=c['rb_mode'], rb_from=c['rb_from'], rb_extra=c['rb_extra'])


def mk_raw(c):
    t = c['target']
    tg = nfc.clf.RemoteTarget(t['brty'])
    for k, v in t.items():
        if k != 'brty':
            setattr(tg, k, bytearray(unhex(v)))
    return Scripted(tg, [ans(x) for x in c['script']], tail=ans(c.get('tail')))


# ------------------------------------------------------------------------------ reference memory loaders
def ref_t2_cmds(c, budget, mode, demand, sector=0):
    """exchange() calls of a loader that fetches 16 bytes at a time in ascending order until `demand`
    bytes are loaded or a command is not answered with 16 bytes (READ and the first SECTOR SELECT packet
    are sent up to 3 times when the link fails, the second packet once)"""
    sim = mk_t2(c)
    sim.sector = sector
    clf = AnyClf(sim, budget, mode)

    def send(cmd, tries):
        r = None
        for _ in range(tries):
            try:
                return clf.exchange(cmd, 0)
            except nfc.clf.TimeoutError:
                r = None
            except nfc.clf.CommunicationError:
                r = 'txerr'
        return r
    loaded, nsense = 0, 0
    while loaded < demand:
        if loaded >> 10 != sector:
            r = send(b'\xC2\xFF', 3)
            if r is None or isinstance(r, str) or bytes(r) != b'\x0a':
                break
            r = send(bytes([loaded >> 10, 0, 0, 0]), 1)
            if r is not None:
                break
            sector = loaded >> 10
        r = send(bytes([0x30, (loaded >> 2) % 256]), 3)
        if r is None or isinstance(r, str) or len(r) != 16:
            if r is not None and len(r) == 1 and r[0] & 0xFA == 0:
                nsense += 1
            break
        loaded += 16
    return clf.ncmd


def ref_t1_cmds(c, budget, mode, demand):
    sim = mk_t1(c)
    clf = AnyClf(sim, budget, mode)
    uid = sim.uid

    def send(cmd):
        for _ in range(3):
            try:
                return clf.exchange(cmd, 0)
            except nfc.clf.CommunicationError:
                pass
        return None
    loaded = 0
    if demand > 0:
        r = send(b'\x00\x00\x00' + uid)
        if r is not None:
            loaded = 120
            if demand > 120:
                r = send(bytes([2, 15]) + bytes(8) + uid)
                if r is not None:
                    loaded = 128
                    while loaded < demand and loaded >> 7 <= 15:
                        r = send(bytes([0x10, (loaded >> 7) << 4]) + bytes(8) + uid)
                        if r is None or len(r) < 129:
                            break
                        loaded += 128
    return clf.ncmd


# ------------------------------------------------------------------------------ monitors
def tlv_positions(view, off, skip, n):
    """addresses of the n value bytes of the TLV at `off` (independent of the code under test)"""
    a = off + (4 if off + 1 < len(view) and view[off + 1] == 0xFF else 2)
    start, out = a, []
    while len(out) < n and a < 0x200000:
        if a not in skip:
            out.append(a)
        a += 1
    return start, out


def monitor_tlv(ck, kind, case, x, view, first, dend):
    """Type 1/2: octets come from non-reserved addresses inside [first, dend), length <= capacity"""
    nd = x['ndef']
    key = '%s:unsound' % kind
    if x['length'] > x['capacity'] or x['length'] != len(x['octets']):
        ck.violation(key + ':length>capacity', '%s: ndef.length %d exceeds ndef.capacity %d' % (kind, x['length'], x['capacity']), case)
        return
    off, skip = x['off'], x['skip']
    start, pos = tlv_positions(view, off, skip, len(x['octets']))
    ok = off >= first and start <= dend and all(p < dend for p in pos) and len(pos) == len(x['octets']) and \
        all(p < len(view) and view[p] == b for p, b in zip(pos, x['octets']))
    if not ok:
        ck.violation(key + ':outside-data-area', '%s: NDEF octets are not the content of the data area (TLV at %d, data area ends at %d, %d octets)'
                     % (kind, off, dend, len(x['octets'])), case)


# ------------------------------------------------------------------------------ the check
class Run(object):
    def __init__(self, ck, mr):
        self.ck = ck
        self.mr = mr
        self.lines = []
        self.after = []       # callbacks (model output line) -> None
        self.nmis = 0
        self.bounds = {}

    def model(self, line, fn):
        self.lines.append(line)
        self.after.append(fn)

    def mismatch(self, name, case, impl, model):
        self.nmis += 1
        if self.nmis <= 5:
            self.ck.correspondence_mismatch(name, {'case': case, 'impl': str(impl)[:300], 'model': str(model)[:300]})

    def flush(self):
        if not self.lines:
            return
        if os.environ.get('C08_DUMP'):
            open(os.environ['C08_DUMP'], 'a').write('\n'.join(self.lines) + '\n')
        out = self.mr.run(self.lines)
        for fn, o in zip(self.after, out):
            fn(o)
        self.ck.cov['traces_validated_against_impl'] = self.ck.cov.get('traces_validated_against_impl', 0) + len(self.lines)
        self.lines, self.after = [], []

    # ---- generic result checks
    def exceptions(self, kind, case, act, o):
        ck = self.ck
        bad = None
        if act.startswith('exc '):
            bad = ('activate', act[4:])
        elif o is not None:
            for k in ('r1', 'r2'):
                if str(o.get(k, '')).startswith('exc '):
                    bad = ('tag.ndef' if k == 'r1' else 'has_changed', o[k][4:])
                    break
        if bad:
            if bad[1] == 'hang':
                ck.violation('%s:unbounded:%s' % (kind, bad[0]), '%s: %s sends more commands than the guard of this case allows (%d): it does not stop' % (kind, bad[0], case.get('limit', LIMIT)), case)
            else:
                ck.violation('%s:exception:%s:%s' % (kind, bad[0], bad[1]), '%s: %s raises %s' % (kind, bad[0], bad[1]), case)
        return bad is not None


# ---- Type 2 ---------------------------------------------------------------------
def t2_bound(run, dend):
    if dend not in run.bounds:
        run.bounds[dend] = int(run.mr.run(['t2bound %d' % dend])[0].split()[1])
    return run.bounds[dend]


def run_t2(run, c):
    ck = run.ck
    sim = mk_t2(c)
    clf, tag, act = do_activate(sim, c['stop'], c['mode'])
    o = read_twice(tag, clf) if tag is not None else None
    n_act, slog = clf.n_act, clf.slog[:clf.ns_act]
    run.exceptions('t2', c, act, o)
    xs = ','.join(r for _, r in clf.log[:n_act]) or '-'
    ss = ''.join('1' if x else '0' for x in slog) or '-'

    def chk_act(out, act=act, n_act=n_act, ns=len(slog)):
        want = '%s x=%d s=%d' % (act, n_act, ns)
        if out != want and not act.startswith('exc'):
            run.mismatch('t2-activation', c, want, out)
    run.model('t2act %d %s %s' % (unhex(c['uid'])[0], xs, ss), chk_act)
    ck.count('t2')
    if tag is None or o is None:
        ck.case(('t2', json.dumps(c, sort_keys=True)), True)
        return
    img = unhex(c['image'])
    dend = 16 + 8 * img[14]
    bound = t2_bound(run, dend)
    # ---- monitor
    if 'n1' in o and o['n1'] - n_act > bound:
        ck.violation('t2:unbounded:commands', 't2: tag.ndef sent %d commands, data area of %d bytes allows %d' % (o['n1'] - n_act, dend - 16, bound), c)
    view = sim.view(None, max(16 * len(clf.log) + 64, 4096))
    for k in ('x1', 'x2'):
        if o.get(k):
            monitor_tlv(ck, 't2', c, o[k], view, 16, dend)
    if c['stop'] is None and o.get('x1') and 'changed' in o and (o['changed'] or o['r2'] != o['r1']):
        ck.violation('t2:has_changed', 't2: has_changed reports a change on an unchanged tag', c)
    # ---- model: first read, second read
    budget1 = None if c['stop'] is None else max(c['stop'] - n_act, 0)

    def loaded(lo, hi):
        """bytes the implementation loaded with the commands lo..hi of the log (+ margin): more is never needed
        to follow it; a model that asks for more than that runs into the end and is reported as a mismatch"""
        return 16 * sum(1 for cmd, r in clf.log[lo:hi] if cmd[:1] == b'\x30' and len(r) == 35) + 64
    lim1 = loaded(n_act, o.get('n1', len(clf.log)))
    em1 = sim.view(budget1, lim1, c['mode'])[:lim1]

    def chk1(out, o=o, budget1=budget1):
        st, d = out.rsplit(' d=', 1)
        st = ' '.join(st.split()[:5]) if st.startswith('ndef') else st
        if st != o['r1'] and not o['r1'].startswith('exc'):
            run.mismatch('t2-read', c, o['r1'], out)
            return
        want = ref_t2_cmds(c, budget1, c['mode'], int(d))
        if 'n1' in o and o['n1'] - n_act != want and not o['r1'].startswith('exc'):
            run.mismatch('t2-commands', c, o['n1'] - n_act, '%d (demand %s)' % (want, d))
    run.model('t2read ' + hexarg(em1), chk1)
    if 'n2' in o and not str(o['r2']).startswith('exc'):
        budget2 = None if c['stop'] is None else max(c['stop'] - o['n1'], 0)
        lim2 = loaded(o['n1'], o['n2'])
        em2 = sim.view(budget2, lim2, c['mode'], o['sector1'])[:lim2]

        def chk2(out, o=o, budget2=budget2):
            st, d = out.rsplit(' d=', 1)
            st = ' '.join(st.split()[:5]) if st.startswith('ndef') else st
            if st != o['r2']:
                run.mismatch('t2-read-again', c, o['r2'], out)
            exp_changed = (st == 'none') or st.split()[4] != o['r1'].split()[4]
            if o['changed'] != exp_changed:
                run.mismatch('t2-has_changed', c, o['changed'], exp_changed)
            want = ref_t2_cmds(c, budget2, c['mode'], int(d), o['sector1'])
            if o['n2'] - o['n1'] != want:
                run.mismatch('t2-commands-again', c, o['n2'] - o['n1'], '%d (demand %s)' % (want, d))
        run.model('t2read ' + hexarg(em2), chk2)
    nontrivial = o['r1'] != 'none' or len(clf.log) > n_act + 1
    ck.case(('t2', c['image'], c['beyond'], c['stop'], c['mode'], c['auth'], c['version']), nontrivial,
            {'kind': 't2', 'image': c['image'][:80], 'stop': c['stop'], 'class': act, 'ndef': o['r1'][:60], 'commands': o.get('n1')})


# ---- Type 1 ---------------------------------------------------------------------
def run_t1(run, c):
    ck = run.ck
    sim = mk_t1(c)
    clf, tag, act = do_activate(sim, c['stop'], c['mode'])
    o = read_twice(tag, clf) if tag is not None else None
    run.exceptions('t1', c, act, o)
    rid = bytes(sim.target().rid_res)

    def chk_act(out, act=act):
        if out.split()[0] != act and not act.startswith('exc'):
            run.mismatch('t1-activation', c, act, out)
        elif tag is not None and out.split()[1] != 'uid=' + hexarg(tag.uid):
            run.mismatch('t1-uid', c, hexarg(tag.uid), out)
    run.model('t1act ' + hexarg(rid), chk_act)
    ck.count('t1')
    if tag is None or o is None:
        ck.case(('t1', json.dumps(c, sort_keys=True)), True)
        return
    img = unhex(c['image'])
    hr0 = unhex(c['hr'])[0]
    size = (img[10] + 1) * 8
    bound = 54          # t1_wire_max: RALL, READ8, 16 x RSEG, each sent up to three times
    if 'n1' in o and o['n1'] > bound:
        ck.violation('t1:unbounded:commands', 't1: tag.ndef sent %d commands (bound %d)' % (o['n1'], bound), c)
    view = (img + bytes(2048))[:2048] if c['beyond'] == 'zeros' else img[:2048]
    for k in ('x1', 'x2'):
        if o.get(k):
            monitor_tlv(ck, 't1', c, o[k], view, 12, size)
    if c['stop'] is None and o.get('x1') and 'changed' in o and (o['changed'] or o['r2'] != o['r1']):
        ck.violation('t1:has_changed', 't1: has_changed reports a change on an unchanged tag', c)
    if c.get('rid') is not None:
        # an odd RID response: the commands carry another UID, the simulated tag does not answer them
        ck.case(('t1', json.dumps(c, sort_keys=True)), True)
        return
    budget1 = c['stop']
    em1 = sim.view(budget1)

    def chk1(out, o=o):
        st, d = out.rsplit(' d=', 1)
        st = ' '.join(st.split()[:5]) if st.startswith('ndef') else st
        if st != o['r1'] and not o['r1'].startswith('exc'):
            run.mismatch('t1-read', c, o['r1'], out)
            return
        want = ref_t1_cmds(c, budget1, c['mode'], int(d))
        if 'n1' in o and o['n1'] != want and not o['r1'].startswith('exc'):
            run.mismatch('t1-commands', c, o['n1'], '%d (demand %s)' % (want, d))
    run.model('t1read %d %s' % (hr0, hexarg(em1)), chk1)
    if 'n2' in o and not str(o['r2']).startswith('exc'):
        budget2 = None if c['stop'] is None else max(c['stop'] - o['n1'], 0)
        em2 = sim.view(budget2)

        def chk2(out, o=o):
            st, d = out.rsplit(' d=', 1)
            st = ' '.join(st.split()[:5]) if st.startswith('ndef') else st
            if st != o['r2']:
                run.mismatch('t1-read-again', c, o['r2'], out)
            exp_changed = (st == 'none') or st.split()[4] != o['r1'].split()[4]
            if o['changed'] != exp_changed:
                run.mismatch('t1-has_changed', c, o['changed'], exp_changed)
        run.model('t1read %d %s' % (hr0, hexarg(em2)), chk2)
    ck.case(('t1', c['hr'], c['image'], c['beyond'], c['stop'], c['mode']), o['r1'] != 'none' or clf.ncmd > 1,
            {'kind': 't1', 'image': c['image'][:80], 'stop': c['stop'], 'class': act, 'ndef': o['r1'][:60], 'commands': o.get('n1')})


# ---- Type 3 ---------------------------------------------------------------------
def monitor_t3(ck, c, sim, o, clf):
    blocks = sim.blocks
    att = blocks[0] if blocks else bytes(16)
    nmaxb = att[3] * 256 + att[4]
    ln = att[11] << 16 | att[12] << 8 | att[13]
    # bound: polling and attribute block (3 tries each) + one command (3 tries) per block of the data area
    bound = 3 * (2 + max(nmaxb, 0))
    for k, n in (('n1', 'tag.ndef'),):
        if k in o and o[k] > bound:
            ck.violation('t3:unbounded:commands', 't3: %s sent %d commands, Nmaxb=%d allows %d' % (n, o[k], nmaxb, bound), c)
    for k in ('x1', 'x2'):
        x = o.get(k)
        if not x:
            continue
        if x['length'] > x['capacity'] or x['length'] != len(x['octets']):
            ck.violation('t3:unsound:length>capacity', 't3: ndef.length %d exceeds ndef.capacity %d' % (x['length'], x['capacity']), c)
            continue
        nb = (len(x['octets']) + 15) // 16
        area = b''.join((blocks[i] if i < len(blocks) else bytes(16)) for i in range(1, 1 + nb))
        if x['capacity'] != 16 * nmaxb or nb > nmaxb or area[:len(x['octets'])] != x['octets']:
            ck.violation('t3:unsound:outside-data-area', 't3: NDEF octets are not the content of data blocks 1..Nmaxb (Nmaxb=%d, %d octets)'
                         % (nmaxb, len(x['octets'])), c)
    # every block read lies in the attribute block or the data area
    if o.get('x1'):
        for cmd, _ in clf.log:
            if len(cmd) > 14 and cmd[1] == 6:
                body, nums, pos = cmd[13:], [], 1
                for _i in range(body[0]):
                    if body[pos] & 0x80:
                        nums.append(body[pos + 1])
                        pos += 2
                    else:
                        nums.append(body[pos + 1] | body[pos + 2] << 8)
                        pos += 3
                if any(n > nmaxb for n in nums):
                    ck.violation('t3:unsound:block-beyond-nmaxb', 't3: block %d read, Nmaxb=%d' % (max(nums), nmaxb), c)
                    break


def run_t3(run, c, sim=None, kind='t3'):
    ck = run.ck
    sim = sim or mk_t3(c)
    clf, tag, act = do_activate(sim, c['stop'], c['mode'], limit=c.get('limit', LIMIT))
    sensf = bytes(sim.target().sensf_res)

    want_act = '%s idm=%s pmm=%s sys=%d' % (act, hexarg(tag.idm), hexarg(tag.pmm), tag.sys) if tag is not None else act

    def chk_act(out, act=act, want=want_act):
        if not act.startswith('exc') and out != want:
            run.mismatch(kind + '-activation', c, want, out)
    idm0, sys0 = (bytes(tag.idm), tag.sys) if tag is not None else (b'', 0)
    run.model('t3act ' + hexarg(sensf), chk_act)
    o = read_twice(tag, clf) if tag is not None else None
    run.exceptions(kind, c, act, o)
    ck.count(kind)
    if tag is None or o is None:
        ck.case((kind, json.dumps(c, sort_keys=True)), True)
        return
    if kind == 't3':
        monitor_t3(ck, c, sim, o, clf)
    else:
        for k in ('x1', 'x2'):
            x = o.get(k)
            if x and (x['length'] > x['capacity'] or x['length'] != len(x['octets'])):
                ck.violation(kind + ':unsound:length>capacity', '%s: ndef.length %d exceeds ndef.capacity %d' % (kind, x['length'], x['capacity']), c)
        if o.get('n2', o.get('n1', 0)) > 3 * (2 + 65535) * 2:
            ck.violation(kind + ':unbounded:commands', '%s: %d commands' % (kind, o['n1']), c)
    script = ','.join(r for _, r in clf.log) or '-'
    sent = ','.join(hexarg(cmd) for cmd, _ in clf.log) or '-'

    def chk(out, o=o, sent=sent):
        if o['r1'].startswith('exc') or str(o.get('r2', '')).startswith('exc'):
            return
        want = 'r1=%s | r2=%s | sent=%s' % (o['r1'], o.get('r2', '-'), sent)
        if out != want:
            run.mismatch(kind + '-read', c, want, out)
        elif 'changed' in o:
            exp = o['r2'] == 'none' or o['r2'].split()[4] != o['r1'].split()[4]
            if o['changed'] != exp:
                run.mismatch(kind + '-has_changed', c, o['changed'], exp)
    if not c.get('nomodel'):
        run.model('t3sess %s %d %s' % (hexarg(idm0), sys0, script), chk)
    ck.case((kind, json.dumps(c, sort_keys=True)), o['r1'] != 'none' or clf.ncmd > 3,
            {'kind': kind, 'attr': c.get('blocks', '')[:32], 'stop': c['stop'], 'class': act, 'ndef': o['r1'][:60], 'commands': o.get('n1')})


# ---- Type 4 ---------------------------------------------------------------------
class DepRec(object):
    """records what IsoDepInitiator.exchange() returns / raises to Type4Tag (APDU level) and, per call, the block number
    it started with and the clf.exchange() outcomes it consumed (block level)"""

    def __init__(self, dep, clf):
        self.dep = dep
        self.clf = clf
        self.log = []
        self.blocks = []      # (pni before, command, first log index, last log index, result, pni after)

    def __getattr__(self, k):
        return getattr(self.dep, k)

    def exchange(self, command, timeout=None):
        if command is None:
            return self.dep.exchange(command, timeout)
        pn, n0 = self.dep.pni, len(self.clf.log)
        try:
            r = self.dep.exchange(command, timeout)
        except nfc.tag.tt4.Type4TagCommandError as e:
            self.log.append((bytes(command), 'fail:%d' % e.errno))
            self.blocks.append((pn, bytes(command), n0, len(self.clf.log), 'err TagCommandError:%d' % e.errno, self.dep.pni))
            raise
        self.log.append((bytes(command), 'ok:' + (bytes(r).hex() if r is not None else '')))
        self.blocks.append((pn, bytes(command), n0, len(self.clf.log), 'ok:' + bytes(r).hex(), self.dep.pni))
        return r


W_MAX = 65538         # fixes/c08-19: S(WTX) requests + chained response blocks accepted within one exchange


def wild(r):
    """an answer that starts like S(WTX) or has the chaining bit set"""
    return r.startswith('rx:') and len(r) >= 5 and (int(r[3:5], 16) & 0xFE == 0xF2 or int(r[3:5], 16) & 0x10 != 0)


def monitor_blocks(run, kind, c, dep, clf, sample):
    """block level: every exchange() stops within the bound of the theorem - (C+1) * (len cmd + 2 + wild answers) + C
    clf.exchange calls, C = retry budget + 2, and accepts at most W_MAX wild answers; and it agrees with the model"""
    ck = run.ck
    C = dep.n_retry_nak + 2
    for pn, cmd, n0, n1, res, pn1 in dep.blocks:
        outs = [r for _, r in clf.log[n0:n1]]
        nw = sum(1 for r in outs if wild(r))
        if n1 - n0 > (C + 1) * (len(cmd) + 2 + min(nw, W_MAX + 1)) + C or nw > W_MAX + 1:
            ck.violation(kind + ':unbounded:blocks', '%s: one exchange() sent %d blocks (%d waiting time extensions / chained blocks)'
                         % (kind, n1 - n0, nw), c)
        if sample:
            # the block number is compared after a successful exchange only (after a failed one reader and card are out of step anyway)
            want = '%s n=%d' % (res, n1 - n0) + (' pni=%d' % pn1 if res.startswith('ok') else '')

            def chk(out, want=want):
                if not (out == want or (not want.startswith('ok') and out.rsplit(' pni=', 1)[0] == want)):
                    run.mismatch(kind + '-isodep', c, want, out)
            run.model('isodep %d %d %d %s %s' % (dep.miu, dep.n_retry_nak, pn, hexarg(cmd), ','.join(outs) or '-'), chk)


def fwt_of(fwi):
    return 4096 / 13.56E6 * 2 ** fwi


def check_t4_params(run, c, kind, out, tag, clf, act):
    """model line 'none|some fsc= miu= retry= fwti= tail= cmd=' against the tag object"""
    if act.startswith('exc'):
        return
    if out == 'nocmd':
        if act != 'none' or clf.ncmd != 0:
            run.mismatch(kind + '-activation', c, '%s after %d commands' % (act, clf.ncmd), out)
        return
    w = dict(x.split('=') for x in out.split()[1:])
    sent = hexarg(clf.log[0][0]) if clf.log else '-'
    if out.startswith('none'):
        ok = act == 'none'
    else:
        ok = tag is not None and tag._dep.miu == int(w['miu']) and tag._dep.n_retry_ack == int(w['retry']) and \
            tag._dep.n_retry_nak == int(w['retry']) and abs(tag._dep.fwt - fwt_of(int(w['fwti']))) < 1e-12
    if not ok or sent != w['cmd']:
        run.mismatch(kind + '-activation', c, '%s miu=%s sent=%s' % (act, getattr(getattr(tag, '_dep', None), 'miu', None), sent), out)


def iso_params(ats, max_send):
    """ISO/IEC 14443-4 5.2 reading of a well-formed answer to select: (FSC, FWI) - independent of the code"""
    tl = ats[0]
    fsci, fwi = 2, 4
    if tl > 1:
        t0 = ats[1]
        fsci = t0 & 15
        i = 2
        if t0 & 0x10:
            i += 1
        if t0 & 0x20:
            fwi = ats[i] >> 4
    fsc = FSC[min(fsci, 8)]
    return min(fsc, max_send), (4 if fwi == 15 else fwi)


def t4_area(c):
    """size of the NDEF file's data area as the capability container declares it (own parse)"""
    cc = unhex(c['files'].get('e103', ''))
    if len(cc) < 15:
        return 0
    if cc[7] == 4:
        return min(int.from_bytes(cc[11:13], 'big'), 65536)
    if cc[7] == 6:
        return min(int.from_bytes(cc[11:15], 'big'), 65536)
    return 0


def run_t4(run, c, sim=None, kind='t4'):
    ck = run.ck
    sim = sim or mk_t4(c)
    ms, mr_ = c.get('max_send', 256), c.get('max_recv', 256)
    clf, tag, act = do_activate(sim, c['stop'], c['mode'], max_send=ms, max_recv=mr_, limit=c.get('limit', LIMIT))
    first = clf.log[0][1] if clf.log else 'to'
    typeb = sim.target().brty.endswith('B')
    if typeb:
        run.model('t4b %s %s %d %d' % (hexarg(sim.target().sensb_res), first, ms, mr_),
                  lambda out, tag=tag, clf=clf, act=act: check_t4_params(run, c, kind, out, tag, clf, act))
    else:
        run.model('t4a %s %d %d' % (first, ms, mr_),
                  lambda out, tag=tag, clf=clf, act=act: check_t4_params(run, c, kind, out, tag, clf, act))
        # monitor: a standard-conformant answer to select yields the parameters the standard defines
        if c.get('wellformed_ats') and first.startswith('rx:'):
            fsc, fwi = iso_params(unhex(first[3:]), ms)
            if tag is None or act.startswith('exc') or tag._dep.miu != fsc - 3 or abs(tag._dep.fwt - fwt_of(fwi)) > 1e-12:
                ck.violation('t4:ats:wrong-parameters', 't4: ATS %s -> %s, ISO/IEC 14443-4 says FSC %d FWI %d' % (
                    first[3:], act if tag is None else 'MIU %d FWT %f' % (tag._dep.miu, tag._dep.fwt), fsc, fwi), c)
    o = None
    if tag is not None:
        tag._dep = DepRec(tag._dep, clf)
        o = read_twice(tag, clf)
    run.exceptions(kind, c, act, o)
    ck.count(kind)
    if tag is None or o is None:
        ck.case((kind, json.dumps(c, sort_keys=True)), True)
        return
    monitor_blocks(run, kind, c, tag._dep, clf, c.get('isodep', False))
    log = tag._dep.log
    # ---- monitor
    area = t4_area(c) if kind == 't4' else 65536
    bound = 2 * (8 + area)          # tag.ndef and has_changed: selects, CC, NLEN, then at least one byte per READ BINARY
    if len(log) > bound:
        ck.violation(kind + ':unbounded:commands', '%s: %d APDUs sent, data area of %d bytes' % (kind, len(log), area), c)
    for k in ('x1', 'x2'):
        x = o.get(k)
        if not x:
            continue
        if x['length'] > x['capacity'] or x['length'] != len(x['octets']):
            ck.violation(kind + ':unsound:length>capacity', '%s: ndef.length %d exceeds ndef.capacity %d' % (kind, x['length'], x['capacity']), c)
            continue
        nd = x['ndef']
        limit = x['limit']      # nlen_size + capacity = min(maximum file size, 65536)
        sel, bad = None, False
        for apdu, r in log:
            if apdu[1] == 0xA4 and apdu[2] == 0:
                sel = bytes(apdu[5:7])
            if apdu[1] == 0xB0 and sel == x['fid'] and r.startswith('ok:'):
                off = apdu[2] << 8 | apdu[3]
                got = (len(r) - 3) // 2 - 2
                le = (apdu[4] or 256) if len(apdu) == 5 else 0
                if got <= le and off + max(got, 0) > limit:      # answers longer than Le are rejected by the reader
                    bad = True
        if bad:
            ck.violation(kind + ':unsound:outside-data-area', '%s: NDEF file read beyond the maximum file size %d' % (kind, limit), c)
    script = ','.join(r for _, r in log) or '-'
    sent = ','.join(hexarg(a) for a, _ in log) or '-'

    def chk(out, o=o, sent=sent):
        if o['r1'].startswith('exc') or str(o.get('r2', '')).startswith('exc'):
            return
        want = 'r1=%s | r2=%s | sent=%s' % (o['r1'], o.get('r2', '-'), sent)
        if out != want:
            run.mismatch(kind + '-read', c, want, out)
        elif 'changed' in o:
            exp = o['r2'] == 'none' or o['r2'].split()[4] != o['r1'].split()[4]
            if o['changed'] != exp:
                run.mismatch(kind + '-has_changed', c, o['changed'], exp)
    run.model('t4sess ' + script, chk)
    if c.get('write_after') and tag._ndef is not None:
        # writing and formatting against the same card: they return, or raise a documented exception, within the guard
        for what, fn in (('write', lambda: setattr(tag.ndef, 'octets', b'\xd0\x00\x00')), ('format', lambda: tag.format(wipe=0))):
            try:
                fn()
            except (nfc.tag.TagCommandError, AttributeError, ValueError):
                pass            # documented: command error, not writeable / no NDEF, data too long
            except Loop:
                ck.violation('%s:unbounded:%s' % (kind, what), '%s: %s sends more commands than the guard (%d) allows: it does not stop'
                             % (kind, what, c.get('limit', LIMIT)), c)
                break
            except Exception as e:  # noqa
                ck.violation('%s:exception:%s:%s' % (kind, what, type(e).__name__), '%s: %s raises %s' % (kind, what, type(e).__name__), c)
    ck.case((kind, json.dumps(c, sort_keys=True)), o['r1'] != 'none' or len(log) > 3,
            {'kind': kind, 'cc': c.get('files', {}).get('e103', '')[:46], 'stop': c['stop'], 'class': act, 'ndef': o['r1'][:60], 'apdus': len(log)})


# ---- raw answers ----------------------------------------------------------------
def run_raw(run, c):
    tech = c['tech']
    sim = mk_raw(c)
    c = dict(c, stop=None, mode='timeout', isodep=True)
    if tech == 't3':
        return run_t3(run, c, sim=sim, kind='raw-t3')
    if tech == 't4':
        return run_t4(run, c, sim=sim, kind='raw-t4')
    ck = run.ck
    kind = 'raw-' + tech
    clf, tag, act = do_activate(sim, None, 'timeout')
    o = read_twice(tag, clf) if tag is not None else None
    run.exceptions(kind, c, act, o)
    ck.count(kind)
    if o:
        for k in ('x1', 'x2'):
            x = o.get(k)
            if x and (x['length'] > x['capacity'] or x['length'] != len(x['octets'])):
                ck.violation(kind + ':unsound:length>capacity', '%s: ndef.length %d exceeds ndef.capacity %d' % (kind, x['length'], x['capacity']), c)
    # monitor: the octets are the content of the data area of the image the answers built (own reconstruction from the log)
    if o and o.get('x1'):
        view = bytearray()
        for cmd, r in clf.log[:o['n1']]:
            if not r.startswith('rx:'):
                continue
            rsp = bytes.fromhex(r[3:])
            if tech == 't2' and cmd[:1] == b'\x30' and len(rsp) == 16:
                view += rsp
            elif tech == 't1' and cmd[:1] == b'\x00' and len(rsp) >= 2:
                view = bytearray(rsp[2:])
            elif tech == 't1' and cmd[:1] == b'\x02':
                view[120:128] = rsp[1:9]
            elif tech == 't1' and cmd[:1] == b'\x10' and len(rsp) >= 129:
                view += rsp[1:129]
        if tech == 't2' and len(view) > 14:
            monitor_tlv(ck, kind, c, o['x1'], bytes(view), 16, 16 + 8 * view[14])
        if tech == 't1' and len(view) > 10:
            monitor_tlv(ck, kind, c, o['x1'], bytes(view), 12, (view[10] + 1) * 8)
    # the command layer against the loader model (Model/TagLoad.v): result of the first read and the exact frames
    if tag is not None and o is not None and not o['r1'].startswith('exc'):
        script = ','.join(r for _, r in clf.log) or '-'
        sent = ','.join(hexarg(cmd) for cmd, _ in clf.log[:o['n1']]) or '-'

        def chk(out, o=o, sent=sent):
            st, ms = out.split(' | sent=')
            st = ' '.join(st.split()[:5]) if st.startswith('ndef') else st
            if st != o['r1'] or ms != sent:
                run.mismatch(kind + '-load', c, '%s | sent=%s' % (o['r1'], sent), out)
        if tech == 't2':
            run.model('t2resp ' + script, chk)
        else:
            run.model('t1resp %s %s' % (hexarg(tag.uid), script), chk)
    ck.case((kind, json.dumps(c, sort_keys=True)), True)


def run_disp(run, c):
    ck = run.ck
    t = nfc.clf.RemoteTarget('106A')
    t.sens_res = bytearray(unhex(c['sens']))
    t.sel_res = bytearray(unhex(c['sel']))
    t.sdd_res = bytearray(b'\x08\x01\x02\x03')
    t.rid_res = bytearray(b'\x11\x48\x01\x02\x03\x04')
    clf = RecClf(Scripted(t, [], tail=None), None)
    try:
        tag = nfc.tag.activate(clf, t)
        r = 'none' if tag is None else {'Type1Tag': 'TT1', 'Topaz': 'TT1', 'Type2Tag': 'TT2'}.get(type(tag).__name__, type(tag).__name__)
    except Exception as e:  # noqa
        r = 'exc ' + exc_name(e)
        ck.violation('disp:exception:%s' % exc_name(e), 'activate raises %s for SENS_RES %s SEL_RES %s' % (exc_name(e), c['sens'], c['sel']), c)
    if r == 'none' and clf.ncmd > 0:
        r = 'TT4'       # RATS was sent and not answered

    def chk(out, r=r):
        if out != r and not r.startswith('exc'):
            run.mismatch('dispatch', c, r, out)
    run.model('disp %s %s' % (c['sens'], c['sel']), chk)
    ck.count('disp')
    ck.case(('disp', c['sens'], c['sel']), True)


def run_advapdu(run, c):
    """a Type 4 card that answers every APDU after the first c['good'] with the same response, for ever"""
    i = c['inner']
    sim = T4ApduAdv(c['good'], unhex(c['answer']), files={unhex(k): unhex(v) for k, v in i['files'].items()},
                    aids=[unhex(a) for a in i['aids']], ats=ans(i['ats']), typeb=i['typeb'], sensb=unhex(i['sensb']),
                    attrib=ans(i['attrib']), cmiu=i['cmiu'])
    c2 = dict(i)
    c2.update(kind='advapdu', inner=i, good=c['good'], answer=c['answer'], limit=c.get('limit', 400), isodep=False, stop=None,
              mode='timeout', write_after=True)
    run_t4(run, c2, sim=sim, kind='t4apdu')


def run_adv(run, c):
    """a Type 4 card that turns adversarial at the ISO-DEP block level after c['good'] good answers"""
    sim = T4Adv(mk_t4(c['inner']), c['good'], c['advmode'], c.get('byte', 2))
    c2 = dict(c['inner'])
    c2.update(kind='adv', inner=c['inner'], good=c['good'], advmode=c['advmode'], byte=c.get('byte', 2), limit=c['limit'],
              # 65538 chained blocks WITH data: the extracted model appends to the response list block by block (quadratic) - monitor only
              isodep=c['advmode'] != 'chain', stop=None, mode='timeout')
    run_t4(run, c2, sim=sim, kind='t4adv-' + c['advmode'])


RUNNERS = {'adv': run_adv, 'advapdu': run_advapdu, 't2': run_t2, 't1': run_t1, 't3': run_t3, 't4': run_t4, 'raw': run_raw, 'disp': run_disp}


# ------------------------------------------------------------------------------ generators
def t2_image(cc, body, total):
    img = bytes([4, 1, 2, 0x8F, 4, 5, 6, 7, 0, 0x48, 0, 0]) + bytes(cc) + bytes(body)
    img = img[:total] if len(img) > total else img + bytes(total - len(img))
    return img + bytes(-len(img) % 4)


def tlv(t, v, long_form=False, claim=None):
    n = len(v) if claim is None else claim
    if long_form or n > 254:
        return bytes([t, 0xFF, n >> 8 & 255, n & 255]) + bytes(v)
    return bytes([t, n]) + bytes(v)


def gen_tlv_body(rng, first, dend, total):
    """a TLV chain with the mutations of the property text"""
    out = b''
    for _ in range(rng.choice([0, 0, 1, 1, 2, 3, 6])):
        r = rng.random()
        if r < 0.25:
            out += b'\x00' * rng.choice([1, 1, 2, 5])
        elif r < 0.65:
            # control TLV pointing anywhere / wrong length
            t = rng.choice([1, 2])
            ln = rng.choice([3, 3, 3, 3, 0, 1, 2, 4, 8])
            where = rng.random()
            if where < 0.4:
                a = rng.randrange(first, max(first + 1, min(dend + 8, 250)))
                v = bytes([(a // 8) << 4 | a % 8 if a // 8 < 16 else rng.getrandbits(8), rng.choice([1, 4, 8, 16, 32, 0, 255]), rng.choice([0x33, 0x03, 0x44, rng.getrandbits(8)])])
            else:
                v = rb(rng, 3)
            v = (v + rb(rng, 8))[:ln]
            out += tlv(t, v, long_form=rng.random() < 0.05)
        elif r < 0.85:
            out += tlv(rng.choice([4, 5, 0x7F, 0xFD, 0xFF]), rb(rng, rng.choice([0, 1, 3, 7])),
                       claim=rng.choice([None, None, 0, 40, 200, 254, 255, 300, 2000, 65535]))
        else:
            out += b'\xFE'
    r = rng.random()
    room = max(dend - first - len(out) - 2, 0)
    if r < 0.55:
        n = rng.choice([0, 0, 1, 3, room // 2, max(room - 3, 0), max(room - 1, 0), room, room + 1, room + 2, room + 5, rng.randrange(0, room + 1)])
        out += tlv(3, rb(rng, min(n, 3000)), long_form=rng.random() < 0.15)
    elif r < 0.8:
        # length field beyond data area / beyond memory
        claim = rng.choice([room + 1, room + 8, total, total + 5, 254, 255, 256, 1000, 4000, 65535, rng.randrange(0, 65536)])
        out += tlv(3, rb(rng, rng.choice([0, 5, 40])), claim=claim)
    elif r < 0.9:
        pass
    else:
        out += rb(rng, rng.choice([1, 2, 3, 9]))
    if rng.random() < 0.6:
        out += b'\xFE'
    if rng.random() < 0.3:
        out += rb(rng, rng.choice([1, 4, 30]))
    return out


def gen_t2(rng):
    r = rng.random()
    total = rng.choice([64, 64, 80, 144, 180, 256, 512, 1024, 1040, 2048]) if r > 0.1 else rng.choice([16, 20, 32, 48])
    sz = rng.choice([(total - 16) // 8, (total - 16) // 8, 6, 12, 18, 0, 1, 2, 255, rng.getrandbits(8)]) & 255
    cc = [0xE1, rng.choice([0x10, 0x10, 0x10, 0x11, 0x1F, 0x20, 0x00]), sz, rng.choice([0, 0, 0, 0x0F, 0xF0, 0x88, rng.getrandbits(8)])]
    if rng.random() < 0.05:
        cc[0] = rng.getrandbits(8)
    dend = 16 + 8 * sz
    if rng.random() < 0.12:
        img = bytes([4]) + rb(rng, total - 1)
        img = img[:12] + bytes(cc) + img[16:] if rng.random() < 0.7 else img
    else:
        body = gen_tlv_body(rng, 16, dend, total)
        if rng.random() < 0.15:      # put the chain right in front of the end of the data area
            pad = max(min(dend, total) - 16 - len(body) + rng.choice([-2, -1, 0, 1, 2, 3]), 0)
            body = b'\x00' * pad + body
        img = t2_image(cc, body, total)
    uid0 = rng.choice([4, 4, 8])
    auth = rng.choice([None, None, '00', 'af0102030405060708', 'txerr', ''])
    ver = rng.choice([None, None, '00', '0004040201000f03', '0004030101000b03', '0004', 'txerr', '', rb(rng, 8).hex()])
    return {'kind': 't2', 'image': img.hex(), 'uid': bytes([uid0, 1, 2, 3, 4, 5, 6]).hex(),
            'beyond': rng.choice(['nak', 'nak', 'timeout', 'short', 'zeros']) if len(img) < 1024 or rng.random() < 0.5 else 'nak',
            'sectors': rng.random() < 0.7, 'auth': auth, 'version': ver, 'stop': None, 'mode': 'timeout'}


def t1_image(cc, body, total):
    img = bytes([1, 2, 3, 4, 5, 6, 7, 0]) + bytes(cc) + bytes(body)
    return img[:total] if len(img) > total else img + bytes(total - len(img))


def gen_t1(rng):
    dynamic = rng.random() < 0.45
    total = rng.choice([256, 512, 512, 1024, 2048]) if dynamic else 120
    hr = bytes([rng.choice([0x12, 0x12, 0x13, 0x1F]) if dynamic else 0x11, rng.choice([0x4C, 0x48, rng.getrandbits(8)])])
    if not dynamic and rng.random() < 0.3:
        hr = bytes([0x11, 0x48])
    if dynamic and rng.random() < 0.3:
        hr = bytes([0x12, 0x4C])
    if rng.random() < 0.06:
        hr = bytes([rng.getrandbits(8), rng.getrandbits(8)])
    sz = rng.choice([total // 8 - 1, total // 8 - 1, 0x0E, 0x3F, 0xFF, 0, 1, rng.getrandbits(8)]) & 255
    cc = [0xE1, rng.choice([0x10, 0x10, 0x10, 0x11, 0x20]), sz, rng.choice([0, 0, 0, 0x0F, rng.getrandbits(8)])]
    if rng.random() < 0.05:
        cc[0] = rng.getrandbits(8)
    size = (sz + 1) * 8
    if rng.random() < 0.1:
        img = rb(rng, total)
        img = img[:8] + bytes(cc) + img[12:] if rng.random() < 0.7 else img
    else:
        body = gen_tlv_body(rng, 12, size, total)
        if rng.random() < 0.15:
            pad = max(min(size, total) - 12 - len(body) + rng.choice([-2, -1, 0, 1, 2, 3]), 0)
            body = b'\x00' * pad + body
        img = t1_image(cc, body, total)
    return {'kind': 't1', 'hr': hr.hex(), 'image': img.hex(), 'beyond': rng.choice(['timeout', 'timeout', 'zeros']),
            'rid': None, 'stop': None, 'mode': 'timeout'}


def t3_attr(ver, nbr, nbw, nmaxb, writef, rwflag, ln, rfu=0, badsum=0):
    a = bytearray(16)
    a[0], a[1], a[2], a[3], a[4] = ver, nbr, nbw, nmaxb >> 8 & 255, nmaxb & 255
    a[5:9] = bytes([rfu]) * 4
    a[9], a[10] = writef, rwflag
    a[11], a[12], a[13] = ln >> 16 & 255, ln >> 8 & 255, ln & 255
    s = (sum(a[:14]) + badsum) & 0xFFFF
    a[14], a[15] = s >> 8, s & 255
    return bytes(a)


def gen_t3(rng):
    nmaxb = rng.choice([0, 1, 1, 2, 3, 4, 8, 13, 16, 20, 40, 255, 256, 300, 65535])
    nphys = rng.choice([nmaxb, nmaxb, nmaxb + 2, max(nmaxb - 1, 0), 0, 3]) if nmaxb < 1000 else rng.choice([3, 20])
    cap = 16 * nmaxb
    ln = rng.choice([0, 1, 15, 16, 17, cap, cap, max(cap - 1, 0), cap + 1, cap + 16, 16 * nphys, 64, 0xFFFF, 0x10000, 0xFFFFFF,
                     rng.randrange(0, cap + 1), rng.randrange(0, 1 << 24)])
    if nmaxb > 1000 and rng.random() < 0.8:
        ln = rng.choice([0, 16, 40, 200, 16 * nphys])
    nbr = rng.choice([1, 1, 2, 3, 4, 8, 12, 15, 15, 0, 16, 17, 100, 255, rng.getrandbits(8)])
    att = t3_attr(rng.choice([0x10, 0x10, 0x10, 0x11, 0x1F, 0x20, 0x00, rng.getrandbits(8)]), nbr,
                  rng.choice([0, 1, 8, 13, 255]), nmaxb, rng.choice([0, 0, 0, 0x0F, 1]), rng.choice([0, 1, 1, 1, 255]), ln,
                  rfu=rng.choice([0, 0, 0xA5]), badsum=rng.choice([0, 0, 0, 0, 0, 0, 0, 1, 255, 0x100]))
    if rng.random() < 0.05:
        att = rb(rng, 16)
    blocks = att + rb(rng, 16 * min(nphys, 400))
    ic = rng.choice([0xFF, 0xFF, 0xF0, 0xF1, 0xF2, 0x01, 0x20, 0x06, 0xE0, rng.getrandbits(8)])
    pmm = bytes([rng.getrandbits(8), ic]) + rb(rng, 6)
    idm = bytes([rng.choice([2, 3, 1]), rng.choice([0xFE, 0x10])]) + rb(rng, 6)
    beyond = rng.choice(['status', 'status', 'zeros'])
    if beyond == 'zeros' and min(ln, cap) // 16 // min(max(nbr, 1), 15) > 1500:
        beyond = 'status'          # a bounded but very long read (up to 65535 commands): see the two corpus cases
    return {'kind': 't3', 'blocks': blocks.hex(), 'idm': idm.hex(), 'pmm': pmm.hex(), 'sensf': None,
            'sys_in_sensf': rng.random() < 0.6, 'max_read': rng.choice([15, 15, 15, 12, 4, 1, 255]),
            'beyond': beyond, 'poll': rng.random() < 0.85, 'stop': None, 'mode': 'timeout',
            'poll_extra': rng.choice(['', '', '', '', '12fc', '0003', '00', '12fc00'])}


AID2 = 'd2760000850101'
AID1 = 'd2760000850100'


def t4_cc(ver, mle, mlc, tlvs, cclen=None, extra=b''):
    body = bytes([ver]) + mle.to_bytes(2, 'big') + mlc.to_bytes(2, 'big') + tlvs + extra
    n = len(body) + 2 if cclen is None else cclen
    return (n & 0xFFFF).to_bytes(2, 'big') + body


def gen_t4(rng):
    v3 = rng.random() < 0.3
    fid = rng.choice([b'\xE1\x04', b'\xE1\x04', b'\x00\x01', b'\xE1\x03', rb(rng, 2)])
    flen = rng.choice([0, 1, 2, 3, 4, 5, 20, 64, 256, 300, 1000, 4000])
    mfs = rng.choice([flen, flen, flen, flen + 10, max(flen - 1, 0), 0, 1, 2, 3, 4, 5, 65535, 0x10000 if v3 else 65535, 0x20000 if v3 else 8,
                      0xFFFFFFFF if v3 else 0xFFFF])
    rf, wf = rng.choice([0, 0, 0, 0x80, 0xFF]), rng.choice([0, 0, 0xFF, 0x80])
    if v3:
        tl = bytes([6, rng.choice([8, 8, 8, 8, 6, 7, 9, 0, 255])]) + fid + (mfs & 0xFFFFFFFF).to_bytes(4, 'big') + bytes([rf, wf])
    else:
        tl = bytes([4, rng.choice([6, 6, 6, 6, 5, 7, 8, 0, 255])]) + fid + (mfs & 0xFFFF).to_bytes(2, 'big') + bytes([rf, wf])
    if rng.random() < 0.06:
        tl = bytes([rng.choice([5, 6, 4, 0, 0x84])]) + tl[1:]
    ver = rng.choice([0x30, 0x31] if v3 else [0x20, 0x20, 0x10, 0x21]) if rng.random() < 0.9 else rng.choice([0x00, 0x40, 0xF0, rng.getrandbits(8)])
    mle = rng.choice([0, 1, 2, 3, 4, 15, 16, 59, 255, 256, 257, 65535])
    mlc = rng.choice([0, 1, 52, 255, 256, 65535])
    cclen = rng.choice([None, None, None, None, 0, 1, 2, 3, 14, 15, 16, 17, 23, 200, 65535])
    cc = t4_cc(ver, mle, mlc, tl, cclen, extra=rb(rng, rng.choice([0, 0, 8])))
    if rng.random() < 0.05:
        cc = rb(rng, rng.choice([0, 1, 2, 7, 15, 17, 30]))
    nlen_size = 4 if v3 else 2
    body = rb(rng, max(flen - nlen_size, 0))
    nlen = rng.choice([0, 1, len(body), len(body), max(len(body) - 1, 0), len(body) + 1, max(mfs - nlen_size, 0), max(mfs - nlen_size, 0) + 1,
                       0xFFFF, 0xFFFE, 0x10000, 0xFFFFFFFF, rng.randrange(0, len(body) + 1)])
    ndef = ((nlen & (0xFFFFFFFF if v3 else 0xFFFF)).to_bytes(nlen_size, 'big') + body)[:flen]
    files = {'e103': cc.hex()}
    if fid != b'\xE1\x03' or rng.random() < 0.5:
        files[fid.hex()] = ndef.hex()
    if rng.random() < 0.05:
        files.pop(fid.hex(), None)
    aids = rng.choice([[AID2], [AID2], [AID2], [AID1], [AID2, AID1], []])
    fsci = rng.choice([0, 2, 5, 8, 8, 8])
    ats = bytes([5, 0x70 | fsci, 0x77, rng.choice([0x81, 0x41, 0xE1]), 0x02])
    return {'kind': 't4', 'files': files, 'aids': aids, 'ats': ats.hex(), 'typeb': rng.random() < 0.15,
            'sensb': (bytes.fromhex('5030702A1C00000011') + bytes([0, fsci << 4 | 1, rng.choice([0x85, 0x45])])).hex(), 'attrib': '00',
            'cmiu': rng.choice([253, 253, 61, 13, 5, 1]), 'rb_mode': rng.choice(['honest', 'honest', 'honest', 'empty', 'over']),
            'rb_from': rng.choice([0, 2, nlen_size, nlen_size + 1, 10]), 'rb_extra': rng.choice([1, 2, 3, 16, 300]),
            'stop': None, 'mode': 'timeout'}


def ats_variants(quick, rng):
    """every subset of TA/TB/TC x 0..15 historical bytes x FSCI / FWI incl. RFU values"""
    out = []
    hist_range = [0, 1, 7, 15] if quick else range(16)
    for sub in range(8):
        for nh in hist_range:
            for fsci in range(16):
                for fwi in ([0, 4, 9, 14, 15] if quick else range(16)):
                    ta, tb, tc = sub & 1, sub & 2, sub & 4
                    if not tb and fwi not in (0, 15):
                        continue
                    body = bytes([fsci | (0x10 if ta else 0) | (0x20 if tb else 0) | (0x40 if tc else 0)])
                    body += (bytes([rng.choice([0x00, 0x77, 0x80])]) if ta else b'') + (bytes([fwi << 4 | rng.choice([0, 1, 8])]) if tb else b'')
                    body += (bytes([rng.choice([0, 2, 3])]) if tc else b'') + rb(rng, nh)
                    out.append(bytes([1 + len(body)]) + body)
    return out


def act_case_t4(ats=None, typeb=False, sensb='5030702A1C00000011008185', attrib='00', wellformed=False, ms=256, mr_=256, stop=None, mode='timeout'):
    cc = t4_cc(0x20, 59, 52, bytes([4, 6, 0xE1, 0x04, 0, 64, 0, 0]))
    return {'kind': 't4', 'files': {'e103': cc.hex(), 'e104': '0003d00000' + '00' * 59}, 'aids': [AID2],
            'ats': ats, 'typeb': typeb, 'sensb': sensb, 'attrib': attrib, 'cmiu': 253, 'rb_mode': 'honest', 'rb_from': 0, 'rb_extra': 1,
            'stop': stop, 'mode': mode, 'wellformed_ats': wellformed, 'max_send': ms, 'max_recv': mr_}


def with_stops(rng, case, ncmd, quick, every=False):
    """the same tag that stops answering after k commands, for k = 0 .. ncmd"""
    ks = list(range(0, ncmd + 1))
    if not every and len(ks) > (6 if quick else 40):
        ks = sorted(set(ks[:3] + ks[-2:] + rng.sample(ks, 3 if quick else 30)))
    for k in ks:
        yield dict(case, stop=k, mode=rng.choice(['timeout', 'timeout', 'timeout', 'txerr']))


CORPUS = [
    # minimised past failures (the defects repaired by fixes/c08-*.diff)
    act_case_t4(ats='0200', wellformed=True), act_case_t4(ats='032081', wellformed=True), act_case_t4(ats='01', wellformed=True),
    act_case_t4(ats=''), act_case_t4(ats='0470'), act_case_t4(ats='0460a102', wellformed=True),
    act_case_t4(typeb=True, sensb='5030702A1C0000001100'),
    {'kind': 'raw', 'tech': 't4', 'target': {'brty': '106A', 'sens_res': '4403', 'sel_res': '20', 'sdd_res': '04832F9A272D80'},
     'script': ['067577810280', 'f2'], 'tail': None},
    {'kind': 'raw', 'tech': 't1', 'target': {'brty': '106A', 'sens_res': '000c', 'rid_res': '114801020304'},
     'script': ['', '00' * 129], 'tail': None},          # RALL answered with an empty frame, then RSEG answered
    # RALL answered with 20 bytes (NDEF TLV 03 FF 00 0A in a data area 12..24), the second RALL the old reader issued answered
    # with 03 0A at the same place, then RSEG: octets EE EF read from addresses 24, 25 (fixes/c08-18)
    {'kind': 'raw', 'tech': 't1', 'target': {'brty': '106A', 'sens_res': '000c', 'rid_res': '114801020304'},
     'script': ['11480102030405060700e110020003ff000aa0a1', '11480102030405060700e1100200030a000aa0a1',
                '00b0b1b2b3b4b5eeef' + '00' * 120], 'tail': None},
    {'kind': 't3', 'blocks': (t3_attr(0x10, 0, 4, 4, 0, 1, 10) + bytes(64)).hex(), 'idm': '0102030405060708', 'pmm': 'ffffffffffffffff',
     'sensf': None, 'sys_in_sensf': True, 'max_read': 15, 'beyond': 'status', 'poll': True, 'stop': None, 'mode': 'timeout'},
    {'kind': 't3', 'blocks': (t3_attr(0x10, 4, 4, 1, 0, 1, 64) + bytes(128)).hex(), 'idm': '0102030405060708', 'pmm': 'ffffffffffffffff',
     'sensf': None, 'sys_in_sensf': True, 'max_read': 15, 'beyond': 'status', 'poll': True, 'stop': None, 'mode': 'timeout'},
    {'kind': 't3', 'blocks': (t3_attr(0x10, 200, 4, 300, 0, 1, 4000) + bytes(4800)).hex(), 'idm': '0102030405060708', 'pmm': 'ffffffffffffffff',
     'sensf': None, 'sys_in_sensf': True, 'max_read': 255, 'beyond': 'status', 'poll': True, 'stop': None, 'mode': 'timeout'},
    {'kind': 't3', 'blocks': (t3_attr(0x10, 4, 4, 4, 0, 1, 10) + bytes(64)).hex(), 'idm': '0102030405060708', 'pmm': 'ffffffffffffffff',
     'sensf': '010102030405060708ffffffffffffffff12', 'sys_in_sensf': True, 'max_read': 15, 'beyond': 'status', 'poll': True, 'stop': None, 'mode': 'timeout'},
    {'kind': 't1', 'hr': '1148', 'image': t1_image([0xE1, 0x10, 0x0E, 0], [1, 0, 3, 0], 120).hex(), 'beyond': 'timeout', 'rid': None, 'stop': None, 'mode': 'timeout'},
    {'kind': 't1', 'hr': '1148', 'image': t1_image([0xE1, 0x10, 0x0E, 0], [3, 200], 120).hex(), 'beyond': 'timeout', 'rid': None, 'stop': None, 'mode': 'timeout'},
    {'kind': 't1', 'hr': '124c', 'image': t1_image([0xE1, 0x10, 0x3F, 0], [3, 255, 255, 255], 512).hex(), 'beyond': 'zeros', 'rid': None, 'stop': None, 'mode': 'timeout'},
    {'kind': 't1', 'hr': '124c', 'image': t1_image([0xE1, 0x10, 0x1F, 0], [3, 255, 1, 0], 512).hex(), 'beyond': 'timeout', 'rid': None, 'stop': None, 'mode': 'timeout'},
    {'kind': 't2', 'image': t2_image([0xE1, 0x10, 6, 0], [3, 60] + [0xAA] * 60, 96).hex(), 'uid': '08010203', 'beyond': 'nak', 'sectors': True,
     'auth': None, 'version': None, 'stop': None, 'mode': 'timeout'},
    {'kind': 't2', 'image': t2_image([0xE1, 0x10, 6, 0], [0] * 47 + [3, 0], 96).hex(), 'uid': '08010203', 'beyond': 'nak', 'sectors': True,
     'auth': None, 'version': None, 'stop': None, 'mode': 'timeout'},
    {'kind': 't2', 'image': t2_image([0xE1, 0x10, 6, 0], [3, 255, 255, 255], 64).hex(), 'uid': '08010203', 'beyond': 'zeros', 'sectors': True,
     'auth': None, 'version': None, 'stop': None, 'mode': 'timeout'},
]


def t3_big(nbr, nmaxb=65535, limit=LIMIT):
    """Ln = 16 * Nmaxb on a tag that answers every block; with Nmaxb = 65535 the longest read there is (1 MiB: the
    monitor only, the extracted model's non-tail-recursive list functions do not take a message of that size)"""
    return {'kind': 't3', 'blocks': t3_attr(0x10, nbr, 1, nmaxb, 0, 1, 16 * nmaxb).hex(), 'idm': '0102030405060708', 'pmm': 'ffffffffffffffff',
            'sensf': None, 'sys_in_sensf': True, 'max_read': 15, 'beyond': 'zeros', 'poll': True, 'stop': None, 'mode': 'timeout', 'limit': limit,
            'nomodel': nmaxb > 5000}


def t4_file_case(cc, ndef, **kw):
    c = act_case_t4(ats='067577810280')
    c['files'] = {'e103': cc.hex(), 'e104': ndef.hex()}
    c.update(kw)
    return c


CORPUS += [
    t4_file_case(t4_cc(0x20, 59, 52, bytes([4, 6, 0xE1, 0x04, 1, 0, 0, 0])), b'\x10\x00' + bytes(100)),                 # NLEN beyond the file
    t4_file_case(t4_cc(0x20, 59, 52, bytes([4, 6, 0xE1, 0x04, 0, 16, 0, 0])), b'\x00\x40' + bytes(100)),                # NLEN beyond max file size
    t4_file_case(t4_cc(0x20, 59, 52, bytes([4, 6, 0xE1, 0x04, 0, 0, 0, 0])), b'\x00\x00'),                              # max file size 0
    t4_file_case(t4_cc(0x30, 255, 52, bytes([6, 8, 0xE1, 0x04, 0, 2, 0, 0, 0, 0])), b'\x00\x01\x00\x00' + bytes(70000)),   # NLEN 65536
    t4_file_case(t4_cc(0x20, 59, 52, bytes([4, 6, 0xE1, 0x04, 1, 0, 0, 0])), b'\x00\x03\xd0\x00\x00', rb_mode='over', rb_from=2, rb_extra=3),
    t4_file_case(t4_cc(0x20, 59, 52, bytes([4, 6, 0xE1, 0x04, 1, 0, 0, 0])), b'\x00\x20' + bytes(40), rb_mode='empty', rb_from=10),
    t4_file_case(t4_cc(0x20, 0, 52, bytes([4, 6, 0xE1, 0x04, 1, 0, 0, 0])), b'\x00\x03\xd0\x00\x00'),                  # MLe = 0
]


# ------------------------------------------------------------------------------ main
def main():
    ck = Check('C08')
    ck.trusted = ['Coq 8.16.1 kernel (no native_compute)',
                  'extraction: ExtrOcamlBasic only; extract/c08_run.ml driver; OCaml 4.13.1',
                  'simulators harness/sim/c08_tags.py (adversarial Type 1/2/3/4 tags, scripted responder) and this harness, '
                  'including its reference memory loaders (number of read commands for a given demand)']
    ck.assumptions = ['the activation responses reach nfc.tag.activate with the lengths the drivers guarantee: SENS_RES 2 bytes, '
                      'SEL_RES 1 byte, SDD_RES at least 1 byte, SENSF_RES at least 17 bytes; everything else is arbitrary',
                      'Type 1/2: theorems at two levels - over memory images (em) and over scripts of exchange() outcomes of any '
                      'length (Model/TagLoad.v, the command layer); the sense() call after a Type 2 NAK is not modelled (it only '
                      'selects the errno); the second read of has_changed on raw answer scripts is covered by the monitor only',
                      'Type 4: the theorems are about the reader above IsoDepInitiator.exchange (whole APDUs answered or failed); '
                      'the block layer is covered by C12 (termination for a responder that uses at most W waiting time extensions / '
                      'chained blocks per exchange) plus the WTX-without-WTXM repair modelled in TagReadAnyB.pcd_absorb_any']
    ck.assumptions.append('command-count guard: an access that sends more than 400 blocks (3 * 65638 for the cards that request waiting '
                          'time / chain for ever, which the reader follows for 65538 blocks by design) is reported as not stopping')
    ck.coq(gen=[], targets=['Proofs/TagSafeAct.vo', 'Proofs/TagSafeTlv.vo', 'Proofs/TagSafeCmd.vo', 'Proofs/TagSafeLoad.vo', 'Proofs/TagSafeIface.vo', 'Proofs/TagSafeBlk.vo', 'Proofs/TagSafeDep.vo'], props='C08')
    mr = ck.model()
    if mr is None:
        ck.finish()
    rng = ck.rng
    quick = ck.tier == 'quick'
    run = Run(ck, mr)

    if ck.replay:
        case = json.load(open(ck.replay)).get('case')
        cases = [case] if isinstance(case, dict) and 'kind' in case else []
        for c in cases:
            RUNNERS[c['kind']](run, c)
        run.flush()
        ck.finish(level='proof', rule='replay of one recorded case')

    import time as _time
    marks = [('start', _time.time())]

    def mark(name):
        marks.append((name, _time.time()))
        ck.dist['seconds:' + name] = round(marks[-1][1] - marks[-2][1], 1)

    def go(c):
        RUNNERS[c['kind']](run, c)
        if len(run.lines) > 2000:
            run.flush()

    def ncmd_of(c):
        """commands the unstopped tag receives for activation + tag.ndef + has_changed"""
        sim = {'t2': mk_t2, 't1': mk_t1, 't3': mk_t3, 't4': mk_t4}[c['kind']](c)
        clf = AnyClf(sim, None, limit=3000)
        try:
            tag = nfc.tag.activate(clf, sim.target())
            if tag is not None and tag.ndef is not None:
                tag.ndef.has_changed
        except Exception:  # noqa
            pass
        return min(clf.ncmd, 400)

    # ---- corpus first
    for c in CORPUS + [t3_big(15, 4095), t3_big(15)] + ([] if quick else [t3_big(1, 65535, 200000)]):
        go(c)
        if c['kind'] in ('t1', 't2', 't3', 't4') and c.get('beyond') != 'zeros':
            for cs in with_stops(rng, c, ncmd_of(c), quick):
                go(cs)

    mark('corpus')
    # ---- activation variants
    for sel in range(256):
        for sens in (['4400', '000c', '0400'] if quick else ['4400', '000c', '0400', '4403', 'ff0c', '00ff']):
            go({'kind': 'disp', 'sens': sens, 'sel': '%02x' % sel})
    atss = ats_variants(quick, rng)
    for a in atss:
        go(act_case_t4(ats=a.hex(), wellformed=True, ms=rng.choice([256, 256, 255, 64]), mr_=rng.choice([256, 256, 255])))
    for a in rng.sample(atss, 60 if quick else 600):
        for cut in range(len(a)):                       # truncated answers
            go(act_case_t4(ats=a[:cut].hex()))
        go(act_case_t4(ats=(a + rb(rng, 2)).hex()))      # trailing bytes
    for n in range(0, 8):
        for _ in range(20 if quick else 200):
            go(act_case_t4(ats=rb(rng, n).hex()))
    for a in (None, 'txerr'):
        go(act_case_t4(ats=a))
        go(act_case_t4(typeb=True, attrib=a))
    for n in range(0, 15):
        sensb = (bytes.fromhex('5030702A1C00000011') + bytes([0, rng.getrandbits(8), rng.getrandbits(8), 0x00, 0x00]))[:n]
        go(act_case_t4(typeb=True, sensb=sensb.hex(), attrib=rng.choice(['00', '', '0a0b0c'])))
    for fsci in range(16):
        for fwi in range(16):
            sensb = bytes.fromhex('5030702A1C00000011') + bytes([rng.choice([0, 0x81]), fsci << 4 | rng.choice([1, 5, 9]), fwi << 4 | rng.choice([0, 5])])
            go(act_case_t4(typeb=True, sensb=(sensb + rng.choice([b'', b'\x00'])).hex(), attrib=rng.choice(['00', '10', '', '0011']),
                           ms=rng.choice([256, 255, 32]), mr_=rng.choice([256, 255])))
    # Type 1: HR0 / HR1
    img = t1_image([0xE1, 0x10, 0x0E, 0], [3, 3, 0xD0, 0, 0, 0xFE], 120)
    for hr0 in range(256):
        for hr1 in ([0x48, 0x4C, 0x00] if quick else [0x48, 0x4C, 0x00, 0x11, 0xFF, rng.getrandbits(8)]):
            go({'kind': 't1', 'hr': bytes([hr0, hr1]).hex(), 'image': img.hex(), 'beyond': 'timeout', 'rid': None, 'stop': None, 'mode': 'timeout'})
    for rid in ('', '11', '1148', '114801', '11480102030405', '124c01020304'):
        go({'kind': 't1', 'hr': '1148', 'image': img.hex(), 'beyond': 'timeout', 'rid': rid, 'stop': None, 'mode': 'timeout'})
    # Type 2: GET_VERSION answers / Ultralight-C probing x stop points
    img2 = t2_image([0xE1, 0x10, 6, 0], [3, 3, 0xD0, 0, 0, 0xFE], 64)
    vers = [None, 'txerr', '', '00', '0a', '0004', rb(rng, 8).hex(), rb(rng, 9).hex()] + [
        '0004030101000b03', '0004030201000b03', '0004030101000e03', '0004030201000e03', '0004040101000b03', '0004040101000e03',
        '0004040201000f03', '0004040201001103', '0004040201001303', '0004040502011303', '0004040502011503', '0004040502021303']
    for auth in (None, 'txerr', '', '00', 'af', 'af0102030405060708', '0a'):
        for ver in vers:
            for stop in (None, 0, 1, 2, 3, 4):
                for uid0 in (4, 8):
                    go({'kind': 't2', 'image': img2.hex(), 'uid': bytes([uid0, 1, 2, 3]).hex(), 'beyond': 'nak', 'sectors': False,
                        'auth': auth, 'version': ver, 'stop': stop, 'mode': rng.choice(['timeout', 'txerr'])})
    # Type 3: SENSF_RES with / without system code, every IC code
    blocks = t3_attr(0x10, 4, 4, 4, 0, 1, 20) + rb(rng, 64)
    for ic in range(256):
        for tail in (['', '12fc'] if quick else ['', '12fc', '0003', '12', '12fc00']):
            sensf = bytes([1, 1, rng.choice([0x10, 0x27]), 3, 4, 5, 6, 7, 8, 0x11, ic, 2, 3, 4, 5, 6, 7]) + unhex(tail)
            go({'kind': 't3', 'blocks': blocks.hex(), 'idm': sensf[1:9].hex(), 'pmm': sensf[9:17].hex(), 'sensf': sensf.hex(),
                'sys_in_sensf': True, 'max_read': 15, 'beyond': 'status', 'poll': rng.random() < 0.8, 'stop': rng.choice([None, None, 0, 1, 2, 3, 4]),
                'mode': 'timeout'})
    go({'kind': 't3', 'blocks': blocks.hex(), 'idm': '01fe030405060708', 'pmm': 'ffffffffffffffff', 'sensf': None,
        'sys_in_sensf': True, 'max_read': 15, 'beyond': 'status', 'poll': True, 'stop': None, 'mode': 'timeout'})
    run.flush()
    mark('activation')

    # ---- adversarial ISO-DEP cards: after 0..k good answers every block is answered the same way, for ever
    inners = [act_case_t4(ats='067577810280'), act_case_t4(ats='0570774102'), act_case_t4(typeb=True)]
    for advmode in ('rack_other', 'rack_same', 'rnak', 'empty', 'one', 'wtx', 'chain', 'chain0'):
        long_run = advmode in ('wtx', 'chain', 'chain0')
        goods = ([0, 5] if quick else [0, 1, 3, 6, 8]) if long_run else range(0, 12)
        for good in goods:
            for inner in (inners[:1] if long_run else inners):
                bytes_ = [rng.getrandbits(8) for _ in range(3)] + [0x02, 0x03, 0xA2, 0xF2, 0x12] if advmode == 'one' else [2]
                for b in (bytes_ if good in (0, 4) else bytes_[:1]):
                    go({'kind': 'adv', 'inner': inner, 'good': good, 'advmode': advmode, 'byte': b,
                        'limit': 3 * (W_MAX + 100) if long_run else 400})
    # ---- APDU level adversaries: after 0..k good APDUs every APDU (SELECT application / file, READ BINARY of CC, NLEN, data,
    #      UPDATE BINARY of a following write / format) is answered with the same status word / response, for ever
    answers = ['6c00', '6c01', '6c0f', '6cff', '6100', '610f', '6700', '6982', '6a82', '6b00', '9000', 'aa9000', '00039000',
               'ab' * 300 + '9000', '0000', '90', '', '6c', 'd00000' + '6c03']
    inner_w = act_case_t4(ats='067577810280')
    for answer in answers:
        for good in range(0, 16):
            go({'kind': 'advapdu', 'inner': inner_w if good % 2 == 0 or quick else act_case_t4(typeb=True), 'good': good, 'answer': answer})
    run.flush()
    mark('adversarial')

    # ---- readers: random images and mutations of valid layouts, with a stop point after every command
    n_img = {'t2': 700, 't1': 500, 't3': 700, 't4': 500} if quick else {'t2': 9000, 't1': 6000, 't3': 9000, 't4': 6000}
    for kind, gen in (('t2', gen_t2), ('t1', gen_t1), ('t3', gen_t3), ('t4', gen_t4)):
        for i in range(n_img[kind]):
            c = gen(rng)
            if kind == 't4':
                c['isodep'] = rng.random() < 0.25      # also compare every exchange() at block level
            if c.get('beyond') == 'zeros' and kind in ('t2',) and rng.random() < (0.9 if quick else 0.5):
                c['beyond'] = 'nak'
            go(c)
            if rng.random() < (0.5 if quick else 0.7):
                n = ncmd_of(c)
                for cs in with_stops(rng, c, n, quick, every=(not quick and n <= 40)):
                    go(cs)
        run.flush()
        mark('readers-' + kind)

    # ---- raw answers: arbitrary byte strings as the n-th response (monitor; Type 3/4 also against the model)
    targets = {
        't1': {'brty': '106A', 'sens_res': '000c', 'rid_res': '114801020304'},
        't2': {'brty': '106A', 'sens_res': '4400', 'sel_res': '00', 'sdd_res': '08010203'},
        't3': {'brty': '212F', 'sensf_res': '010102030405060708ffffffffffffffff12fc'},
        't4': {'brty': '106A', 'sens_res': '4403', 'sel_res': '20', 'sdd_res': '04832F9A272D80'},
    }
    img1 = t1_image([0xE1, 0x10, 0x3F, 0], [3, 255, 1, 40] + list(rb(rng, 296)) + [0xFE], 512)
    img2 = t2_image([0xE1, 0x10, 0x86, 0], [0] * 990 + [3, 40] + list(rb(rng, 40)) + [0xFE], 1088)
    good = {
        't1': [bytes([0x11, 0x48]) + t1_image([0xE1, 0x10, 0x0E, 0], [3, 3, 0xD0, 0, 0, 0xFE], 120)],
        't1b': [bytes([0x12, 0x4C]) + img1[:120], b'\x0f' + img1[120:128], b'\x10' + img1[128:256], b'\x20' + img1[256:384],
                b'\x30' + img1[384:512]],
        't2': [t2_image([0xE1, 0x10, 6, 0], [3, 3, 0xD0, 0, 0, 0xFE], 64)[i:i + 16] for i in (0, 16, 32, 48)],
        't2b': [img2[i:i + 16] for i in range(0, 1024, 16)] + [b'\x0a', None] + [img2[i:i + 16] for i in range(1024, 1088, 16)],
        't3': [bytes([29, 7]) + bytes.fromhex('0102030405060708') + bytes([0, 0, 1]) + t3_attr(0x10, 1, 1, 2, 0, 1, 20),
               bytes([29, 7]) + bytes.fromhex('0102030405060708') + bytes([0, 0, 1]) + bytes(16),
               bytes([29, 7]) + bytes.fromhex('0102030405060708') + bytes([0, 0, 1]) + bytes(16)],
        't4': [bytes.fromhex('067577810280'), b'\x02\x90\x00', b'\x03\x90\x00', b'\x02\x00\x0f\x90\x00',
               b'\x03' + t4_cc(0x20, 59, 52, bytes([4, 6, 0xE1, 0x04, 0, 64, 0, 0]))[2:] + b'\x90\x00', b'\x02\x90\x00',
               b'\x03\x00\x03\x90\x00', b'\x02\xd0\x00\x00\x90\x00'],
    }

    def enc(b):
        return None if b is None else b.hex()
    for tech, fam in (('t1', 't1b'), ('t2', 't2b')):
        base = good[fam]
        go({'kind': 'raw', 'tech': tech, 'target': targets[tech], 'script': [enc(b) for b in base], 'tail': None})
        for _ in range(150 if quick else 2500):
            k = rng.randrange(len(base))
            g = base[k] if base[k] is not None else b'\x0a'
            r = rng.random()
            if r < 0.3:
                m = g[:rng.randrange(0, len(g))]
            elif r < 0.5:
                m = g + rb(rng, rng.choice([1, 2, 16, 128]))
            elif r < 0.7:
                i = rng.randrange(len(g))
                m = g[:i] + bytes([rng.getrandbits(8)]) + g[i + 1:]
            elif r < 0.85:
                m = rng.choice([None, 'txerr', b'', b'\x00', b'\x0a', b'\x01', rb(rng, 16), rb(rng, 122), rb(rng, 129), rb(rng, 9)])
            else:
                m = g
            script = [enc(b) for b in base[:k]] + [m if isinstance(m, str) or m is None else m.hex()]
            rest = [enc(b) for b in base[k + 1:]]
            if rng.random() < 0.5:
                rest = rest[rng.randrange(0, len(rest) + 1):]
            if rng.random() < 0.3 and tech == 't2' and k < len(base):
                script = script[:-1] + [rng.choice([None, 'txerr']), rng.choice([None, 'txerr', enc(base[k])]), enc(base[k])]    # retries
            go({'kind': 'raw', 'tech': tech, 'target': targets[tech], 'script': script + rest, 'tail': rng.choice([None, None, 'txerr', ''])})
    for tech in ('t1', 't2', 't3', 't4'):
        for _ in range(300 if quick else 4000):
            base = list(good[tech])
            k = rng.randrange(len(base))
            script = [b.hex() for b in base[:k]]
            r = rng.random()
            g = base[k]
            if r < 0.3:
                m = g[:rng.randrange(0, len(g))]                                  # truncated
            elif r < 0.45:
                m = g + rb(rng, rng.choice([1, 2, 16]))                          # too long
            elif r < 0.7:
                i = rng.randrange(len(g))
                m = g[:i] + bytes([rng.getrandbits(8)]) + g[i + 1:]               # one byte replaced
            elif r < 0.9:
                m = rb(rng, rng.choice([0, 1, 2, 3, 10, 11, 12, 13, 16, 17, 122, 129]))
            else:
                m = rng.choice([b'\xf2', b'\xf2\x01', b'\xa2', b'\xa3', b'\x12', b'\x13\x00', b'\xb2', b'\x00', b'\x0a'])
            script.append(m.hex())
            script += [rng.choice([b.hex() for b in base[k + 1:]] + ['', 'txerr', None, rb(rng, rng.choice([1, 2, 12, 18])).hex()])
                       for _ in range(rng.choice([0, 1, 2, 6]))]
            go({'kind': 'raw', 'tech': tech, 'target': targets[tech], 'script': script, 'tail': rng.choice([None, None, 'txerr', ''])})
    run.flush()
    mark('raw')

    ck.finish(level='proof',
              rule='corpus of past failures; activation: every SEL_RES, every subset of TA/TB/TC x historical bytes x FSCI x FWI (incl. RFU) '
                   'with truncations, SENSB_RES lengths 0..14 and all FSCI/FWI, every HR0 x HR1 samples, every GET_VERSION answer x '
                   'Ultralight-C probe answer x stop point, every IC code x SENSF_RES length; readers: random images and grammar-based '
                   'mutations of valid layouts (TLV lengths beyond data area / memory, control TLVs anywhere, attribute blocks with bad '
                   'checksum / Nbr=0 / oversized Ln / Nmaxb, CC files with inconsistent lengths, MLe=0, NLEN beyond file) x stop point after '
                   'every command; raw answer scripts. non-trivial = more than the first command is needed or an NDEF object results; '
                   'distinct by hash of the case',
              explanation='theorems over all readable memories / all responder scripts for the extracted models + differential run of '
                          'nfc.tag.activate / tag.ndef / has_changed on adversarial simulators + independent monitor of the property text')


if __name__ == '__main__':
    main()
