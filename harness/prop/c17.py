"""C17 - LLCP addressing: binding, discovery and delivery reach the right socket.

Obligations: Props/C17.v (bind_unique, bind_ranges, close_frees, resolve_exact, datagram_exact over
all operation sequences of the model Model/Addr.v).
Correspondence: histories of socket/bind/listen/accept/connect/sendto/recvfrom/resolve/close, all made through
nfc.llcp.socket.Socket objects, on two REAL LogicalLinkController objects (harness/sim/c17_llc.py; PDUs moved by the real collect/dispatch)
against the extracted model: result of every call, every PDU on the link, every delivery event and
a digest of both address tables after every step.
Monitor: an independent reference address table written from the property text (class Ref).
"""
import collections
import errno
import hashlib
import json
import logging
import os
import sys

from common import Check

from sim.c17_llc import Pair, hexs, enqueue_blocks

RESET = 'reset ' + ('old' if enqueue_blocks() else 'new')

logging.disable(logging.CRITICAL)

SDP = b'urn:nfc:sn:sdp'
SNEP = b'urn:nfc:sn:snep'
VALID = [b'urn:nfc:sn:' + bytes([97 + i]) for i in range(20)] + [b'urn:nfc:xsn:nfcpy.org:x', b'urn:nfc:sn:A-_:.9']
ODD = [b'urn:nfc:sn:a\n']                      # accepted by the regular expression ('$' before a final newline)
INVALID = [b'', b'urn:nfc:snep', b'urn:nfc:sn:', b'urn:nfc:sn:1a', b'urn:nfc:sn:a b', b'urn:nfc:xxsn:a', b'sn:a',
           b'urn:nfc:sn:a\n\n', b'URN:NFC:SN:a', b'urn:nfc:sn:a\\']
DOCUMENTED = {errno.EADDRINUSE, errno.EACCES, errno.EFAULT, errno.EAGAIN}


def ename(e):
    return errno.errorcode.get(e, str(e))


# ------------------------------------------------------------------------ reference address table
def name_class(n):
    """service name syntax, written from the LLCP naming rule (not from the regular expression)"""
    n = bytes(n)
    for pre in (b'urn:nfc:sn:', b'urn:nfc:xsn:'):
        if n.startswith(pre):
            rest = n[len(pre):]
            break
    else:
        return 'invalid'

    def good(r):
        ok = b'abcdefghijklmnopqrstuvwxyzABCDEFGHIJKLMNOPQRSTUVWXYZ0123456789-_:.'
        return len(r) > 0 and (r[:1].isalpha() and r[:1].isascii()) and all(c in ok for c in r)
    if good(rest):
        return 'valid'
    if rest.endswith(b'\n') and good(rest[:-1]):
        return 'dontcare'
    return 'invalid'


class Ref(object):
    """what the property text says about one controller: addr -> open sockets, name -> addr"""

    def __init__(self, ck, tag):
        self.ck, self.tag = ck, tag
        self.typ = []           # id -> 'raw'/'ldl'/'dlc'
        self.addr = []          # id -> address or None
        self.open = []          # id -> not closed
        self.sname = []         # id -> name it was bound under
        self.peer = []          # id -> connected peer of a logical data link
        self.backlog = []       # id -> backlog when listening else None
        self.connq = []         # id -> queued connection requests
        self.rcvbuf = []
        self.inq = []           # id -> deque of expected (payload, source) / pdu text
        self.outq = []          # id -> deque of pdu texts accepted for sending
        self.bound = collections.defaultdict(set)
        self.names = {}
        self.answers = {}       # tid -> address we must answer
        self.expect_resolve = {}  # name -> address the peer answered for it

    def new(self, typ, addr=None):
        self.typ.append(typ)
        self.addr.append(addr)
        self.open.append(True)
        self.sname.append(None)
        self.peer.append(None)
        self.backlog.append(None)
        self.connq.append(0)
        self.rcvbuf.append(1)
        self.inq.append(collections.deque())
        self.outq.append(collections.deque())
        if addr is not None:
            self.bound[addr].add(len(self.typ) - 1)
        return len(self.typ) - 1

    def free(self, a):
        return a >= 2 and not self.bound.get(a)

    def valid(self, i):
        return 0 <= i < len(self.typ)

    # -- bind
    def expect_bind(self, i, arg):
        """('errno', set, cls) or ('addr', predicate, cls)"""
        typ = self.typ[i]
        if arg == 'none':
            if any(self.free(a) for a in range(32, 64)):
                return ('addr', lambda a: 32 <= a <= 63, 'anonymous')
            return ('errno', {errno.EAGAIN}, 'anonymous-exhausted')
        if arg == 'bad':
            return ('errno', {errno.EFAULT}, 'bad-type')
        if arg[0] == 'a':
            a = arg[1]
            if a < 0 or a > 63:
                return ('errno', {errno.EFAULT}, 'addr-range')
            if 32 <= a <= 63 or typ == 'raw':
                if self.free(a):
                    return ('addr', lambda x: x == a, 'addr')
                return ('errno', {errno.EADDRINUSE}, 'addr-in-use')
            return ('errno', {errno.EACCES}, 'addr-privileged')
        n = bytes(arg[1])
        cls = name_class(n)
        if cls == 'invalid':
            return ('errno', {errno.EFAULT}, 'name-invalid')
        if cls == 'dontcare':
            return None
        if n == SDP or n in self.names:
            return ('errno', {errno.EADDRINUSE}, 'name-in-use')
        if n == SNEP:
            if self.free(4):
                return ('addr', lambda x: x == 4, 'wks')
            return ('errno', {errno.EADDRINUSE}, 'wks-in-use')
        if any(self.free(a) for a in range(16, 32)):
            return ('addr', lambda a: 16 <= a <= 31, 'named')
        return ('errno', DOCUMENTED, 'named-exhausted')

    def on_bind(self, i, arg, res, real_addr, hist):
        if not self.valid(i):
            return
        if self.addr[i] is not None:
            if res.startswith('ok'):
                self.ck.violation('bind-twice', 'a bound socket was bound again (socket on two access points)', hist())
            return
        exp = self.expect_bind(i, arg)
        ok = res.startswith('ok')
        if ok:
            a = real_addr
            if exp is not None:
                if exp[0] == 'errno':
                    key = {'name-in-use': 'name-in-use-bind-succeeds', 'wks-in-use': 'wks-bind-over-occupied-address',
                           'addr-in-use': 'addr-in-use-bind-succeeds'}.get(exp[2], 'bind-should-fail:' + exp[2])
                    self.ck.violation(key, 'bind succeeded although the reference table demands %s (%s): got address %r'
                                      % ('/'.join(ename(e) for e in exp[1]), exp[2], a), hist())
                elif a is None or not exp[1](a):
                    self.ck.violation('bind-range:' + exp[2], 'bind (%s) returned address %r outside the documented range' % (exp[2], a), hist())
            if a is not None and not self.free(a) and not (exp and exp[0] == 'errno'):
                self.ck.violation('addr-handed-out-twice', 'bind handed out address %r which is in use' % a, hist())
            if a is not None:
                self.addr[i] = a
                self.bound[a].add(i)
                if arg not in ('none', 'bad') and arg[0] == 'n':
                    self.names[bytes(arg[1])] = a
                    self.sname[i] = bytes(arg[1])
        else:
            e = int(res.split(':')[-1]) if res.startswith('err LlcpError:') else None
            if exp is None:
                return
            if exp[0] == 'addr':
                key = 'name-survives-socket' if (exp[2] in ('named', 'wks') and e == errno.EADDRINUSE) else 'bind-should-succeed:%s:%s' % (exp[2], ename(e))
                self.ck.violation(key, 'bind (%s) failed with %s although the reference table has a free address / free name'
                                  % (exp[2], ename(e)), hist())
            elif e not in DOCUMENTED:
                self.ck.violation('bind-errno-undocumented:%s:%s' % (exp[2], ename(e)),
                                  'bind (%s) fails with %s, not one of EADDRINUSE/EACCES/EFAULT/EAGAIN' % (exp[2], ename(e)), hist())
            elif e not in exp[1]:
                self.ck.violation('bind-errno-wrong:%s:%s' % (exp[2], ename(e)),
                                  'bind (%s) fails with %s, expected %s' % (exp[2], ename(e), '/'.join(ename(x) for x in exp[1])), hist())

    def on_autobind(self, i, real_addr, hist):
        if self.valid(i) and self.addr[i] is None and real_addr is not None:
            if not (32 <= real_addr <= 63):
                self.ck.violation('bind-range:implicit', 'implicit bind returned %r outside 32..63' % real_addr, hist())
            if not self.free(real_addr):
                self.ck.violation('addr-handed-out-twice', 'implicit bind handed out address %r which is in use' % real_addr, hist())
            self.addr[i] = real_addr
            self.bound[real_addr].add(i)

    def on_closed(self, i):
        if not self.valid(i):
            return
        self.open[i] = False
        self.inq[i].clear()
        self.outq[i].clear()
        self.backlog[i] = None
        a = self.addr[i]
        if a is not None:
            self.bound[a].discard(i)
            if not self.bound[a]:
                for n in [n for n, x in self.names.items() if x == a]:
                    del self.names[n]

    # -- whole-table comparison with the implementation (getsockname, sap occupancy, snl)
    def compare(self, S, hist):
        llc = S.llc
        for i, s in enumerate(S.socks):
            if i < len(self.open) and self.open[i]:
                if llc.getsockname(s) != self.addr[i]:
                    self.ck.violation('getsockname-changed', 'socket %s%d reports address %r, reference %r'
                                      % (self.tag, i, llc.getsockname(s), self.addr[i]), hist())
        for a in range(2, 64):
            used = bool(self.bound.get(a))
            if (llc.sap[a] is not None) != used:
                self.ck.violation('addr-not-freed' if not used else 'addr-free-while-bound',
                                  'address %d: implementation %s, reference %s' % (a, 'in use' if llc.sap[a] is not None else 'free',
                                                                                  'in use' if used else 'free'), hist())
        real = dict((bytes(n), a) for n, a in llc.snl.items() if bytes(n) != SDP)
        if real != self.names:
            extra = sorted(set(real) - set(self.names))
            self.ck.violation('name-survives-socket' if extra else 'name-table-differs',
                              'service name table %r differs from reference %r' % (real, self.names), hist())


# ------------------------------------------------------------------------ one history
class History(object):
    """runs a list of abstract ops on a real Pair, records model lines + expectations, feeds the monitor"""

    def __init__(self, ck, agf, monitor=True):
        self.ck = ck
        self.agf = agf
        self.pair = Pair(agf)
        self.lines = [RESET]
        self.expect = [('reset', None)]       # (result text or None, (digA, digB) or None)
        self.ops = []
        self.ref = {'A': Ref(ck, 'A'), 'B': Ref(ck, 'B')} if monitor else None
        self.dead = False
        self.nontrivial = 0

    def hist(self):
        return {'agf': self.agf, 'history': [list(map(jsonable, o)) for o in self.ops]}

    def real_addr(self, sd, i):
        S = self.pair.side[sd]
        return S.socks[i].addr if 0 <= i < len(S.socks) else None

    def apply(self, op):
        """op tuple as for Pair.do, or ('pump', side)"""
        if self.dead:
            return None
        self.ops.append(op)
        if op[0] == 'pump':
            return self.pump(op[1])
        res = self.pair.do(op)
        self.lines.append(op_line(op))
        self.expect.append((res, self.pair.digests()))
        if res.startswith('crash') or res.startswith('hang'):
            self.dead = True
            self.expect[-1] = (res, None)      # the state after a crash is not compared
        if self.ref:
            self.monitor_local(op, res)
        return res

    def pump(self, sd):
        subs = self.pair.pump(sd)
        other = 'B' if sd == 'A' else 'A'
        for k, (sap, miu, ptxt, evs, hang, real, crashed) in enumerate(subs):
            self.lines.append('xfer %s %d %d' % (sd, sap, miu))
            if hang:
                res = 'hang'
            elif crashed:
                res = '%s %s' % crashed
            else:
                res = 'ok xfer %s %s' % (ptxt, '|'.join(evs) if evs else '-')
            last = k == len(subs) - 1
            self.expect.append((res, self.pair.digests() if (last and not hang and not crashed) else None))
            if hang or crashed:
                self.dead = True
            if self.ref:
                self.monitor_wire(sd, other, real, ptxt, evs)
        if self.ref and not self.dead:
            for x in 'AB':
                self.ref[x].compare(self.pair.side[x], self.hist)
        return subs

    # ---- monitor
    def monitor_local(self, op, res):
        kind, sd = op[0], op[1]
        R = self.ref[sd]
        S = self.pair.side[sd]
        ok = res.startswith('ok')
        if kind == 'socket':
            R.new(op[2])
        elif kind == 'bind':
            R.on_bind(op[2], normarg(op[3]), res, self.real_addr(sd, op[2]), self.hist)
        elif kind in ('listen', 'connect', 'sendto', 'rawsend'):
            i = op[2]
            R.on_autobind(i, self.real_addr(sd, i), self.hist)
            if R.valid(i) and R.open[i]:
                if kind == 'listen' and res == 'ok unit':
                    R.backlog[i] = min(op[3], 16)
                if kind == 'connect' and res == 'ok unit' and R.typ[i] == 'ldl':
                    R.peer[i] = op[3][1]
                if kind == 'sendto' and res == 'ok bool true':
                    R.outq[i].append('UI,%d,%d,%s' % (op[4], R.addr[i], hexs(op[3])))
                if kind == 'rawsend' and res == 'ok bool true':
                    R.outq[i].append(op[3])
        elif kind == 'accept':
            i = op[2]
            if res.startswith('ok sock') and R.valid(i):
                j = R.new('dlc', R.addr[i])
                R.connq[i] = max(0, R.connq[i] - 1)
                assert j == int(res.split()[2])
        elif kind == 'rcvbuf':
            if ok and res.startswith('ok val') and R.valid(op[2]):
                R.rcvbuf[op[2]] = op[3]
        elif kind == 'recvfrom':
            i = op[2]
            if R.valid(i) and R.open[i]:
                if res.startswith('ok dgram'):
                    _o, _d, data, ssap = res.split()
                    if not R.inq[i]:
                        self.ck.violation('datagram-phantom', 'recvfrom returned a datagram the reference never saw delivered', self.hist())
                    else:
                        want = R.inq[i].popleft()
                        if want != (data, int(ssap)):
                            self.ck.violation('datagram-corrupt', 'recvfrom returned %r, reference expects %r (payload/boundary/source/order)'
                                              % ((data, int(ssap)), want), self.hist())
                elif res.startswith('ok raw'):
                    if R.inq[i]:
                        want = R.inq[i].popleft()
                        if want != res[7:]:
                            self.ck.violation('datagram-corrupt', 'raw access point returned %r, reference expects %r' % (res[7:], want), self.hist())
                elif res.startswith('ok nonefrom'):
                    pass
        elif kind == 'close':
            if res == 'ok unit':
                R.on_closed(op[2])
        elif kind == 'resolve':
            if res.startswith('ok val'):
                v = int(res.split()[2])
                n = bytes(op[2])
                if n in R.expect_resolve and R.expect_resolve[n] != v:
                    self.ck.violation('resolve-wrong', 'resolve(%r) returned %d, the peer had answered %d' % (n, v, R.expect_resolve[n]), self.hist())
        if not self.dead:
            R.compare(S, self.hist)

    def monitor_wire(self, sd, other, real, ptxt, evs):
        RX, RY = self.ref[sd], self.ref[other]
        name = real.name
        enq = [(int(e.split(':')[1]), e.split(':', 2)[2]) for e in evs if e.startswith('enq:')]
        for e in evs:
            if e.startswith('closed:'):
                RY.on_closed(int(e.split(':')[1]))
            if e.startswith('resolved:'):
                _r, n, v = e.split(':')
                n = bytes.fromhex(n) if n != '-' else b''
                if n in RY.expect_resolve and RY.expect_resolve[n] != int(v):
                    self.ck.violation('resolve-wrong', 'resolve(%r) returned %s, the peer had answered %d' % (n, v, RY.expect_resolve[n]), self.hist())
        # sender side: a UI on the wire must be the oldest unsent datagram of a socket bound at its source address
        if name == 'UI':
            cands = [i for i in RX.bound.get(real.ssap, ()) if RX.outq[i]]
            hit = [i for i in cands if RX.outq[i][0] == ptxt]
            if hit:
                RX.outq[hit[0]].popleft()
            else:
                self.ck.violation('datagram-altered-on-wire', 'UI PDU %s on the link is not the next datagram of any socket bound at %d'
                                  % (ptxt, real.ssap), self.hist())
        elif name in ('CONNECT', 'DISC', 'DM', 'CC'):
            for i in RX.bound.get(real.ssap, ()):
                if RX.typ[i] == 'raw' and RX.outq[i] and RX.outq[i][0] == ptxt:
                    RX.outq[i].popleft()
                    break
        # receiver side
        if name == 'UI':
            d, s = real.dsap, real.ssap
            want = None
            for j in RY.bound.get(d, ()):
                if RY.typ[j] == 'ldl' and (RY.peer[j] is None or RY.peer[j] == s):
                    want = j
                if RY.typ[j] == 'raw':
                    want = j
            for j, _p in enq:
                if j != want:
                    self.ck.violation('datagram-wrong-socket', 'UI for address %d was delivered to socket %s%d (bound at %r), reference: %s'
                                      % (d, other, j, RY.addr[j] if RY.valid(j) else None, want), self.hist())
                elif RY.typ[j] == 'ldl':
                    RY.inq[j].append((ptxt.split(',')[3], s))     # payload as it was on the link
                else:
                    RY.inq[j].append(ptxt)
        elif name == 'CONNECT':
            want = None
            if real.dsap == 1:
                a = RY.names.get(bytes(real.sn)) if real.sn else None
                if a is not None:
                    for j in RY.bound.get(a, ()):
                        if RY.typ[j] == 'dlc' and RY.backlog[j] is not None and RY.sname[j] == bytes(real.sn):
                            want = j
                tco = self.pair.side[other].socks[want] if want is not None else None
                if (want is not None and not enq and RY.connq[want] < RY.backlog[want] and
                        str(tco.state) == 'LISTEN' and len(tco.recv_queue) < tco.recv_buf):
                    self.ck.violation('connect-by-name-not-delivered',
                                      'CONNECT for service %r: socket %s%d is bound under that name, listening with room in its '
                                      'backlog, but no socket received the request' % (bytes(real.sn), other, want), self.hist())
                for j, _p in enq:
                    if j != want:
                        self.ck.violation('connect-by-name-wrong-socket',
                                          'CONNECT for service %r reached socket %s%d (bound under %r at %r); reference: name is bound to %r'
                                          % (bytes(real.sn or b''), other, j, RY.sname[j] if RY.valid(j) else None,
                                             RY.addr[j] if RY.valid(j) else None, a), self.hist())
            else:
                for j in RY.bound.get(real.dsap, ()):
                    if RY.typ[j] == 'dlc' and RY.backlog[j] is not None:
                        want = j
                for j, _p in enq:
                    if j != want:
                        self.ck.violation('connect-wrong-socket', 'CONNECT for address %d reached socket %s%d' % (real.dsap, other, j), self.hist())
            for j, p in enq:
                if RY.valid(j) and RY.typ[j] == 'raw':
                    RY.inq[j].append(p)
                elif RY.valid(j):
                    RY.connq[j] += 1
        elif name == 'SNL':
            # answers we (the sender) put on the wire must be what the reference computed when the request arrived
            for tid, sap in real.sdres:
                if tid in RX.answers:
                    nm, exp = RX.answers.pop(tid)
                    if exp != sap:
                        self.ck.violation('resolve-wrong-answer', 'service discovery answers %d for %r, reference table says %d' % (sap, nm, exp), self.hist())
                    RY.expect_resolve.setdefault(nm, sap)
            for tid, nm in real.sdreq:
                nm = bytes(nm)
                RY.answers[tid] = (nm, 1 if nm == SDP else RY.names.get(nm, 0))
        else:
            for j, p in enq:
                if RY.valid(j) and RY.typ[j] == 'raw':
                    RY.inq[j].append(p)

    def finish(self):
        self.pair.close()


def jsonable(x):
    if isinstance(x, (bytes, bytearray)):
        return {'hex': bytes(x).hex()}
    if isinstance(x, tuple):
        return [jsonable(y) for y in x]
    return x


def unjson(x):
    if isinstance(x, dict):
        return bytes.fromhex(x['hex'])
    if isinstance(x, list):
        return tuple(unjson(y) for y in x)
    return x


def normarg(a):
    """bind argument as the model sees it: omitted and None are the same, a name is a name however it is spelled"""
    if a == 'None':
        return 'none'
    if a not in ('none', 'bad') and a[0] in ('s', 'ba'):
        return ('n', a[1])
    return a


def op_line(op):
    k, sd = op[0], op[1]
    if k == 'socket':
        return 'socket %s %s' % (sd, op[2])
    if k == 'bind':
        a = normarg(op[3])
        if a in ('none', 'bad'):
            t = a
        elif a[0] == 'a':
            t = 'a:%d' % a[1]
        else:
            t = 'n:' + (bytes(a[1]).hex() if a[1] else '-')
        return 'bind %s %d %s' % (sd, op[2], t)
    if k == 'listen':
        return 'listen %s %d %d' % (sd, op[2], op[3])
    if k == 'connect':
        d = op[3]
        if d[0] == 'a':
            return 'connecta %s %d %d' % (sd, op[2], d[1])
        return 'connectn %s %d %s' % (sd, op[2], hexs(d[1]))
    if k == 'sendto':
        return 'sendto %s %d %s %d' % (sd, op[2], hexs(op[3]), op[4])
    if k == 'rawsend':
        return 'rawsend %s %d %s' % (sd, op[2], op[3])
    if k == 'rcvbuf':
        return 'rcvbuf %s %d %d' % (sd, op[2], op[3])
    if k == 'resolve':
        return 'resolve %s %s %d' % (sd, hexs(op[2]), op[3])
    if k in ('accept', 'recvfrom', 'close', 'getsockname'):
        return '%s %s %d' % (k, sd, op[2])
    raise ValueError(op)


# ------------------------------------------------------------------------ history generators
def corpus():
    """minimised past failures and the scenarios named in the property text"""
    a, b = VALID[0], VALID[1]
    H = []
    # a name must not survive its socket
    H.append([('socket', 'A', 'ldl'), ('bind', 'A', 0, ('n', a)), ('close', 'A', 0), ('socket', 'A', 'ldl'),
              ('bind', 'A', 1, ('n', b)), ('socket', 'A', 'ldl'), ('bind', 'A', 2, ('n', a)), ('getsockname', 'A', 2)])
    # stale name and connect-by-name / resolve from the peer
    H.append([('socket', 'A', 'dlc'), ('bind', 'A', 0, ('n', a)), ('close', 'A', 0), ('socket', 'A', 'dlc'),
              ('bind', 'A', 1, ('n', b)), ('listen', 'A', 1, 2), ('socket', 'B', 'dlc'), ('connect', 'B', 0, ('n', a)),
              ('pump', 'B'), ('pump', 'A'), ('resolve', 'B', a, 0), ('pump', 'B'), ('pump', 'A')])
    # well-known name over an occupied address
    H.append([('socket', 'A', 'raw'), ('bind', 'A', 0, ('a', 4)), ('socket', 'A', 'dlc'), ('bind', 'A', 1, ('n', SNEP)),
              ('getsockname', 'A', 0), ('getsockname', 'A', 1), ('close', 'A', 1), ('close', 'A', 0)])
    # 17 named binds
    h = []
    for k in range(17):
        h += [('socket', 'A', 'ldl'), ('bind', 'A', k, ('n', VALID[k]))]
    h += [('close', 'A', 3), ('socket', 'A', 'ldl'), ('bind', 'A', 17, ('n', VALID[18])), ('getsockname', 'A', 17)]
    H.append(h)
    # 33 anonymous binds, reuse after close
    h = []
    for k in range(33):
        h += [('socket', 'B', 'raw' if k % 3 else 'ldl'), ('bind', 'B', k, 'none')]
    h += [('close', 'B', 7), ('bind', 'B', 32, 'none'), ('getsockname', 'B', 32), ('close', 'B', 7)]
    H.append(h)
    # full connect-by-name handshake, accept, close order
    H.append([('socket', 'A', 'dlc'), ('bind', 'A', 0, ('n', a)), ('listen', 'A', 0, 1), ('socket', 'B', 'dlc'),
              ('connect', 'B', 0, ('n', a)), ('pump', 'B'), ('accept', 'A', 0), ('pump', 'A'), ('close', 'A', 0),
              ('socket', 'A', 'ldl'), ('bind', 'A', 2, ('n', a)), ('close', 'A', 1), ('pump', 'A'), ('pump', 'B'), ('pump', 'A'),
              ('bind', 'A', 2, ('n', a)), ('getsockname', 'A', 2), ('close', 'B', 0)])
    # datagrams: two sockets, buffer 2, order and source
    H.append([('socket', 'A', 'ldl'), ('bind', 'A', 0, ('a', 40)), ('rcvbuf', 'A', 0, 2), ('socket', 'B', 'ldl'), ('socket', 'B', 'ldl'),
              ('sendto', 'B', 0, b'\x01', 40), ('sendto', 'B', 1, b'\x02\x03', 40), ('sendto', 'B', 0, b'', 40), ('pump', 'B'), ('pump', 'B'),
              ('pump', 'B'), ('recvfrom', 'A', 0), ('recvfrom', 'A', 0), ('recvfrom', 'A', 0)])
    # resolve: unknown, well-known, cached, bound later
    H.append([('resolve', 'A', a, 3), ('resolve', 'A', SDP, 200), ('pump', 'A'), ('pump', 'B'), ('socket', 'B', 'ldl'),
              ('bind', 'B', 0, ('n', a)), ('resolve', 'A', a, 0), ('resolve', 'A', b, 255), ('pump', 'A'), ('pump', 'B')])
    # UI to a listening connection socket: FRMR; double close
    H.append([('socket', 'A', 'dlc'), ('listen', 'A', 0, 1), ('socket', 'B', 'ldl'), ('sendto', 'B', 0, b'\x09', 32), ('pump', 'B'),
              ('pump', 'A'), ('close', 'A', 0), ('close', 'A', 0)])
    # service discovery answers next to a large raw PDU in one aggregated frame (small MIU budget left for SDRES)
    H.append([('resolve', 'B', VALID[k], k) for k in range(4)] + [('pump', 'B'), ('socket', 'A', 'raw'), ('bind', 'A', 0, ('a', 40)),
             ('rawsend', 'A', 0, 'UI,33,40,' + '5a' * 225), ('pump', 'A'), ('pump', 'A'), ('pump', 'A')])
    # a datagram for an established connection (set up by a raw access point answering CC): FRMR, the connection is
    # shut down when the FRMR leaves (before fixes/c07-7 the link thread waits for ever: hang)
    H.append([('socket', 'B', 'dlc'), ('connect', 'B', 0, ('a', 40)), ('socket', 'A', 'raw'), ('bind', 'A', 0, ('a', 40)),
              ('rawsend', 'A', 0, 'CC,32,40'), ('pump', 'A'), ('rawsend', 'A', 0, 'UI,32,40,07'), ('pump', 'A'), ('pump', 'B'),
              ('pump', 'B'), ('recvfrom', 'A', 0), ('recvfrom', 'A', 0), ('close', 'B', 0), ('getsockname', 'B', 0),
              ('socket', 'B', 'ldl'), ('bind', 'B', 1, ('a', 32))])
    # falsy arguments must not be taken for "no address given" (nfc.llcp.socket.Socket.bind passes them on)
    H.append([('socket', 'A', 'ldl'), ('bind', 'A', 0, ('a', 0)), ('bind', 'A', 0, ('n', b'')), ('bind', 'A', 0, ('s', b'')),
              ('bind', 'A', 0, ('ba', b'')), ('getsockname', 'A', 0), ('socket', 'A', 'raw'), ('bind', 'A', 1, ('a', 0)),
              ('getsockname', 'A', 1), ('bind', 'A', 1, 'None'), ('getsockname', 'A', 1), ('socket', 'A', 'dlc'),
              ('bind', 'A', 2, ('s', VALID[2])), ('socket', 'A', 'dlc'), ('bind', 'A', 3, ('ba', SNEP)), ('getsockname', 'A', 3),
              ('socket', 'B', 'ldl'), ('connect', 'B', 0, ('a', 0)), ('sendto', 'B', 0, b'', 0), ('pump', 'B')])
    # odd names
    h = []
    for k, n in enumerate(ODD + INVALID):
        h += [('socket', 'A', 'ldl'), ('bind', 'A', k, ('n', n))]
    H.append(h)
    return H


class Gen(object):
    def __init__(self, rng, agf, n_ops):
        self.rng, self.agf, self.n = rng, agf, n_ops

    def names(self):
        r = self.rng
        x = r.random()
        if x < 0.55:
            return r.choice(VALID[:4])
        if x < 0.75:
            return r.choice(VALID)
        if x < 0.87:
            return r.choice([SNEP, SNEP, SDP])
        if x < 0.92:
            return r.choice(ODD)
        return r.choice(INVALID)

    def run(self, H):
        r = self.rng
        P = H.pair
        queued = 0
        for _ in range(self.n):
            if H.dead:
                break
            sd = r.choice('AB')
            S = P.side[sd]
            O = P.side['B' if sd == 'A' else 'A']
            n = len(S.socks)
            x = r.random()
            live = [i for i, s in enumerate(S.socks) if not s.state.SHUTDOWN]
            pick = (lambda: r.choice(live) if live and r.random() < 0.85 else (r.randrange(n) if n and r.random() < 0.95 else 99))
            peer_addrs = [a for a in range(2, 64) if O.llc.sap[a] is not None] or [32]
            dst = (lambda: r.choice(peer_addrs) if r.random() < 0.8 else r.choice([0, 1, 4, 16, 17, 32, 33, 40, 63]))
            if x < 0.13 or n == 0:
                H.apply(('socket', sd, r.choice(['ldl', 'ldl', 'dlc', 'dlc', 'raw'])))
            elif x < 0.36:
                y = r.random()
                if y < 0.2:
                    arg = r.choice(['none', 'none', 'None'])
                elif y < 0.42:
                    arg = ('a', r.choice([0, 0, 1, 2, 4, 4, 15, 16, 17, 31, 32, 33, 40, 63, 64, -1, 1000]))
                elif y < 0.96:
                    arg = (r.choice(['n', 'n', 'n', 's', 'ba']), self.names())
                else:
                    arg = 'bad'
                H.apply(('bind', sd, pick(), arg))
            elif x < 0.42:
                H.apply(('listen', sd, pick(), r.choice([0, 1, 1, 2, 3, -1, 20])))
            elif x < 0.47:
                H.apply(('accept', sd, pick()))
            elif x < 0.55:
                i = pick()
                d = ('n', self.names()) if r.random() < 0.6 else ('a', dst())
                s = S.sock(i)
                if d[0] == 'n' and not hasattr(s, 'recv_win') and hasattr(s, 'peer') and r.random() < 0.9:
                    d = ('a', dst())       # a name as destination of a datagram socket is a TypeError: rarely
                H.apply(('connect', sd, i, d))
            elif x < 0.67:
                i = pick()
                s = S.sock(i)
                if hasattr(s, 'recv_win') and str(s.state) == 'ESTABLISHED':
                    continue
                if not hasattr(s, 'state') or (hasattr(s, 'addr') and type(s).__name__ == 'RawAccessPoint' and r.random() < 0.9):
                    continue
                ln = r.choice([0, 1, 1, 2, 3, 6]) if r.random() < 0.97 else r.choice([248, 249])
                H.apply(('sendto', sd, i, bytes(r.randrange(256) for _ in range(ln)), dst()))
                queued += 1
            elif x < 0.72:
                raws = [i for i in live if type(S.socks[i]).__name__ == 'RawAccessPoint']
                if not raws:
                    continue
                i = r.choice(raws)
                if S.socks[i].addr is None:
                    H.apply(('bind', sd, i, 'none'))
                    if S.socks[i].addr is None:
                        continue
                me = S.socks[i].addr
                k = r.random()
                if k < 0.35:
                    p = 'UI,%d,%d,%s' % (dst(), me, hexs(bytes(r.randrange(256) for _ in range(r.choice([0, 1, 3])))))
                elif k < 0.55:
                    p = 'CONNECT,%d,%d,-' % (dst(), me)
                elif k < 0.8:
                    p = 'CONNECT,1,%d,%s' % (me, hexs(self.names() or b'x'))
                elif k < 0.87:
                    p = 'DISC,%d,%d' % (dst(), me)
                elif k < 0.94:
                    p = 'DM,%d,%d,%d' % (dst(), me, r.choice([0, 1, 2, 16, 32]))
                else:
                    p = 'CC,%d,%d' % (dst(), me)
                H.apply(('rawsend', sd, i, p))
                queued += 1
            elif x < 0.80:
                H.apply(('recvfrom', sd, pick()))
            elif x < 0.82:
                i = pick()
                if hasattr(S.sock(i), 'recv_win'):
                    continue
                H.apply(('rcvbuf', sd, i, r.choice([0, 1, 2, 3])))
            elif x < 0.86:
                H.apply(('resolve', sd, self.names(), r.randrange(256)))
                queued += 1
            elif x < 0.94:
                H.apply(('close', sd, pick()))
            elif x < 0.95:
                H.apply(('getsockname', sd, pick()))
            else:
                queued = 99
            if queued >= (3 if self.agf else 4) or r.random() < 0.25:
                self.quiesce(H, r.choice([1, 2, 6]))
                queued = 0
        self.quiesce(H, 8)

    def quiesce(self, H, rounds):
        for _ in range(rounds):
            a = H.apply(('pump', 'A')) if not H.dead else None
            b = H.apply(('pump', 'B')) if not H.dead else None
            if not a and not b:
                break


def exhaustive_histories(depth):
    """every sequence of [depth] steps over a small alphabet on one controller (three sockets exist)"""
    a, b = VALID[0], VALID[1]
    alphabet = []
    for i in range(3):
        for arg in ('none', ('n', a), ('n', b), ('n', SNEP), ('a', 4), ('a', 0), ('s', b'')):
            alphabet.append(('bind', 'A', i, arg))
        alphabet.append(('close', 'A', i))
    pre = [('socket', 'A', 'ldl'), ('socket', 'A', 'dlc'), ('socket', 'A', 'raw')]

    def rec(prefix, d):
        if d == 0:
            yield pre + prefix
            return
        for o in alphabet:
            # prune: operations on a socket that was closed tell nothing new after the first
            yield from rec(prefix + [o], d - 1)
    return rec([], depth)


# ------------------------------------------------------------------------ main
def run_history(ck, ops, agf, gen=None):
    H = History(ck, agf)
    try:
        for o in ops:
            H.apply(o)
        if gen is not None:
            gen.run(H)
    finally:
        H.finish()
    return H


def main():
    ck = Check('C17')
    # the open finding of this property is also read from findings/C17.json directly, so that the check does not
    # depend on when known_findings.json was last assembled
    try:
        mine = json.load(open(os.path.join(os.path.dirname(os.path.abspath(__file__)), '..', '..', 'findings', 'C17.json')))
        have = {f['key'] for f in ck.known}
        ck.known += [f for f in mine.get('findings', []) if f.get('property') == 'C17' and f['key'] not in have]
    except (IOError, ValueError):
        pass
    ck.trusted = ['Coq 8.16.1 kernel (vm_compute for the non-vacuity examples only)',
                  'translate/kspec_c17.py (fail-closed ast generator for the allocation logic of llc.py -> Gen/AddrK.v)',
                  'extraction: ExtrOcamlBasic only; extract/c17_run.ml driver (prints results and table digests)',
                  'harness/sim/c17_llc.py: real LogicalLinkController objects, helper threads for calls that reach wait(), '
                  'instrumented condition variables / receive queues (instance attributes only)']
    ck.assumptions = ['one application thread per socket: while a connect()/close() of a socket waits, no other call is made on it',
                      'collect() order and aggregation are an input of the model (XXfer side sap miu): theorems hold for every order; '
                      'the MIU budget per aggregated PDU is recomputed by the harness',
                      'CONNECT/CC carry the default MIU 128 / RW 1 (no setsockopt on connection sockets); no I/RR/RNR traffic (C05)',
                      'a cached resolve() answer stays valid for the link (ServiceDiscovery never re-asks): resolve_exact is about the '
                      'moment the peer processes the request',
                      'link MIU 248 in both directions, no encryption; raw access points send PDUs with their own source address',
                      'the model carries both versions of DataLinkConnection.enqueue for a non connection-mode PDU in state '
                      'ESTABLISHED (close()+wait / FRMR only); which one the source has is decided by running it (sim.enqueue_blocks); '
                      'theorems hold for both']
    ck.coq(gen=['AddrK'], targets=['Model/Addr.vo'] + PROOF_TARGETS + ['Bridge/Addr.vo'], props='C17')
    mr = ck.model()
    if mr is None:
        ck.finish()
    quick = ck.tier == 'quick'
    rng = ck.rng

    if ck.replay:
        case = json.load(open(ck.replay))['case']
        H = run_history(ck, [unjson(o) for o in case['history']], case.get('agf', False))
        batch = Batch(ck, mr)
        batch.add(H, 'replay')
        batch.flush()
        ck.finish(level='proof', rule='replay of one stored history', explanation='replay')

    batch = Batch(ck, mr)
    for ops in corpus():
        for agf in (False, True):
            batch.add(run_history(ck, ops, agf), 'corpus')
    nrand = 1500 if quick else 20000
    for k in range(nrand):
        agf = bool(k % 2)
        batch.add(run_history(ck, [], agf, Gen(rng, agf, rng.choice([10, 25, 40, 60]))), 'random')
    # long histories aimed at exhaustion: many sockets, mostly bind/close
    for k in range(40 if quick else 400):
        H = History(ck, False)
        try:
            sd = 'A'
            nsock = 0
            for _ in range(150):
                x = rng.random()
                if x < 0.45:
                    H.apply(('socket', sd, rng.choice(['ldl', 'dlc', 'raw'])))
                    arg = ('n', rng.choice(VALID)) if (k % 2 == 0) == (rng.random() < 0.9) else 'none'
                    H.apply(('bind', sd, nsock, arg))
                    nsock += 1
                elif nsock:
                    H.apply(('close', sd, rng.randrange(nsock)))
        finally:
            H.finish()
        batch.add(H, 'exhaustion')
    depth = 3 if quick else 4
    for ops in exhaustive_histories(depth):
        batch.add(run_history(ck, ops, False), 'exhaustive-%d' % depth)
    batch.flush()
    ck.cov['traces_validated_against_impl'] = batch.nhist - batch.nmis
    ck.cov['steps_compared'] = batch.nsteps
    ck.finish(level='proof',
              rule='histories on two real LogicalLinkController objects: corpus (name reuse after close, well-known name over an occupied '
                   'address, 17 named / 33 anonymous binds, connect-by-name handshake and close order, datagram order, resolve, FRMR), '
                   'random histories of 10-60 calls with and without aggregation (names from 22 valid, 1 odd, 10 invalid, 2 well-known), '
                   'exhaustion histories of 150 bind/close steps, every bind/close sequence of depth %d over 24 steps on three sockets. '
                   'one evaluation = one API call or one PDU moved; non-trivial = bind/close/connect/listen/accept/resolve calls and PDU '
                   'transfers (anything that reads or changes an address table); distinct by (history prefix hash, step)' % depth,
              explanation='theorems over all operation sequences of the model; the model is tied to the source by comparing every result, '
                          'PDU, delivery event and both address tables after every step with the real controllers')


class Batch(object):
    """collects finished histories, runs the model on them in chunks and compares"""

    def __init__(self, ck, mr):
        self.ck, self.mr = ck, mr
        self.hs = []
        self.nlines = 0
        self.nhist = self.nmis = self.nsteps = 0

    def add(self, H, kind):
        H.kind = kind
        H.pair = None           # the controllers are not needed any more
        H.ref = None
        self.hs.append(H)
        self.nlines += len(H.lines)
        if self.nlines > 150000:
            self.flush()

    def flush(self):
        if not self.hs:
            return
        out = self.mr.run([ln for H in self.hs for ln in H.lines])
        self.compare(out)
        self.hs = []
        self.nlines = 0

    def compare(self, out):
        ck = self.ck
        pos = 0
        for H in self.hs:
            self.nhist += 1
            n = 0
            roll = hashlib.sha1(H.kind.encode())
            start = pos
            for line, (res, dig) in zip(H.lines, H.expect):
                got = out[pos] if pos < len(out) else '?missing'
                pos += 1
                if line.startswith('reset'):
                    continue
                self.nsteps += 1
                n += 1
                word = line.split()[0]
                ck.count(word)
                roll.update(line.encode() + b'/')
                ck.case(roll.hexdigest(),
                        word in ('bind', 'close', 'connecta', 'connectn', 'listen', 'accept', 'resolve', 'xfer'),
                        {'step': line, 'result': res[:80]} if ck.cov['evaluations'] % 9973 == 0 else None)
                g = got.split('#')
                if g[0] != res or (dig is not None and (len(g) != 3 or (g[1], g[2]) != dig)):
                    self.nmis += 1
                    if self.nmis <= 5:
                        ck.correspondence_mismatch('llc-step', {'history': H.hist(), 'at': n, 'step': line,
                                                                'impl': [res, dig], 'model': g})
                    break
            pos = start + len(H.lines)


PROOF_TARGETS = ['Proofs/AddrMain.vo', 'Proofs/AddrDgram.vo']

if __name__ == '__main__':
    main()
