"""C16 - tag commands retry transient errors and fail only as TagCommandError.

Obligations: Props/C16.v (retry_spec / no_double_apply / closedness of the retry loops of
Model/Retry.v for every fault script and budget; tag_ops_closed = ExnCheck evaluated on the
exception-flow skeletons of every public method of every tag class, Gen/TagSkel.v regenerated
from src/nfc/tag/*.py on this run).
Correspondence: real tag objects (nfc.tag.activate on a fault-injecting fake clf in front of the
tag simulators): every transceive()/send_cmd_recv_rsp() call observed during the sweep (attempt
outcomes, number of attempts, result) against the extracted Retry model; every exception class that
left a public method against the set the skeleton analysis computes for that class/method.
Monitor (from the property text): for each operation the fault-free command sequence is recorded,
then every position x kind x burst 1..4 x {command lost, response lost} is injected.
"""
import contextlib
import io
import json
import logging
import os
import sys

from common import Check

import nfc
import nfc.clf
import nfc.tag
import nfc.tag.tt1
import nfc.tag.tt2
import nfc.tag.tt3
import nfc.tag.tt4
import nfc.tag.tt2_nxp
import nfc.tag.tt3_sony

import sim.c16_faults as S

logging.disable(logging.CRITICAL)

MSG = bytes.fromhex('d1010f5402656e') + b'hello, world'          # 19 byte NDEF text record
MSG2 = bytes.fromhex('d101255402656e') + b'a longer text that needs more blocks.'  # 41 byte
KEY = bytes(range(0x10, 0x20))


def longmsg(n):
    body = bytes((7 * i + 3) % 251 for i in range(n - 7))
    return bytes([0xC1, 0x01, 0, 0, len(body) >> 8, len(body) & 255, 0x54]) + body


# ------------------------------------------------------------------------------ observation
def canon(v):
    if isinstance(v, (bytes, bytearray)):
        return 'h:' + bytes(v).hex()
    if isinstance(v, nfc.tag.Tag.NDEF):
        return ('ndef', v.is_readable, v.is_writeable, v.capacity, bytes(v.octets).hex())
    if isinstance(v, nfc.tag.Tag):
        return ('tag', type(v).__name__)
    if isinstance(v, (list, tuple)):
        return tuple(canon(x) for x in v)
    return v


def observe(fn):
    out = io.StringIO()
    try:
        with contextlib.redirect_stdout(out):
            v = fn()
    except nfc.tag.TagCommandError as e:
        return ('tce', type(e).__name__, e.errno)
    except nfc.clf.CommunicationError as e:
        return ('raw', type(e).__name__)
    except S.Runaway:
        return ('runaway',)
    except Exception as e:  # noqa
        return ('exc', type(e).__name__, str(e)[:80])
    return ('val', canon(v))


# ------------------------------------------------------------------------------ scenarios
class Scn(object):
    """name; make() -> World; prep(world) fault-free preparation; op(world) -> value;
    fail = values documented for failure; method = (public method name for the skeleton lookup)"""

    def __init__(self, name, ttype, make, op, method, prep=None, fail=(None, False), tier='quick', lists=False):
        self.name, self.ttype, self.make, self.op, self.method = name, ttype, make, op, method
        self.prep, self.fail, self.tier, self.lists = prep, fail, tier, lists


def read_ndef(w):
    return w.tag.ndef


def prep_ndef(w):
    assert w.tag.ndef is not None, 'scenario without NDEF'


def write_op(data):
    def op(w):
        w.tag.ndef.octets = data
        return True
    return op


def t2_generic(npages=16, ndef=MSG, **kw):
    def make():
        mem = S.t2_memory(npages, ndef, **kw)
        mem[0] = 0x02          # not an NXP uid: generic Type2Tag
        return S.TlvWorld(S.T2TSim(mem), 'Type2Tag')
    return make


def t2_nxp(npages, version, expect, ndef=MSG, blank=False):
    def make():
        mem = S.t2_memory(npages, ndef)
        if blank:
            mem[12:16] = bytes(4)
            mem[16:4 * npages] = bytes(4 * npages - 16)
        return S.TlvWorld(S.T2TSim(mem, version=version), expect)
    return make


def t1_world(dynamic, expect, ndef=MSG, hr=None, blank=False):
    def make():
        h, m = S.t1_memory(dynamic, ndef, blank)
        return S.TlvWorld(S.T1TSim(hr or h, m), expect)
    return make


def t3_world(nblocks=12, ndef=MSG2, **kw):
    def make():
        return S.T3World(S.t3_blocks(nblocks, ndef, **kw))
    return make


def lite_world(lites, ndef=MSG, formatted=True, key=None):
    def make():
        return S.LiteWorld(lites, S.lite_init(ndef, formatted=formatted, key=key))
    return make


def t4_world(fwi, ndef=MSG, **kw):
    def make():
        return S.T4World(S.t4_card(ndef, **kw), fwi=fwi)
    return make


def prep_auth(w):
    assert w.tag.authenticate(KEY) is True


def scenarios():
    L = []

    def add(*a, **k):
        L.append(Scn(*a, **k))

    # ---- Type 2 generic
    g = t2_generic()
    add('t2/ndef-read', 'tt2', g, read_ndef, 'ndef')
    add('t2/ndef-write', 'tt2', g, write_op(MSG2), 'NDEF.octets=', prep=prep_ndef)
    add('t2/is_present', 'tt2', g, lambda w: w.tag.is_present, 'is_present')
    add('t2/format', 'tt2', g, lambda w: w.tag.format(), 'format')
    add('t2/format-wipe', 'tt2', g, lambda w: w.tag.format(wipe=0x5A), 'format')
    add('t2/protect', 'tt2', g, lambda w: w.tag.protect(), 'protect')
    add('t2/protect-pw', 'tt2', g, lambda w: w.tag.protect(b'123456'), 'protect')
    add('t2/authenticate', 'tt2', g, lambda w: w.tag.authenticate(b'123456'), 'authenticate')
    add('t2/dump', 'tt2', g, lambda w: w.tag.dump(), 'dump', lists=True)
    big = t2_generic(npages=100, ndef=longmsg(300))
    add('t2/ndef-read-long', 'tt2', big, read_ndef, 'ndef')
    add('t2/ndef-write-long', 'tt2', big, write_op(longmsg(280)), 'NDEF.octets=', prep=prep_ndef)
    sec = t2_generic(npages=520, ndef=longmsg(1040), size_byte=255)
    add('t2/sector/ndef-read', 'tt2', sec, read_ndef, 'ndef', tier='sample')
    add('t2/sector/ndef-write', 'tt2', sec, write_op(longmsg(1030)), 'NDEF.octets=', prep=prep_ndef, tier='sample')
    # ---- Type 2 NXP products
    ul = t2_nxp(16, None, 'MifareUltralight')
    add('ul/ndef-read', 'tt2', ul, read_ndef, 'ndef')
    add('ul/dump', 'tt2', ul, lambda w: w.tag.dump(), 'dump', lists=True)
    n203 = t2_nxp(42, b'\x00', 'NTAG203')
    add('ntag203/ndef-write', 'tt2', n203, write_op(MSG2), 'NDEF.octets=', prep=prep_ndef)
    add('ntag203/protect', 'tt2', n203, lambda w: w.tag.protect(), 'protect')
    add('ntag203/dump', 'tt2', n203, lambda w: w.tag.dump(), 'dump', lists=True)
    add('ntag203/format-blank', 'tt2', t2_nxp(42, b'\x00', 'NTAG203', blank=True), lambda w: w.tag.format(), 'format')
    v213 = bytes.fromhex('0004040201000F03')
    n213 = t2_nxp(45, v213, 'NTAG213')
    add('ntag213/ndef-read', 'tt2', n213, read_ndef, 'ndef')
    add('ntag213/protect', 'tt2', n213, lambda w: w.tag.protect(), 'protect')
    add('ntag213/dump', 'tt2', n213, lambda w: w.tag.dump(), 'dump', lists=True)
    add('ntag213/signature', 'tt2', n213, lambda w: w.tag.signature, 'signature', fail=(32 * b'\0',))
    add('ntag213/format-blank', 'tt2', t2_nxp(45, v213, 'NTAG213', blank=True), lambda w: w.tag.format(), 'format')
    add('ntag215/format-blank', 'tt2', t2_nxp(135, bytes.fromhex('0004040201001103'), 'NTAG215', blank=True),
        lambda w: w.tag.format(), 'format', tier='thorough')
    add('ntag210/dump', 'tt2', t2_nxp(20, bytes.fromhex('0004040101000B03'), 'NTAG210'), lambda w: w.tag.dump(), 'dump',
        lists=True, tier='thorough')
    add('mf0ul11/dump', 'tt2', t2_nxp(20, bytes.fromhex('0004030101000B03'), 'MF0UL11'), lambda w: w.tag.dump(), 'dump',
        lists=True)
    add('mf0ul21/dump', 'tt2', t2_nxp(41, bytes.fromhex('0004030101000E03'), 'MF0UL21'), lambda w: w.tag.dump(), 'dump',
        lists=True, tier='thorough')
    add('nt3h1101/dump', 'tt2', t2_nxp(1024, bytes.fromhex('0004040502011303'), 'NT3H1101'), lambda w: w.tag.dump(), 'dump',
        lists=True, tier='sample')
    pw = lambda: S.NtagWorld(41)  # noqa
    add('ntag213pw/protect-pw', 'tt2', pw, lambda w: w.tag.protect(b'abcdef', protect_from=4), 'protect')
    add('ntag213pw/protect-pw-ndef', 'tt2', pw, lambda w: w.tag.protect(b'abcdef', read_protect=True), 'protect')
    add('ntag213pw/authenticate', 'tt2', pw, lambda w: w.tag.authenticate(b''), 'authenticate')
    add('ntag213pw/authenticate-wrong', 'tt2', pw, lambda w: w.tag.authenticate(b'zzzzzz'), 'authenticate')
    # ---- Type 1
    tz = t1_world(False, 'Topaz')
    add('topaz/ndef-read', 'tt1', tz, read_ndef, 'ndef')
    add('topaz/ndef-write', 'tt1', tz, write_op(MSG2), 'NDEF.octets=', prep=prep_ndef)
    add('topaz/is_present', 'tt1', tz, lambda w: w.tag.is_present, 'is_present')
    add('topaz/format', 'tt1', tz, lambda w: w.tag.format(), 'format')
    add('topaz/format-blank-wipe', 'tt1', t1_world(False, 'Topaz', blank=True), lambda w: w.tag.format(wipe=0), 'format')
    add('topaz/protect', 'tt1', tz, lambda w: w.tag.protect(), 'protect')
    add('topaz/dump', 'tt1', tz, lambda w: w.tag.dump(), 'dump', lists=True)
    t5 = t1_world(True, 'Topaz512')
    add('topaz512/ndef-read', 'tt1', t5, read_ndef, 'ndef')
    add('topaz512/ndef-write', 'tt1', t5, write_op(longmsg(200)), 'NDEF.octets=', prep=prep_ndef)
    add('topaz512/format', 'tt1', t5, lambda w: w.tag.format(), 'format')
    add('topaz512/protect', 'tt1', t5, lambda w: w.tag.protect(), 'protect')
    add('topaz512/dump', 'tt1', t5, lambda w: w.tag.dump(), 'dump', lists=True)
    g1 = t1_world(False, 'Type1Tag', hr=b'\x11\x00')
    add('t1/ndef-read', 'tt1', g1, read_ndef, 'ndef')
    add('t1/ndef-write', 'tt1', g1, write_op(MSG2), 'NDEF.octets=', prep=prep_ndef)
    add('t1/protect', 'tt1', g1, lambda w: w.tag.protect(), 'protect')
    add('t1/format', 'tt1', g1, lambda w: w.tag.format(), 'format')
    add('t1/dump', 'tt1', g1, lambda w: w.tag.dump(), 'dump', lists=True)
    # ---- Type 3 generic
    g3 = t3_world()
    add('t3/ndef-read', 'tt3', g3, read_ndef, 'ndef')
    add('t3/ndef-write', 'tt3', g3, write_op(MSG + MSG2), 'NDEF.octets=', prep=prep_ndef)
    add('t3/is_present', 'tt3', g3, lambda w: w.tag.is_present, 'is_present')
    add('t3/format', 'tt3', g3, lambda w: w.tag.format(), 'format')
    add('t3/format-wipe', 'tt3', t3_world(6), lambda w: w.tag.format(version=0x10, wipe=0), 'format')
    add('t3/dump', 'tt3', g3, lambda w: w.tag.dump(), 'dump', lists=True)
    add('t3/protect', 'tt3', g3, lambda w: w.tag.protect(), 'protect')
    # ---- FeliCa Lite / Lite-S
    for nm, ls in (('lite', False), ('lites', True)):
        fw = lite_world(ls)
        add(nm + '/ndef-read', 'tt3', fw, read_ndef, 'ndef')
        add(nm + '/ndef-write', 'tt3', fw, write_op(MSG2), 'NDEF.octets=', prep=prep_ndef)
        add(nm + '/is_present', 'tt3', fw, lambda w: w.tag.is_present, 'is_present')
        add(nm + '/format', 'tt3', lite_world(ls, formatted=False), lambda w: w.tag.format(), 'format')
        add(nm + '/format-wipe', 'tt3', fw, lambda w: w.tag.format(wipe=0x20), 'format')
        add(nm + '/protect', 'tt3', fw, lambda w: w.tag.protect(), 'protect')
        add(nm + '/protect-pw', 'tt3', fw, lambda w: w.tag.protect(KEY, protect_from=2), 'protect')
        add(nm + '/authenticate', 'tt3', lite_world(ls, key=KEY), lambda w: w.tag.authenticate(KEY), 'authenticate')
        add(nm + '/authenticate-wrong', 'tt3', lite_world(ls, key=KEY), lambda w: w.tag.authenticate(bytes(16)),
            'authenticate')
        add(nm + '/dump', 'tt3', fw, lambda w: w.tag.dump(), 'dump', lists=True)
        ak = lite_world(ls, key=KEY)
        add(nm + '/auth/ndef-read', 'tt3', ak, read_ndef, 'ndef', prep=prep_auth)
        add(nm + '/auth/read_with_mac', 'tt3', ak, lambda w: w.tag.read_with_mac(1, 2), 'read_with_mac', prep=prep_auth)

        def prep_auth_ndef(w):
            prep_auth(w)
            prep_ndef(w)
        add(nm + '/auth/ndef-write', 'tt3', ak, write_op(MSG2), 'NDEF.octets=', prep=prep_auth_ndef)
    # ---- Type 4 over ISO-DEP
    for fwi, tier in ((8, 'quick'), (10, 'quick'), (11, 'quick'), (14, 'thorough')):
        w4 = t4_world(fwi)
        nm = 't4/fwi%d' % fwi
        add(nm + '/ndef-read', 'tt4', w4, read_ndef, 'ndef', tier=tier)
        add(nm + '/ndef-write', 'tt4', w4, write_op(longmsg(100)), 'NDEF.octets=', prep=prep_ndef, tier=tier)
        add(nm + '/is_present', 'tt4', w4, lambda w: w.tag.is_present, 'is_present', tier=tier)
        add(nm + '/format-wipe', 'tt4', w4, lambda w: w.tag.format(wipe=0), 'format', tier=tier)
        add(nm + '/dump', 'tt4', w4, lambda w: w.tag.dump(), 'dump', lists=True, tier=tier)
        add(nm + '/protect', 'tt4', w4, lambda w: w.tag.protect(), 'protect', tier=tier)
    return L


# ------------------------------------------------------------------------------ one run
def run(scn, plan):
    w = scn.make()
    if scn.prep:
        with contextlib.redirect_stdout(io.StringIO()):
            scn.prep(w)
    w0 = len(w.writes())
    e0 = len(w.apdus()) if hasattr(w, 'apdus') else 0
    w.clf.arm(plan)
    obs = observe(lambda: scn.op(w))
    w.clf.plan = None
    return dict(obs=obs, trace=list(w.clf.trace), delivered=list(w.clf.delivered), calls=list(w.clf.calls),
                writes=w.writes()[w0:], memory=w.memory(), world=w,
                apdus=(w.apdus()[e0:] if hasattr(w, 'apdus') else None))


def main():
    ck = Check('C16')
    dbg = os.environ.get('C16_DEBUG')
    scns = scenarios()
    dist = {}
    for scn in scns:
        if dbg and dbg != '1' and not scn.name.startswith(dbg):
            continue
        base = run(scn, None)
        n = len(base['trace'])
        print('%-28s %3d cmds  %s' % (scn.name, n, str(base['obs'])[:100]))
        for pos in range(n):
            for kind in 'TXP':
                for burst in (1, 2, 3, 4):
                    for mode in ('req', 'rsp'):
                        r = run(scn, (pos, kind, burst, mode))
                        o = r['obs']
                        if o == base['obs']:
                            key = 'same'
                        else:
                            key = str(o[:3] if o[0] != 'val' else ('val', o[1] if not scn.lists else 'list'))[:90]
                        k = (scn.name, kind, burst, key)
                        dist[k] = dist.get(k, 0) + 1
    for k in sorted(dist):
        print(k, dist[k])


if __name__ == '__main__':
    main()
