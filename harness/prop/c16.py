"""C16 - tag commands retry transient errors and fail only as TagCommandError.

Obligations: Props/C16.v (retry_spec / no_double_apply / closedness of the retry loops of
Model/Retry.v for every fault script and budget; tag_ops_closed = ExnCheck evaluated on the
exception-flow skeletons of every public method of every tag class, Gen/TagSkel.v regenerated
from src/nfc/tag/*.py on this run).
Correspondence: real tag objects (nfc.tag.activate on a fault-injecting fake clf in front of the
tag simulators): every transceive()/send_cmd_recv_rsp() call observed during the sweep (attempt
outcomes, number of attempts, result) against the extracted Retry model; every exception class that
left a public method against the set the skeleton analysis computes for that class/method.
Monitor (from the property text): for each operation the fault-free command sequence is recorded,
then every position x kind x burst 1..4 x {command lost, response lost} is injected.
"""
import contextlib
import io
import json
import logging
import os
import sys

from common import Check

import nfc
import nfc.clf
import nfc.tag
import nfc.tag.tt1
import nfc.tag.tt2
import nfc.tag.tt3
import nfc.tag.tt4
import nfc.tag.tt2_nxp
import nfc.tag.tt3_sony

import sim.c16_faults as S

logging.disable(logging.CRITICAL)


class FixedOs(object):
    """replacement for the `os` module attribute of the vendor modules: deterministic challenges"""

    @staticmethod
    def urandom(n):
        return bytes((0x35 + 7 * i) % 256 for i in range(n))


nfc.tag.tt3_sony.os = FixedOs
nfc.tag.tt2_nxp.os = FixedOs
S.install_clock()          # simulated time for the tag modules (advanced by the fake frontend)

MSG = bytes.fromhex('d1010f5402656e') + b'hello, world'          # 19 byte NDEF text record
MSG2 = bytes.fromhex('d101255402656e') + b'a longer text that needs more blocks.'  # 41 byte
KEY = bytes(range(0x10, 0x20))


def longmsg(n):
    body = bytes((7 * i + 3) % 251 for i in range(n - 7))
    return bytes([0xC1, 0x01, 0, 0, len(body) >> 8, len(body) & 255, 0x54]) + body


# ------------------------------------------------------------------------------ observation
def canon(v):
    if isinstance(v, (bytes, bytearray)):
        return 'h:' + bytes(v).hex()
    if isinstance(v, nfc.tag.Tag.NDEF):
        return ('ndef', v.is_readable, v.is_writeable, v.capacity, bytes(v.octets).hex())
    if isinstance(v, nfc.tag.Tag):
        return ('tag', type(v).__name__)
    if isinstance(v, (list, tuple)):
        return tuple(canon(x) for x in v)
    return v


def raise_site(e):
    """innermost frame inside the nfc package: file:function"""
    site = '?'
    tb = e.__traceback__
    while tb is not None:
        fn = tb.tb_frame.f_code.co_filename
        if os.sep + 'nfc' + os.sep in fn:
            site = '%s:%s' % (os.path.basename(fn), tb.tb_frame.f_code.co_name)
        tb = tb.tb_next
    return site


def observe(fn):
    out = io.StringIO()
    try:
        with contextlib.redirect_stdout(out), S.CLOCK:
            v = fn()
    except nfc.tag.TagCommandError as e:
        return ('tce', type(e).__name__, e.errno)
    except nfc.clf.CommunicationError as e:
        return ('raw', type(e).__name__)
    except S.Runaway:
        return ('runaway',)
    except Exception as e:  # noqa
        return ('exc', type(e).__name__, str(e)[:80], raise_site(e))
    return ('val', canon(v))


# ------------------------------------------------------------------------------ scenarios
class Scn(object):
    """name; make() -> World; prep(world) fault-free preparation; op(world) -> value;
    fail = values documented for failure; method = (public method name for the skeleton lookup)"""

    def __init__(self, name, ttype, make, op, method, prep=None, fail=(None, False), tier='quick', lists=False, slow=0.05):
        self.name, self.ttype, self.make, self.op, self.method = name, ttype, make, op, method
        self.prep, self.fail, self.tier, self.lists, self.slow = prep, fail, tier, lists, slow


def read_ndef(w):
    return w.tag.ndef


def prep_ndef(w):
    assert w.tag.ndef is not None, 'scenario without NDEF'


def write_op(data):
    def op(w):
        w.tag.ndef.octets = data
        return True
    return op


def t2_generic(npages=None, ndef=None, **kw):
    def make():
        mem = S.t2_memory(npages or VAR['t2pages'], MSG if ndef is None else ndef, **kw)
        mem[0] = 0x02          # not an NXP uid: generic Type2Tag
        return S.TlvWorld(S.T2TSim(mem), 'Type2Tag')
    return make


def t2_nxp(npages, version, expect, ndef=None, blank=False):
    def make():
        mem = S.t2_memory(npages, MSG if ndef is None else ndef)
        if blank:           # capability container present, data area empty: no NDEF TLV
            mem[16:4 * npages] = bytes(4 * npages - 16)
        return S.TlvWorld(S.T2TSim(mem, version=version), expect)
    return make


def t1_world(dynamic, expect, ndef=None, hr=None, blank=False):
    def make():
        h, m = S.t1_memory(dynamic, MSG if ndef is None else ndef, blank)
        return S.TlvWorld(S.T1TSim(hr or h, m), expect)
    return make


VAR = {'nbr': 4, 'nbw': 2, 't2pages': 16, 'round': 0}      # varied in the thorough tier


def t3_world(nblocks=12, ndef=None, **kw):
    def make():
        k = dict(nbr=VAR['nbr'], nbw=VAR['nbw'])
        k.update(kw)
        return S.T3World(S.t3_blocks(nblocks, MSG2 if ndef is None else ndef, **k))
    return make


def lite_world(lites, ndef=None, formatted=True, key=None):
    def make():
        return S.LiteWorld(lites, S.lite_init(MSG if ndef is None else ndef, formatted=formatted, key=key))
    return make


def t4_world(fwi, ndef=None, fsci=8, cmiu=253, wtx=(), **kw):
    def make():
        return S.T4World(S.t4_card(MSG if ndef is None else ndef, **kw), fwi=fwi, fsci=fsci, cmiu=cmiu, wtx=wtx)
    return make


def prep_auth(w):
    assert w.tag.authenticate(KEY) is True


def scenarios():
    L = []

    def add(*a, **k):
        L.append(Scn(*a, **k))

    # ---- Type 2 generic
    g = t2_generic()
    add('t2/ndef-read', 'tt2', g, read_ndef, 'ndef')
    add('t2/ndef-write', 'tt2', g, write_op(MSG2), 'NDEF.octets=', prep=prep_ndef)
    add('t2/is_present', 'tt2', g, lambda w: w.tag.is_present, 'is_present')
    add('t2/format', 'tt2', g, lambda w: w.tag.format(), 'format')
    add('t2/format-wipe', 'tt2', g, lambda w: w.tag.format(wipe=0x5A), 'format')
    add('t2/protect', 'tt2', g, lambda w: w.tag.protect(), 'protect')
    add('t2/protect-pw', 'tt2', g, lambda w: w.tag.protect(b'123456'), 'protect')
    add('t2/authenticate', 'tt2', g, lambda w: w.tag.authenticate(b'123456'), 'authenticate')
    add('t2/dump', 'tt2', g, lambda w: w.tag.dump(), 'dump', lists=True)
    add('t2/read', 'tt2', g, lambda w: w.tag.read(4), 'read')
    add('t2/write', 'tt2', g, lambda w: w.tag.write(9, b'abcd'), 'write')
    add('t2/transceive', 'tt2', g, lambda w: w.tag.transceive(b'\x30\x08', retries=3), 'transceive')
    big = t2_generic(npages=100, ndef=longmsg(300))
    add('t2/ndef-read-long', 'tt2', big, read_ndef, 'ndef')
    add('t2/ndef-write-long', 'tt2', big, write_op(longmsg(280)), 'NDEF.octets=', prep=prep_ndef)
    sec = t2_generic(npages=520, ndef=longmsg(1040), size_byte=255)
    add('t2/sector/ndef-read', 'tt2', sec, read_ndef, 'ndef', tier='sample')
    add('t2/sector/ndef-write', 'tt2', sec, write_op(longmsg(1030)), 'NDEF.octets=', prep=prep_ndef, tier='sample')
    add('t2/sector/sector_select', 'tt2', sec, lambda w: w.tag.sector_select(1), 'sector_select')
    add('t2/sector/sector_select-none', 'tt2', sec, lambda w: w.tag.sector_select(3), 'sector_select')
    # ---- Type 2 NXP products
    ul = t2_nxp(16, None, 'MifareUltralight')
    add('ul/ndef-read', 'tt2', ul, read_ndef, 'ndef')
    add('ul/dump', 'tt2', ul, lambda w: w.tag.dump(), 'dump', lists=True)
    n203 = t2_nxp(42, b'\x00', 'NTAG203')
    add('ntag203/ndef-write', 'tt2', n203, write_op(MSG2), 'NDEF.octets=', prep=prep_ndef)
    add('ntag203/protect', 'tt2', n203, lambda w: w.tag.protect(), 'protect')
    add('ntag203/dump', 'tt2', n203, lambda w: w.tag.dump(), 'dump', lists=True)
    add('ntag203/format-blank', 'tt2', t2_nxp(42, b'\x00', 'NTAG203', blank=True), lambda w: w.tag.format(), 'format')
    v213 = bytes.fromhex('0004040201000F03')
    n213 = t2_nxp(45, v213, 'NTAG213')
    add('ntag213/ndef-read', 'tt2', n213, read_ndef, 'ndef')
    add('ntag213/protect', 'tt2', n213, lambda w: w.tag.protect(), 'protect')
    add('ntag213/dump', 'tt2', n213, lambda w: w.tag.dump(), 'dump', lists=True)
    add('ntag213/format-blank', 'tt2', t2_nxp(45, v213, 'NTAG213', blank=True), lambda w: w.tag.format(), 'format')
    add('ntag215/format-blank', 'tt2', t2_nxp(135, bytes.fromhex('0004040201001103'), 'NTAG215', blank=True),
        lambda w: w.tag.format(), 'format', tier='thorough')
    add('ntag210/dump', 'tt2', t2_nxp(20, bytes.fromhex('0004040101000B03'), 'NTAG210'), lambda w: w.tag.dump(), 'dump',
        lists=True, tier='thorough')
    add('mf0ul11/dump', 'tt2', t2_nxp(20, bytes.fromhex('0004030101000B03'), 'MF0UL11'), lambda w: w.tag.dump(), 'dump',
        lists=True)
    add('mf0ul21/dump', 'tt2', t2_nxp(41, bytes.fromhex('0004030101000E03'), 'MF0UL21'), lambda w: w.tag.dump(), 'dump',
        lists=True, tier='thorough')
    add('nt3h1101/dump', 'tt2', t2_nxp(1024, bytes.fromhex('0004040502011303'), 'NT3H1101'), lambda w: w.tag.dump(), 'dump',
        lists=True, tier='sample')
    pw = lambda: S.NtagWorld(41)  # noqa
    add('ntag213pw/protect-pw', 'tt2', pw, lambda w: w.tag.protect(b'abcdef', protect_from=4), 'protect')
    add('ntag213pw/protect-pw-ndef', 'tt2', pw, lambda w: w.tag.protect(b'abcdef', read_protect=True), 'protect')
    add('ntag213pw/authenticate', 'tt2', pw, lambda w: w.tag.authenticate(b''), 'authenticate')
    add('ntag213pw/authenticate-wrong', 'tt2', pw, lambda w: w.tag.authenticate(b'zzzzzz'), 'authenticate')
    ulc = lambda: S.UlcWorld(MSG)  # noqa
    add('ulc/ndef-read', 'tt2', ulc, read_ndef, 'ndef')
    add('ulc/authenticate', 'tt2', ulc, lambda w: w.tag.authenticate(b''), 'authenticate')
    add('ulc/authenticate-wrong', 'tt2', ulc, lambda w: w.tag.authenticate(b'0123456789abcdef'), 'authenticate')
    add('ulc/protect-pw', 'tt2', ulc, lambda w: w.tag.protect(b'0123456789abcdef', protect_from=10), 'protect')
    add('ulc/protect', 'tt2', ulc, lambda w: w.tag.protect(), 'protect')
    add('ulc/dump', 'tt2', ulc, lambda w: w.tag.dump(), 'dump', lists=True)
    # ---- Type 1
    tz = t1_world(False, 'Topaz')
    add('topaz/ndef-read', 'tt1', tz, read_ndef, 'ndef')
    add('topaz/ndef-write', 'tt1', tz, write_op(MSG2), 'NDEF.octets=', prep=prep_ndef)
    add('topaz/is_present', 'tt1', tz, lambda w: w.tag.is_present, 'is_present')
    add('topaz/format', 'tt1', tz, lambda w: w.tag.format(), 'format')
    add('topaz/format-blank-wipe', 'tt1', t1_world(False, 'Topaz', blank=True), lambda w: w.tag.format(wipe=0), 'format')
    add('topaz/protect', 'tt1', tz, lambda w: w.tag.protect(), 'protect')
    add('topaz/dump', 'tt1', tz, lambda w: w.tag.dump(), 'dump', lists=True)
    add('topaz/read_id', 'tt1', tz, lambda w: w.tag.read_id(), 'read_id')
    add('topaz/read_all', 'tt1', tz, lambda w: w.tag.read_all(), 'read_all')
    add('topaz/read_byte', 'tt1', tz, lambda w: w.tag.read_byte(9), 'read_byte')
    add('topaz/write_byte', 'tt1', tz, lambda w: w.tag.write_byte(40, 0x5A), 'write_byte')
    add('topaz/write_byte-ne', 'tt1', tz, lambda w: w.tag.write_byte(41, 0x0F, erase=False), 'write_byte')
    t5 = t1_world(True, 'Topaz512')
    add('topaz512/read_block', 'tt1', t5, lambda w: w.tag.read_block(20), 'read_block')
    add('topaz512/write_block', 'tt1', t5, lambda w: w.tag.write_block(20, bytearray(b'12345678')), 'write_block', fail=(None,))
    add('topaz512/read_segment', 'tt1', t5, lambda w: w.tag.read_segment(1), 'read_segment')
    add('topaz512/ndef-read', 'tt1', t5, read_ndef, 'ndef')
    add('topaz512/ndef-write', 'tt1', t5, write_op(longmsg(200)), 'NDEF.octets=', prep=prep_ndef)
    add('topaz512/format', 'tt1', t5, lambda w: w.tag.format(), 'format')
    add('topaz512/protect', 'tt1', t5, lambda w: w.tag.protect(), 'protect')
    add('topaz512/dump', 'tt1', t5, lambda w: w.tag.dump(), 'dump', lists=True)
    g1 = t1_world(False, 'Type1Tag', hr=b'\x11\x00')
    add('t1/ndef-read', 'tt1', g1, read_ndef, 'ndef')
    add('t1/ndef-write', 'tt1', g1, write_op(MSG2), 'NDEF.octets=', prep=prep_ndef)
    add('t1/protect', 'tt1', g1, lambda w: w.tag.protect(), 'protect')
    add('t1/format', 'tt1', g1, lambda w: w.tag.format(), 'format')
    add('t1/dump', 'tt1', g1, lambda w: w.tag.dump(), 'dump', lists=True)
    # ---- Type 3 generic
    g3 = t3_world()
    add('t3/ndef-read', 'tt3', g3, read_ndef, 'ndef')
    add('t3/ndef-write', 'tt3', g3, write_op(MSG + MSG2), 'NDEF.octets=', prep=prep_ndef)
    add('t3/is_present', 'tt3', g3, lambda w: w.tag.is_present, 'is_present')
    add('t3/format', 'tt3', g3, lambda w: w.tag.format(), 'format')
    add('t3/format-wipe', 'tt3', t3_world(6), lambda w: w.tag.format(version=0x10, wipe=0), 'format')
    add('t3/dump', 'tt3', g3, lambda w: w.tag.dump(), 'dump', lists=True)
    add('t3/protect', 'tt3', g3, lambda w: w.tag.protect(), 'protect')
    add('t3/polling', 'tt3', g3, lambda w: w.tag.polling(0x12FC, request_code=1), 'polling')
    add('t3/read_from_ndef_service', 'tt3', g3, lambda w: w.tag.read_from_ndef_service(1, 2), 'read_from_ndef_service')
    add('t3/write_to_ndef_service', 'tt3', g3, lambda w: w.tag.write_to_ndef_service(bytearray(range(32)), 3, 4),
        'write_to_ndef_service', fail=(None,))
    add('t3/read_without_encryption', 'tt3', g3,
        lambda w: w.tag.read_without_encryption([nfc.tag.tt3.ServiceCode(0, 11)], [nfc.tag.tt3.BlockCode(0)]),
        'read_without_encryption')
    add('t3/dump_service', 'tt3', t3_world(5), lambda w: w.tag.dump_service(nfc.tag.tt3.ServiceCode(0, 11)), 'dump_service',
        lists=True)
    fs = lambda: S.FelicaStandardWorld(S.t3_blocks(8, MSG2))  # noqa
    add('felica-std/is_present', 'tt3', fs, lambda w: w.tag.is_present, 'is_present')
    add('felica-std/ndef-read', 'tt3', fs, read_ndef, 'ndef')
    add('felica-std/ndef-write', 'tt3', fs, write_op(MSG), 'NDEF.octets=', prep=prep_ndef)
    add('felica-std/dump', 'tt3', fs, lambda w: w.tag.dump(), 'dump', lists=True)
    add('felica-std/request_response', 'tt3', fs, lambda w: w.tag.request_response(), 'request_response')
    add('felica-std/search_service_code', 'tt3', fs, lambda w: w.tag.search_service_code(1), 'search_service_code')
    add('felica-std/request_system_code', 'tt3', fs, lambda w: w.tag.request_system_code(), 'request_system_code')
    def fs_odd():
        w = S.FelicaStandardWorld(S.t3_blocks(8, MSG2))
        w.sim.listing = [(0x0000, 0xFFFE), (0x0041,), (0x000B,)]      # a service that is neither random, cyclic nor purse
        return w
    add('felica-std/dump-unknown-service-type', 'tt3', fs_odd, lambda w: w.tag.dump(), 'dump', lists=True)
    add('felica-std/request_service', 'tt3', fs, lambda w: w.tag.request_service([nfc.tag.tt3.ServiceCode(0, 11)]),
        'request_service')
    # ---- FeliCa Lite / Lite-S
    for nm, ls in (('lite', False), ('lites', True)):
        fw = lite_world(ls)
        add(nm + '/ndef-read', 'tt3', fw, read_ndef, 'ndef')
        add(nm + '/ndef-write', 'tt3', fw, write_op(MSG2), 'NDEF.octets=', prep=prep_ndef)
        add(nm + '/is_present', 'tt3', fw, lambda w: w.tag.is_present, 'is_present')
        add(nm + '/format', 'tt3', lite_world(ls, formatted=False), lambda w: w.tag.format(), 'format')
        add(nm + '/format-wipe', 'tt3', fw, lambda w: w.tag.format(wipe=0x20), 'format')
        add(nm + '/protect', 'tt3', fw, lambda w: w.tag.protect(), 'protect')
        add(nm + '/protect-pw', 'tt3', fw, lambda w: w.tag.protect(KEY, protect_from=2), 'protect')
        add(nm + '/authenticate', 'tt3', lite_world(ls, key=KEY), lambda w: w.tag.authenticate(KEY), 'authenticate')
        add(nm + '/authenticate-wrong', 'tt3', lite_world(ls, key=KEY), lambda w: w.tag.authenticate(bytes(16)),
            'authenticate')
        add(nm + '/dump', 'tt3', fw, lambda w: w.tag.dump(), 'dump', lists=True)
        add(nm + '/read_without_mac', 'tt3', fw, lambda w: w.tag.read_without_mac(0, 1), 'read_without_mac')
        add(nm + '/write_without_mac', 'tt3', fw, lambda w: w.tag.write_without_mac(bytearray(range(16)), 5), 'write_without_mac',
            fail=(None,))
        ak = lite_world(ls, key=KEY)
        add(nm + '/auth/ndef-read', 'tt3', ak, read_ndef, 'ndef', prep=prep_auth)
        add(nm + '/auth/read_with_mac', 'tt3', ak, lambda w: w.tag.read_with_mac(1, 2), 'read_with_mac', prep=prep_auth)

        def prep_auth_ndef(w):
            prep_auth(w)
            prep_ndef(w)
        add(nm + '/auth/ndef-write', 'tt3', ak, write_op(MSG2), 'NDEF.octets=', prep=prep_auth_ndef)
        if ls:
            add(nm + '/auth/write_with_mac', 'tt3', ak, lambda w: w.tag.write_with_mac(bytearray(range(16)), 6), 'write_with_mac',
                prep=prep_auth, fail=(None,))
    # ---- Type 4 over ISO-DEP
    for fwi, tier in ((8, 'quick'), (10, 'quick'), (11, 'quick'), (14, 'thorough')):
        w4 = t4_world(fwi)
        nm = 't4/fwi%d' % fwi
        add(nm + '/ndef-read', 'tt4', w4, read_ndef, 'ndef', tier=tier)
        add(nm + '/ndef-write', 'tt4', w4, write_op(longmsg(100)), 'NDEF.octets=', prep=prep_ndef, tier=tier)
        add(nm + '/is_present', 'tt4', w4, lambda w: w.tag.is_present, 'is_present', tier=tier)
        add(nm + '/format-wipe', 'tt4', w4, lambda w: w.tag.format(wipe=0), 'format', tier=tier)
        add(nm + '/dump', 'tt4', w4, lambda w: w.tag.dump(), 'dump', lists=True, tier=tier)
        add(nm + '/protect', 'tt4', w4, lambda w: w.tag.protect(), 'protect', tier=tier)
        add(nm + '/send_apdu', 'tt4', w4, lambda w: w.tag.send_apdu(0, 0xA4, 0x04, 0x00, bytes.fromhex('D2760000850101'), 256),
            'send_apdu', tier=tier)
        add(nm + '/transceive', 'tt4', w4, lambda w: w.tag.transceive(bytes.fromhex('00A4040007D276000085010100')),
            'transceive', tier=tier)
    # ---- Type 4: responses chained over 2, 6, 7 and 12 blocks (READ BINARY of a long NDEF file with Le = MLe, the card
    #      sends 16 INF bytes per block), commands chained over several blocks (FSCI 0-2: FSC 16/24/32)
    for mle, nblk in ((30, 2), (94, 6), (110, 7), (190, 12)):
        for fwi in (8, 10, 11):
            if fwi != 8 and nblk in (6, 12):
                continue
            wc = t4_world(fwi, ndef=longmsg(230), cmiu=16, mle=mle, mlc=48, mfs=512)
            nm = 't4/chain%d/fwi%d' % (nblk, fwi)
            add(nm + '/ndef-read', 'tt4', wc, read_ndef, 'ndef')
            if fwi == 8:
                add(nm + '/dump', 'tt4', wc, lambda w: w.tag.dump(), 'dump', lists=True,
                    tier='quick' if nblk in (2, 7) else 'thorough')
    # ---- slow cards on the simulated clock: every answer takes 95 % of the granted time, a timeout all of it.
    #      FeliCa PMm time bytes FFh (0.3 s for one block, 2.5 s for 15 blocks), Type 4 with FWI 14 (4.9 s per block) and with
    #      S(WTX) requests (WTXM up to 59): single commands take more than 1 s / 10 s of simulated time
    s3 = t3_world(20, ndef=longmsg(250), nbr=15, nbw=12)
    add('slow/t3/ndef-read', 'tt3', s3, read_ndef, 'ndef', slow=0.95)
    add('slow/t3/ndef-write', 'tt3', s3, write_op(longmsg(240)), 'NDEF.octets=', prep=prep_ndef, slow=0.95)
    add('slow/t3/is_present', 'tt3', s3, lambda w: w.tag.is_present, 'is_present', slow=0.95)
    add('slow/t3/dump', 'tt3', t3_world(6, nbr=4, nbw=2), lambda w: w.tag.dump(), 'dump', lists=True, slow=0.95)
    add('slow/lites/ndef-read', 'tt3', lite_world(True), read_ndef, 'ndef', slow=0.95)
    add('slow/topaz512/ndef-read', 'tt1', t1_world(True, 'Topaz512'), read_ndef, 'ndef', slow=0.95)
    add('slow/t2/ndef-read', 'tt2', t2_generic(npages=36), read_ndef, 'ndef', slow=0.95)
    add('slow/t4/fwi14/ndef-read', 'tt4', t4_world(14), read_ndef, 'ndef', slow=0.95)
    add('slow/t4/fwi11/ndef-read', 'tt4', t4_world(11, ndef=longmsg(100), cmiu=32, mle=94), read_ndef, 'ndef', slow=0.95)
    wx = ((), (3,), (), (59,), (2, 1), (), (59, 59))
    add('slow/t4/wtx/fwi8/ndef-read', 'tt4', t4_world(8, wtx=wx), read_ndef, 'ndef', slow=0.95)
    add('slow/t4/wtx/fwi14/ndef-write', 'tt4', t4_world(14, wtx=wx), write_op(longmsg(100)), 'NDEF.octets=', prep=prep_ndef,
        slow=0.95)
    for fsci in (0, 2):
        wf = t4_world(8, ndef=longmsg(60), fsci=fsci, cmiu=13, mle=40, mlc=40, mfs=256)
        nm = 't4/fsci%d' % fsci
        add(nm + '/ndef-read', 'tt4', wf, read_ndef, 'ndef')
        add(nm + '/ndef-write', 'tt4', wf, write_op(longmsg(90)), 'NDEF.octets=', prep=prep_ndef)
    # chained COMMANDS: UPDATE BINARY longer than FSC-3 for FSC 16 .. 64 (2 .. 16 I-blocks per command); the card
    # concatenates what it receives: the APDU it executes must be the APDU that was sent, exactly once
    for fsci, mlc, fwi in ((0, 200, 8), (1, 100, 10), (2, 59, 8), (3, 80, 11), (4, 200, 8), (5, 130, 8)):
        wf = t4_world(fwi, ndef=longmsg(40), fsci=fsci, cmiu=29, mle=60, mlc=mlc, mfs=512)
        nm = 't4/cmdchain/fsc%d' % (16, 24, 32, 40, 48, 64)[fsci]
        add(nm + '/ndef-write', 'tt4', wf, write_op(longmsg(230)), 'NDEF.octets=', prep=prep_ndef,
            tier='quick' if fsci in (0, 2, 3, 5) else 'thorough')
        add(nm + '/send_apdu', 'tt4', wf,
            lambda w, mlc=mlc: w.tag.send_apdu(0, 0xD6, 0, 2, bytes((5 * i + 1) % 256 for i in range(mlc))), 'send_apdu',
            prep=prep_ndef)
    return L


# ------------------------------------------------------------------------------ one run
LINK_DOWN = 10 ** 6


def run(scn, plan, history=0, plan2=None):
    """history = k: before the observed operation the SAME tag object goes through k uses of the operation while the
    link is down (every exchange fails, nothing reaches the tag: 1st timeouts, 2nd transmission errors, 3rd protocol errors)"""
    w = scn.make()
    w.clf.slow = scn.slow
    if scn.prep:
        with contextlib.redirect_stdout(io.StringIO()), S.CLOCK:
            scn.prep(w)
    for h in range(history):
        w.clf.arm((0, 'TXP'[h % 3], LINK_DOWN, 'req'))
        observe(lambda: scn.op(w))
        w.clf.plan = None
    w0 = len(w.writes())
    e0 = len(w.apdus()) if hasattr(w, 'apdus') else 0
    s0 = len(w.sent) if hasattr(w, 'sent') else 0
    w.clf.arm(plan, plan2)
    obs = observe(lambda: scn.op(w))
    w.clf.plan = w.clf.plan2 = None
    return dict(obs=obs, trace=list(w.clf.trace), delivered=list(w.clf.delivered), calls=list(w.clf.calls),
                writes=w.writes()[w0:], memory=w.memory(), world=w, longest=w.clf.longest,
                apdus=(w.apdus()[e0:] if hasattr(w, 'apdus') else None),
                sent=(w.sent[s0:] if hasattr(w, 'sent') else None))


def class_id(tag):
    return '%s.%s' % (type(tag).__module__.split('.')[-1], type(tag).__name__)


TYPE_ERR = {'tt1': 'Type1TagCommandError', 'tt2': 'Type2TagCommandError', 'tt3': 'Type3TagCommandError',
            'tt4': 'Type4TagCommandError'}
# exception classes that exist in the skeleton language (explicit raises); everything else is implicit
SKEL_CLASSES = {'TagCommandError', 'Type1TagCommandError', 'Type2TagCommandError', 'Type3TagCommandError',
                'Type4TagCommandError', 'ValueError', 'UnicodeError', 'RuntimeError', 'NotImplementedError',
                'AttributeError', 'TypeError', 'AssertionError', 'KeyError', 'IndexError'}


# documented argument / state checks (ValueError: bad lengths, addresses, passwords; AttributeError: NDEF area not writeable)
DOCUMENTED_EXC = {'ValueError', 'AttributeError'}


class Sweep(object):
    def __init__(self, ck, mr):
        self.ck, self.mr = ck, mr
        self.model_q = {}          # model line -> (expected, sample case)
        self.pred = {}             # (class, entry) -> set of class names
        self.members = set()       # (class, entry, observed exception class)
        self.nstrict = 0

    # -------------------------------------------------------------- budgets (from the property's anchors)
    def budget_table(self, scn, base):
        """per fault-free position: attempts that remain for the command sent there, or None"""
        out = {}
        w = base['world']
        if scn.ttype == 'tt4':
            for i in range(len(base['trace'])):
                out[i] = ('isodep', w.n_retry)
            return out
        for c in base['calls']:
            n = 3 if scn.ttype in ('tt1', 'tt3') else 1 + c['retries']
            for j in range(len(c['attempts'])):
                out[c['first'] + j] = ('loop', n - j)
        return out

    def strict(self, scn, base, bud, plan):
        """does the property demand the exact fault-free result for this injection?"""
        pos, kind, burst, mode = plan
        if kind not in 'TXP':
            return False
        cmd, outcome, rsp0 = base['trace'][pos]
        if outcome != 'A':
            return False           # a command that is not answered in the fault-free run (passive ack, probing)
        b = bud.get(pos)
        if b is None:
            return False
        if b[0] == 'isodep':
            # ISO-DEP: timeouts and transmission errors are retried n_retry times (tt4.py:88-168, property C12);
            # a ProtocolError reported by the driver is unrecoverable by the NFC Forum Digital protocol rules
            return kind in 'TX' and burst <= b[1]
        return burst < b[1]

    # -------------------------------------------------------------- the monitor
    def check(self, scn, base, bud, plan, r, history=0):
        ck = self.ck
        pos, kind, burst, mode = plan
        cid = class_id(base['world'].tag)
        o = r['obs']
        case = {'scenario': scn.name, 'class': cid, 'method': scn.method, 'plan': list(plan), 'observed': list(map(str, o)),
                'fault_free': str(base['obs'])[:200], 'command': base['trace'][pos][0].hex(),
                'wire': ['%s:%s' % (t[0].hex()[:24], t[1]) for t in r['trace'][max(0, pos - 1):pos + burst + 3]]}
        if history:
            case['history'] = history
            case['note'] = 'the same tag object was used %d time(s) before while the link was down' % history
        kname = S.KIND_NAME[kind]

        def viol(what_key, text, site=None):
            if site is not None:          # crash-type exceptions are identified by the raising function
                ck.violation('%s@%s' % (what_key, site), text, case)
            elif what_key == 'not-survived':
                ck.violation('%s:%s:%s%s' % (what_key, cid, scn.method, ':after-failed-use' if history else ''), text, case)
            else:
                ck.violation('%s:%s:%s:%s' % (what_key, cid, scn.method, kname), text, case)
        # (1) never a raw CommunicationError or an unrelated exception
        if o[0] == 'raw':
            viol('raw-commerror', 'a raw nfc.clf.%s reaches the application' % o[1])
        elif o[0] == 'runaway':
            viol('unbounded', 'the operation does not stop repeating commands')
        elif o[0] == 'exc' and o[1] in DOCUMENTED_EXC and o[:3] == base['obs'][:3]:
            pass                   # the documented argument check of the fault-free run
        elif o[0] == 'exc':
            if kind in 'TXP' or not (o[1] == 'RuntimeError' and o[2].startswith('unexpected ')):
                viol('unrelated-exception:' + o[1], '%s (%s) reaches the application' % (o[1], o[2]), site=o[3])
        elif o[0] == 'tce':
            if o[1] != TYPE_ERR[scn.ttype]:
                viol('wrong-error-class:' + o[1], 'TagCommandError of another tag type')
            elif kind in 'TXP' and o[2] <= 0 and o[2] != S.KIND_ERRNO[kind]:
                viol('reason-code:%d' % o[2], 'reason code %d does not match the persistent %s error' % (o[2], kname))
            elif kind in 'TXP' and r['trace'] and r['trace'][-1][1] in (kind, kind.lower()) and o[2] != S.KIND_ERRNO[kind]:
                # the last thing on the air was the injected error: the TagCommandError is about that error (a tag
                # specific code > 0 needs a tag that answered something afterwards)
                viol('reason-code:%d' % o[2], 'the operation ends on the %s error with reason code %d instead of %d'
                     % (kname, o[2], S.KIND_ERRNO[kind]))
        else:
            v = o[1]
            ok = (o == base['obs']) or any(v is f or (f is not None and f is not False and v == canon(f)) for f in scn.fail) \
                or (scn.lists and isinstance(v, tuple) and all(isinstance(x, str) for x in v))
            if not ok:
                viol('undocumented-result', 'result is neither the fault-free one nor a documented failure value')
        # (2) an answered command is never sent again (per tag-level command; Type 1/2/3)
        for c in r['calls']:
            att = c['attempts']
            n = 3 if scn.ttype in ('tt1', 'tt3') else 1 + c['retries']
            if 'A' in att[:-1]:
                viol('resent-after-answer', 'a command that was answered is sent again')
            if len(att) > max(n, 0):
                viol('budget-exceeded', 'more attempts (%d) than the budget (%d)' % (len(att), n))
        # (2b) Type 4: the card never executes anything but an APDU the tag layer sent (block chaining must reassemble
        #      the command exactly), whatever the faults
        if scn.ttype == 'tt4' and r['apdus'] is not None:
            for a in r['apdus']:
                if a not in r['sent']:
                    case['executed_apdu'] = a.hex()
                    viol('corrupted-apdu', 'the card executed an APDU that was never sent (%d bytes)' % len(a))
                    break
        # (3) within the budget: exact result, same tag state, same answered commands
        if self.strict(scn, base, bud, plan):
            lost = [t[2] for t in r['trace'][pos:pos + burst] if t[1] == kind and t[2] is not None]
            if mode == 'rsp' and len(r['trace']) > pos + burst and r['trace'][pos + burst][0] == base['trace'][pos][0] \
                    and r['trace'][pos + burst][1] == 'A':
                lost.append(r['trace'][pos + burst][2])      # the tag's answer to the re-sent command
            idem = all(x == base['trace'][pos][2] for x in lost)
            if not idem and scn.ttype != 'tt4':
                # (Type 4: ISO-DEP blocks are numbered, the protocol never re-sends an answered block; what the card
                #  answers to a repeated block is no excuse)
                ck.count('retry-answered-differently-by-tag')
                return
            self.nstrict += 1
            if o != base['obs']:
                viol('not-survived', 'a burst of %d %s error(s) within the budget changes the result' % (burst, kname))
            elif r['memory'] != base['memory']:
                viol('tag-state-differs', 'burst within the budget: result as fault-free but the tag memory differs')
            elif scn.ttype == 'tt4':
                if r['apdus'] != r['sent']:
                    viol('apdu-not-exactly-once', 'burst within the budget: the APDUs executed by the card are not the APDUs '
                         'sent, each exactly once')
                elif r['apdus'] != base['apdus']:
                    viol('apdu-sequence-differs', 'burst within the budget: the card executed another APDU sequence')
            else:
                a1 = [c for (c, a) in r['delivered'] if a]
                a0 = [c for (c, a) in base['delivered'] if a]
                if a1 != a0:
                    viol('answered-sequence-differs', 'burst within the budget: the sequence of answered commands differs')
        # bookkeeping for the correspondences
        if o[0] in ('tce', 'exc') and o[1] in SKEL_CLASSES:
            self.members.add((cid, scn.method, o[1], kind in 'TXP'))
        for c in r['calls']:
            self.model_call(scn, c, case)
        if scn.ttype == 'tt4' and scn.method == 'is_present':
            other = {'B': 'O', 'C': 'O', 'b': 'o', 'c': 'o', 's': 'T'}
            line = 'present4 ' + ''.join(other.get(t[1], t[1]) for t in r['trace']) + 'A'
            exp = '%s %d' % ('true' if o == ('val', True) else 'false' if o == ('val', False) else str(o), len(r['trace']))
            self.model_q.setdefault((line, exp), case)

    # -------------------------------------------------------------- correspondence with the Retry model
    def model_call(self, scn, c, case):
        other = {'B': 'O', 'C': 'O', 'b': 'o', 'c': 'o', 's': 'T'}     # every other class is FOther; silence = timeout
        letters = ''.join(other.get(a, a) for a in c['attempts'])
        line = 'retry %s 1 %d %d %s' % (scn.ttype, c['retries'], 1 if c['present'] else 0, (letters + 'A') if letters else 'A')
        if c['res'][0] == 'ok':
            res = 'ok'
        elif c['res'][0] == 'tce':
            res = 'ok' if (c['res'][1] > 0 and 'A' in c['attempts']) else 'err TagCommandError:%d' % c['res'][1]
        else:
            res = 'err ' + c['res'][1] if c['res'][1] == 'RuntimeError' else ('ok' if 'A' in c['attempts'] else 'exc ' + c['res'][1])
        exp = '%d %s %s' % (len(c['attempts']), res, c['delivered'] or '-')
        key = (line, exp)
        if key not in self.model_q:
            self.model_q[key] = case

    def compare_models(self):
        ck = self.ck
        if self.mr is None:
            return
        keys = sorted(self.model_q)
        got = self.mr.run([k[0] for k in keys])
        n = 0
        for (line, exp), g in zip(keys, got):
            if g != exp:
                ck.correspondence_mismatch('retry-model', dict(self.model_q[(line, exp)], query=line, model=g, impl=exp))
            else:
                n += 1
        ck.cov['retry_model_lines_agreeing'] = n
        # skeleton membership
        qs, idx = [], []
        for (cid, entry, cls, named) in sorted(self.members):
            qs.append('escapes %s %s %s' % (cid, entry, 'named' if named else 'any'))
            idx.append((cid, entry, cls))
        got = self.mr.run(qs) if qs else []
        m = 0
        for (cid, entry, cls), g in zip(idx, got):
            pred = set() if g == '-' else set(g.split(','))
            if g.startswith('?') or cls not in pred:
                ck.correspondence_mismatch('skeleton-membership', {'class': cid, 'entry': entry, 'observed': cls, 'predicted': g})
            else:
                m += 1
        ck.cov['skeleton_membership_checks'] = m

    # -------------------------------------------------------------- histories on one long-lived tag object
    def history_sweep(self, scn, base, quick, depths=(1,)):
        """the operation was used before on the SAME object while the link was down (it failed for good); afterwards the
        documented retry behaviour must hold exactly as on a fresh object: a single transient error at every position"""
        ck = self.ck
        cid = class_id(base['world'].tag)
        for h in depths:
            bh = run(scn, None, history=h)
            if bh['obs'] != base['obs'] or bh['memory'] != base['memory']:
                ck.violation('not-survived:%s:%s:after-failed-use' % (cid, scn.method),
                             'after %d use(s) of the operation with the link down the fault-free operation on the same tag '
                             'object differs from the one on a fresh object' % h,
                             {'scenario': scn.name, 'class': cid, 'method': scn.method, 'plan': None, 'history': h,
                              'observed': list(map(str, bh['obs'])), 'fault_free': str(base['obs'])[:200]})
                continue
            bud = self.budget_table(scn, bh)
            for pos in self.positions(scn, bh, quick):
                passive = scn.ttype == 'tt2' and pos > 0 and bh['trace'][pos - 1][0] == b'\xC2\xFF'
                for kind in ('TX' if scn.ttype == 'tt4' else 'TXP'):
                    if passive and kind == 'T':
                        continue
                    for mode in (('req', 'rsp') if (scn.ttype == 'tt4' or not quick) else ('req',)):
                        plan = (pos, kind, 1, mode)
                        r = run(scn, plan, history=h)
                        self.check(scn, bh, bud, plan, r, history=h)
                        ck.case((scn.name, plan, 'history', h, VAR['round']), True)
                        ck.count('history%d/%s/%s' % (h, scn.ttype, r['obs'][0] if r['obs'] != bh['obs'] else 'same'))

    # -------------------------------------------------------------- two bursts in one operation
    def two_bursts(self, scn, base, quick, step=1):
        """two bursts, each within the budget of the command (block) it hits, in different commands of one operation:
        every command has its own budget, the result must be the fault-free one"""
        ck = self.ck
        cid = class_id(base['world'].tag)
        bud = self.budget_table(scn, base)
        for pos in self.positions(scn, base, quick)[::step]:
            for kind in 'TX':
                b = bud.get(pos)
                if b is None:
                    continue
                burst = min(b[1], 4) if b[0] == 'isodep' else b[1] - 1
                plan = (pos, kind, burst, 'req')
                if burst < 1 or not self.strict(scn, base, bud, plan):
                    continue
                r1 = run(scn, plan)
                if r1['obs'] != base['obs']:
                    continue                   # reported by the single-burst sweep
                bud1 = self.budget_table(scn, r1)
                cands = [j for j in range(pos + burst + 3, len(r1['trace'])) if r1['trace'][j][1] == 'A'
                         and not (scn.ttype == 'tt2' and r1['trace'][j - 1][0] == b'\xC2\xFF')
                         # the answer to an S(WTX) request is not a command of the operation (its recovery is C12's subject)
                         and not (scn.ttype == 'tt4' and r1['trace'][j][0][0] & 0xC0 == 0xC0)]
                for j in sorted(set(cands[:1] + cands[-1:])):
                    b2 = bud1.get(j)
                    if b2 is None:
                        continue
                    burst2 = min(b2[1], 4) if b2[0] == 'isodep' else b2[1] - 1
                    if burst2 < 1:
                        continue
                    plan2 = (j, kind, burst2, 'req')
                    r2 = run(scn, plan, plan2=plan2)
                    ck.case((scn.name, plan, plan2, VAR['round']), True)
                    self.nstrict += 1
                    o = r2['obs']
                    case = {'scenario': scn.name, 'class': cid, 'method': scn.method, 'plan': list(plan), 'plan2': list(plan2),
                            'observed': list(map(str, o)), 'fault_free': str(base['obs'])[:200],
                            'wire': ['%s:%s' % (t[0].hex()[:24], t[1]) for t in r2['trace'][max(0, j - 2):j + burst2 + 2]]}
                    if o[0] == 'exc' and not (o[1] in DOCUMENTED_EXC and o[:3] == base['obs'][:3]):
                        ck.violation('unrelated-exception:%s@%s' % (o[1], o[3]), '%s (%s) reaches the application' % (o[1], o[2]), case)
                    elif o[0] in ('raw', 'runaway'):
                        ck.violation('%s:%s:%s' % (o[0], cid, scn.method), 'two bursts: %s' % (o,), case)
                    elif o != base['obs'] or r2['memory'] != base['memory']:
                        ck.violation('not-survived:%s:%s:two-bursts' % (cid, scn.method),
                                     'two bursts of %d and %d %s errors in different commands, each within the budget of its '
                                     'command, change the result' % (burst, burst2, S.KIND_NAME[kind]), case)

    # -------------------------------------------------------------- sweeps
    def positions(self, scn, base, quick):
        n = len(base['trace'])
        if scn.tier != 'sample' or not quick or n <= 24:
            return list(range(n))
        # long traces: every SECTOR SELECT exchange and its neighbours, the first and last commands, a random sample
        keep = set(range(0, 4)) | set(range(n - 3, n))
        for i, t in enumerate(base['trace']):
            if t[0][:1] == b'\xC2' or t[1] == 's':
                keep |= {i - 1, i, i + 1, i + 2}
        rest = [i for i in range(n) if i not in keep]
        keep |= set(self.ck.rng.sample(rest, min(10, len(rest))))
        return sorted(i for i in keep if 0 <= i < n)

    def baseline(self, scn):
        ck = self.ck
        base = run(scn, None)
        o = base['obs']
        cid = class_id(base['world'].tag)
        if o[0] not in ('val', 'tce') and not (o[0] == 'exc' and o[1] in DOCUMENTED_EXC):
            ck.violation(('unrelated-exception:%s@%s' % (o[1], o[3])) if o[0] == 'exc' else '%s:%s:%s:fault-free' % (o[0], cid, scn.method),
                         'without any fault the operation ends with %s' % (o,),
                         {'scenario': scn.name, 'class': cid, 'method': scn.method, 'plan': None, 'observed': list(map(str, o))})
        again = run(scn, None)
        if again['obs'] != o or again['memory'] != base['memory']:
            ck.broken.append('scenario %s is not deterministic' % scn.name)
        for c in base['calls']:
            self.model_call(scn, c, {'scenario': scn.name, 'plan': None})
            n = 3 if scn.ttype in ('tt1', 'tt3') else 1 + c['retries']
            passive = scn.ttype == 'tt2' and c['first'] > 0 and base['trace'][c['first'] - 1][0] == b'\xC2\xFF'
            if n < 2 and 'A' in c['attempts'] and not passive:
                ck.violation('no-retry:%s:%s' % (cid, scn.method), 'an answered command is sent with a budget of one attempt',
                             {'scenario': scn.name, 'command': c['cmd'].hex()})
        ck.case((scn.name, 'baseline'), False)
        return base

    def sweep(self, scn, quick, kinds='TXP', bursts=(1, 2, 3, 4), modes=('req', 'rsp'), base=None):
        ck = self.ck
        base = base or self.baseline(scn)
        bud = self.budget_table(scn, base)
        for pos in self.positions(scn, base, quick):
            passive = scn.ttype == 'tt2' and pos > 0 and base['trace'][pos - 1][0] == b'\xC2\xFF'
            for kind in kinds:
                if passive and kind == 'T':
                    ck.count('skipped: timeout at SECTOR SELECT packet 2 (is the passive ack)')
                    continue
                for burst in bursts:
                    for mode in modes:
                        plan = (pos, kind, burst, mode)
                        r = run(scn, plan)
                        self.check(scn, base, bud, plan, r)
                        ck.case((scn.name, plan, VAR['round']), True,
                                {'scenario': scn.name, 'plan': plan, 'observed': str(r['obs'])[:80]}
                                if ck.cov['evaluations'] % 1499 == 0 else None)
                        ck.count('%s/%s/b%d/%s' % (scn.ttype, kind, burst, r['obs'][0] if r['obs'] != base['obs'] else 'same'))
        return base


CORPUS = [  # minimised past failures: (scenario, plan)
    ('t3/ndef-write', (0, 'T', 3, 'req')),          # attribute block unreadable -> None['writef']
    ('lite/ndef-write', (0, 'X', 3, 'rsp')),
    ('t2/sector/ndef-read', (65, 'X', 1, 'req')),   # SECTOR SELECT packet 2 garbled -> assert
    ('t3/format', None),                            # format() with the default version
    ('t3/is_present', (0, 'O', 3, 'req')),          # a CommunicationError of another class -> rsp unbound
]


def activation_cases(sw, quick):
    """nfc.tag.activate under faults: a tag object or None, never an exception"""
    ck = sw.ck
    makers = [('t2', lambda: S.TlvClf(S.T2TSim(S.t2_memory(16, MSG))), lambda c: c.tag.target()),
              ('ntag213', lambda: S.TlvClf(S.T2TSim(S.t2_memory(45, MSG), version=bytes.fromhex('0004040201000F03'))),
               lambda c: c.tag.target()),
              ('topaz', lambda: S.TlvClf(S.T1TSim(*S.t1_memory(False, MSG))), lambda c: c.tag.target()),
              ('t3', lambda: S.T3Session(S.SimT3Tag(S.t3_blocks(6, MSG))), lambda c: c.target()),
              ('t4', lambda: S.T4IsoClf(S.t4_card(MSG)), None)]
    for name, mk, tgt in makers:
        def act(plan):
            inner = mk()
            clf = S.FaultClf(inner)
            clf.arm(plan)
            if tgt is None:
                t = nfc.clf.RemoteTarget("106A")
                t.sens_res, t.sel_res, t.sdd_res = bytearray.fromhex("4403"), bytearray.fromhex("20"), bytearray.fromhex("04832F9A272D80")
            else:
                t = tgt(inner)
            o = observe(lambda: nfc.tag.activate(clf, t))
            return o, len(clf.trace)
        o0, n = act(None)
        for pos in range(n):
            for kind in 'TXPBO':
                for burst in (1, 2):
                    o, _ = act((pos, kind, burst, 'req'))
                    ck.case(('activate', name, pos, kind, burst), True)
                    ok = o[0] == 'val' and (o[1] is None or (isinstance(o[1], tuple) and o[1][0] == 'tag'))
                    if not ok:
                        ck.violation('activate:%s:%s' % (o[0], o[1] if len(o) > 1 else ''),
                                     'nfc.tag.activate under a %s error ends with %s' % (S.KIND_NAME[kind], (o,)),
                                     {'scenario': 'activate/' + name, 'plan': [pos, kind, burst, 'req'], 'observed': list(map(str, o))})


def reader_side(ck):
    """static tie: which CommunicationError classes can the READER side of a driver raise (ExnCheck on the C13 driver
    skeletons of this run)?  Only those the tag layer handles are acceptable; reported per driver with the class."""
    import re
    import common
    m13 = ck.model('c13')
    if m13 is None:
        return
    try:
        txt = open(os.path.join(common.COQ, 'Gen', 'ReaderSkel.v')).read()
    except OSError:
        ck.broken.append('Gen/ReaderSkel.v missing')
        return
    ents = re.findall(r'\("([^"]+)", "([^"]+)"\)', txt)
    if len(ents) < 9:
        ck.broken.append('Gen/ReaderSkel.v lists %d reader entries' % len(ents))
    got = m13.run(['escapes %s %s' % e for e in ents])
    ok = {'TimeoutError', 'TransmissionError', 'ProtocolError', 'IOError', 'NotImplementedError'}
    for (d, k), g in zip(ents, got):
        if g.startswith('?'):
            ck.broken.append('reader side of %s: %s' % (d, g))
            continue
        for c in ([] if g == '-' else g.split(',')):
            ck.case(('reader-side', d, c), True)
            if c not in ok:
                ck.violation('reader-side-raises:%s:%s' % (d, c),
                             'the reader side of driver %s (%s) can raise %s, which no tag command handles: Type 1/2/3 end in '
                             'RuntimeError("unexpected ..."), Type 4 lets it escape raw' % (d, k, c),
                             {'scenario': 'reader-side/' + d, 'function': k, 'class': c, 'escapes': g})


def main():
    ck = Check('C16')
    ck.trusted = ['Coq 8.16.1 kernel; vm_compute for the ExnCheck analysis on the regenerated tag skeletons; no native_compute',
                  'translate/skel_c16.py (ast skeleton extractor for src/nfc/tag/*.py, fail-closed; its purity / primitive lists, '
                  'receiver kinds, the hasattr / None-argument specialisations listed in the header of Gen/TagSkel.v)',
                  'extraction: ExtrOcamlBasic only; extract/c16_run.ml driver; OCaml 4.13.1',
                  'harness/sim/c16_faults.py (fault-injecting frontend, ISO-DEP coupling of the Type 4 card, NDEF-capable FeliCa Lite, '
                  'Ultralight C, FeliCa Standard cards) on top of sim/tag_t1t2.py, tag_t3t4.py, isodep_card.py, auth_tags.py']
    ck.assumptions = [
        'budgets are those named by the property: three attempts for Type 1 and Type 3 commands, 1 + retries for Type 2 '
        '(retries = 0 only for the passively acknowledged SECTOR SELECT packet 2), the ISO-DEP budget n_retry = min(int(1/FWT), 5) '
        'for timeouts / transmission errors of Type 4 (Props/C12.v); a ProtocolError is unrecoverable in ISO-DEP (NFC Forum '
        'Digital protocol) and is demanded to end as PROTOCOL_ERROR / documented None / False only',
        'a burst = consecutive clf.exchange() calls failing with the same CommunicationError class, either before the tag '
        '(command lost) or after it (tag executed the command, response lost)',
        'the exact fault-free result is demanded when the burst is shorter than the attempts that remain for the command it hits, '
        'the command is answered in the fault-free run, and the tag answers the re-sent command as it answered the first one '
        '(a WRITE that changes the tag\'s own access rights or MAC write counter is answered differently the second time: counted '
        'as retry-answered-differently-by-tag, weak postcondition only)',
        'a timeout at SECTOR SELECT packet 2 IS the acknowledgement (passive ack) and can not be told from a lost packet',
        'Retry model: the retry loops of Type 1/2/3 only; Type 4 exchanges are the ISO-DEP model of property C12',
        'ExnCheck covers explicit exception flow; implicit exceptions of Python operations are what the sweep looks for',
        'after an ISO-DEP exchange has failed (budget exhausted) the link state is the known finding of C12 (desync); '
        'duplicates of APDUs after such a failure are not judged here']
    ck.coq(gen=['TagSkel', 'DriverSkel', 'ReaderSkel'],
           targets=['Skel/ExnCheck.vo', 'Model/Retry.vo', 'Proofs/Retry.vo', 'Gen/TagSkel.vo', 'Bridge/C16Skel.vo',
                    'Gen/DriverSkel.vo', 'Gen/ReaderSkel.vo', 'Bridge/C16Reader.vo'],
           props='C16')
    try:        # the extractor's own assumptions and omissions, as written into the generated file
        import common
        hdr = open(os.path.join(common.COQ, 'Gen', 'TagSkel.v')).read().split('*)')[0]
        ck.assumptions += ['skeleton: ' + ln.strip()[2:] for ln in hdr.split('\n') if ln.strip().startswith('- ')]
    except (OSError, IndexError):
        pass
    mr = ck.model()
    quick = ck.tier == 'quick'
    reader_side(ck)
    sw = Sweep(ck, mr)
    scns = scenarios()
    by_name = {s.name: s for s in scns}

    if ck.replay:
        rec = json.load(open(ck.replay))
        c = rec.get('case', {})
        scn = by_name.get(c.get('scenario'))
        if scn is not None:
            base = sw.baseline(scn)
            h = c.get('history', 0)
            if c.get('plan2'):
                sw.two_bursts(scn, base, False)
            elif h:
                sw.history_sweep(scn, base, False, depths=(h,))
            elif c.get('plan'):
                plan = tuple(c['plan'])
                sw.check(scn, base, sw.budget_table(scn, base), plan, run(scn, plan))
        ck.finish(level='proof', rule='replay of one recorded injection')

    # corpus first
    for name, plan in CORPUS:
        scn = by_name[name]
        base = sw.baseline(scn)
        if plan is not None and plan[0] < len(base['trace']):
            sw.check(scn, base, sw.budget_table(scn, base), plan, run(scn, plan))
            ck.case(('corpus', name, plan), True)

    only = os.environ.get('C16_ONLY')
    longest = 0.0
    for scn in scns:
        if only and not scn.name.startswith(only):
            continue
        if quick and scn.tier == 'thorough':
            continue
        base = sw.sweep(scn, quick)
        # beyond the property's quantifier: a CommunicationError that is none of the three named classes (Type 1/2/3):
        # RuntimeError("unexpected ...") is the pinned behaviour, anything else (UnboundLocalError ...) is reported
        if scn.ttype != 'tt4' and base['trace']:
            sw.sweep(scn, True if quick else False, kinds='O' if quick else 'OB', bursts=(1, 3), modes=('req',), base=base)
        if base['trace'] and base['obs'][0] == 'val':
            sw.history_sweep(scn, base, quick, depths=(1,) if quick else (1, 2, 3))
            sw.two_bursts(scn, base, quick, step=1 if (scn.ttype == 'tt4' or not quick) else 4)
        longest = max(longest, base.get('longest', 0.0))
    activation_cases(sw, quick)

    if not quick:
        # variations: other message lengths / contents for the NDEF scenarios (new positions, other batch boundaries)
        rng = ck.rng
        for rnd in range(10):
            global MSG, MSG2
            VAR.update(round=rnd + 1, nbr=rng.choice((1, 2, 3, 4)), nbw=rng.choice((1, 2, 3)), t2pages=rng.choice((16, 20, 36)))
            MSG = bytes([0xD1, 0x01, 0, 0x54, 0x02, 0x65, 0x6E])
            n1 = rng.randrange(1, 30)
            MSG = MSG[:2] + bytes([n1 + 3]) + MSG[3:] + bytes(rng.randrange(32, 127) for _ in range(n1))
            n2 = rng.randrange(12, 31)
            MSG2 = bytes([0xD1, 0x01, n2 + 3, 0x54, 0x02, 0x65, 0x6E]) + bytes(rng.randrange(32, 127) for _ in range(n2))
            for scn in scenarios():
                if only and not scn.name.startswith(only):
                    continue
                if 'ndef' in scn.name or 'format' in scn.name or 'protect' in scn.name:
                    if scn.tier == 'sample':
                        continue
                    sw.sweep(scn, False)

    sw.compare_models()
    ck.cov['strict_cases'] = sw.nstrict
    ck.cov['longest_simulated_exchange_s'] = round(longest, 2)
    ck.cov['skeleton_left_out'] = 'see header of coq/Gen/TagSkel.v (LEFT OUT)'
    ck.finish(level='proof',
              rule='for each of the operation scenarios (read / write / NDEF read / NDEF write / is_present / format / protect / '
                   'authenticate / dump / vendor commands on Type 1 (Topaz, Topaz-512, generic), Type 2 (generic, multi-sector, '
                   'Ultralight, Ultralight C, Ultralight EV1, NTAG203/210/213/215, NTAG I2C, password protected NTAG213), Type 3 '
                   '(generic, FeliCa Standard, FeliCa Lite, Lite-S, authenticated), Type 4A over ISO-DEP with FWI 8/10/11/14): '
                   'every position of the recorded command sequence x {timeout, transmission, protocol} x burst 1..4 x '
                   '{command lost, response lost}; plus another CommunicationError class for Type 1/2/3 and nfc.tag.activate '
                   'under faults; non-trivial = every injection',
              explanation='retry_spec / no_double_apply / op theorems hold for all scripts and budgets of the Retry model; '
                          'tag_ops_closed is ExnCheck (sound, C13) evaluated on the skeletons of all public methods regenerated '
                          'from the sources of this run; the sweep ties both to the running code')


if __name__ == '__main__':
    main()
