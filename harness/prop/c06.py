"""C06 - SNEP and handover carry NDEF messages intact through fragmentation.

Obligations: Props/C06.v (snep_put_exact, snep_get_exact, snep_excess_refused,
handover_exact, ... for all message sizes and MIUs, over every interleaving of deliveries on
an abstract reliable ordered channel) + bridge lemmas over the fragmentation arithmetic
regenerated from the four source files on every run (translate/kspec_c06.py -> Gen/SnepK.v,
Bridge/Snep.v).
Correspondence: (1) each real function alone (SnepClient.put_octets / get_octets,
SnepServer._serve incl. process_snep_request, HandoverClient.send_octets + recv_octets,
HandoverServer.serve) against a scripted fake socket vs the extracted automaton on the same
script (valid conversations and mutated ones); (2) real client + real server coupled through an
ideal in-memory channel vs the extracted two-peer model: every fragment in each side's local
order, the octets given to the callbacks, the client's return values.
Monitor: independent reading of the property text on the coupled real run: the server
callbacks see exactly the messages sent, once each, in order, octet for octet; the client gets
the success result / the response message; a message above the acceptable length is refused
with the protocol's error response and no callback is made for it.
"""
import collections
import json
import logging
import os
import struct
import sys

from common import Check, hx

import ndef
import nfc.llcp
import nfc.snep
import nfc.snep.client
import nfc.snep.server
import nfc.handover
import nfc.handover.client
import nfc.handover.server

from sim.fakesock import ScriptSocket, PairLink, WouldBlockForever, World, WorldLLC
from sim import llcpair

logging.disable(logging.CRITICAL)

RSP_CONTINUE = bytes.fromhex('108000000000')
REQ_CONTINUE = bytes.fromhex('100000000000')


def H(b):
    if b is None:                 # a message that could not be generated: the case is skipped by its caller
        return '<none>'
    return hx(b) if len(b) else '-'


def enc(records):
    return b''.join(ndef.message_encoder(records))


# ---------------------------------------------------------------- canonical NDEF messages
def _sized(build, size):
    """build(pad) -> records; find pad so that the encoding has exactly `size` octets"""
    pad = max(0, size - len(enc(build(0))))
    for _ in range(4):
        m = enc(build(pad))
        if len(m) == size:
            return m
        pad = max(0, pad + size - len(m))
    return None


def ndef_msg(rng, size):
    """canonical ndeflib encoding with exactly `size` octets (None if impossible)"""
    if size == 0:
        return b''
    if size < 3:
        return None
    for _ in range(20):
        fill = rng.randrange(256)
        shape = rng.choice(['unknown', 'media', 'ext', 'text+media', 'uri+unknown', 'id'])

        def build(pad, shape=shape, fill=fill):
            body = bytes((fill + i) & 255 for i in range(pad))
            if shape == 'unknown':
                return [ndef.Record('unknown', '', body)]
            if shape == 'media':
                return [ndef.Record('application/x-c06', '', body)]
            if shape == 'ext':
                return [ndef.Record('urn:nfc:ext:nv.test:c06', '', body)]
            if shape == 'text+media':
                return [ndef.TextRecord('hello c06'), ndef.Record('a/b', '', body)]
            if shape == 'uri+unknown':
                return [ndef.UriRecord('http://nfcpy.org/c06'), ndef.Record('unknown', '', body)]
            return [ndef.Record('a/b', 'id%d' % (fill % 10), body), ndef.Record('unknown', '', b'\x01')]
        m = _sized(build, size)
        if m is None:
            continue
        try:
            back = enc(list(ndef.message_decoder(m, known_types={})))
        except ndef.DecodeError:
            continue
        if back == m:
            return m
    # the random shapes did not fit (most of them have more overhead than a small message allows, and a
    # single padded record cannot hit the three sizes just above the short-record limit): deterministic
    # fallback, total for every size >= 3
    for nrec in (1, 2, 3):
        def build(pad, nrec=nrec):
            return [ndef.Record('unknown', '', bytes(40))] * (nrec - 1) + [ndef.Record('unknown', '', bytes((7 + i) & 255 for i in range(pad)))]
        m = _sized(build, size)
        if m is not None and enc(list(ndef.message_decoder(m, known_types={}))) == m:
            return m
    return None


def ho_msg(rng, size, select):
    """canonical handover request (Hr) or select (Hs) message with `size` octets"""
    for _ in range(10):
        fill = rng.randrange(256)
        ncar = rng.choice([1, 1, 2])
        if _ >= 6:                       # deterministic fallback: another structure has other reachable sizes
            ncar = _ - 5

        def build(pad, fill=fill, ncar=ncar):
            if select:
                h = ndef.HandoverSelectRecord('1.3')
            else:
                h = ndef.HandoverRequestRecord('1.3', crn=0x1000 + fill)
            recs = [h]
            for i in range(ncar):
                h.add_alternative_carrier('active', 'c%d' % i)
                body = bytes((fill + j) & 255 for j in range(pad if i == 0 else 3))
                recs.append(ndef.Record('application/vnd.c06.carrier', 'c%d' % i, body))
            return recs
        m = _sized(build, size)
        if m is None:
            continue
        try:
            a = enc(list(ndef.message_decoder(m, 'relax')))
            b = enc(list(ndef.message_decoder(m, 'strict', {})))
        except (ndef.DecodeError, ndef.EncodeError):
            continue
        if a == m and b == m:
            return m
    return None


def _aligned(build, bounds, tail):
    """build(pads) -> the first len(pads) padded records (plus any fixed leading record).  Choose the
    pads so that the encoding of the records up to the j-th padded one has exactly bounds[j] octets
    (a record boundary at that offset of the message); a last record padded with `tail` follows."""
    pads = []
    for b in bounds:
        pad = max(0, b - len(enc(build(pads + [0]))))
        for _ in range(5):
            n = len(enc(build(pads + [pad])))
            if n == b:
                break
            pad = max(0, pad + b - n)
        else:
            return None
        if len(enc(build(pads + [pad]))) != b:
            return None
        pads.append(pad)
    return enc(build(pads + [tail]))


def ndef_aligned(rng, bounds, tail):
    """canonical multi-record message (len(bounds)+1 records) with record boundaries at `bounds`"""
    if not bounds or bounds[0] < 4 or any(b - a < 8 for a, b in zip(bounds, bounds[1:])):
        return None
    fill = rng.randrange(256)
    kinds = [rng.choice(['media', 'unknown', 'ext', 'id']) for _ in range(len(bounds) + 1)]

    def build(pads):
        recs = []
        for i, pad in enumerate(pads):
            body = bytes((fill + i + j) & 255 for j in range(pad))
            k = kinds[i]
            if k == 'media':
                recs.append(ndef.Record('a/b', '', body))
            elif k == 'unknown':
                recs.append(ndef.Record('unknown', '', body))
            elif k == 'ext':
                recs.append(ndef.Record('urn:nfc:ext:nv.test:c06', '', body))
            else:
                recs.append(ndef.Record('a/b', 'r%d' % i, body))
        return recs
    m = _aligned(build, bounds, tail)
    if m is None:
        return None
    try:
        if enc(list(ndef.message_decoder(m, known_types={}))) != m:
            return None
    except (ndef.DecodeError, ValueError):
        return None
    return m


def ho_aligned(rng, bounds, tail, select):
    """canonical handover request / select message: Hr|Hs record + len(bounds)+1 carrier records, with
    the boundary after the j-th carrier record at bounds[j]"""
    if not bounds or any(b - a < 40 for a, b in zip(bounds, bounds[1:])):
        return None
    fill = rng.randrange(256)
    ncar = len(bounds) + 1

    def build(pads):
        h = ndef.HandoverSelectRecord('1.3') if select else ndef.HandoverRequestRecord('1.3', crn=0x2000 + fill)
        for i in range(ncar):
            h.add_alternative_carrier('active', 'c%d' % i)
        recs = [h]
        for i, pad in enumerate(pads):
            recs.append(ndef.Record('application/vnd.c06.carrier', 'c%d' % i, bytes((fill + i + j) & 255 for j in range(pad))))
        return recs
    m = _aligned(build, bounds, tail)
    if m is None:
        return None
    try:
        if enc(list(ndef.message_decoder(m, 'relax'))) != m or enc(list(ndef.message_decoder(m, 'strict', {}))) != m:
            return None
    except (ndef.DecodeError, ndef.EncodeError, ValueError):
        return None
    return m


def classify(octets, *args, **kw):
    """what ndeflib does with the octets: 'ok' | 'err' (ndef.DecodeError) | 'other' (anything else, in
    practice UnicodeDecodeError, a ValueError; since 0af44aa the SNEP / handover code treats it like
    DecodeError, and the model has one predicate "decodes" for both)"""
    try:
        return 'ok', list(ndef.message_decoder(octets, *args, **kw))
    except ndef.DecodeError:
        return 'err', None
    except Exception:  # noqa - e.g. UnicodeDecodeError for a non-ASCII record type
        return 'other', None


def strict_cls(octets):
    return classify(octets, 'strict', {})[0]


def strict_ok(octets):
    return strict_cls(octets) == 'ok'


def default_cls(octets):
    return classify(octets, known_types={})[0]


def default_ok(octets):
    return default_cls(octets) == 'ok'


def is_hr(octets):
    k, r = classify(octets, 'relax')
    return k == 'ok' and bool(r) and r[0].type == 'urn:nfc:wkt:Hr'


# ---------------------------------------------------------------- running the real code
def fmt_op(op):
    if op[0] == 'put':
        return 'put:' + H(op[1])
    if op[0] == 'get':
        return 'get:%s:%d' % (H(op[1]), op[2])
    return 'ho:' + H(op[1])


def parse_op(t):
    f = t.split(':')
    b = b'' if f[1] == '-' else bytes.fromhex(f[1])
    return (f[0], b, int(f[2])) if f[0] == 'get' else (f[0], b)


def parse_answers(t):
    out = []
    for a in ([] if t == '.' else t.split(',')):
        if a == 'ge':
            out.append(('ge',))
        elif a.startswith('gc'):
            out.append(('gc', int(a[2:])))
        elif a.startswith('gm'):
            out.append(('gm', b'' if a[2:] == '-' else bytes.fromhex(a[2:])))
        elif a.startswith('p'):
            out.append(('p', int(a[1:])))
        else:
            out.append(('h', b'' if a[1:] == '-' else bytes.fromhex(a[1:])))
    return out


def real_client_op(op, sock):
    """one client operation on the given socket -> result string (format of the model driver)"""
    try:
        if op[0] == 'put':
            c = nfc.snep.SnepClient(None)
            c.socket = sock
            c.send_miu = sock.getsockopt(nfc.llcp.SO_SNDMIU)
            r = c.put_octets(op[1], timeout=1.0)
            return {True: 'true', False: 'false'}.get(r, repr(r))
        if op[0] == 'get':
            c = nfc.snep.SnepClient(None, max_ndef_msg_recv_size=op[2])
            c.socket = sock
            c.send_miu = sock.getsockopt(nfc.llcp.SO_SNDMIU)
            r = c.get_octets(op[1], timeout=1.0)
            return 'none' if r is None else 'octets:' + H(bytes(r))
        c = nfc.handover.HandoverClient(None)
        c.socket = sock
        if not c.send_octets(op[1]):
            return 'sendfailed'
        r = c.recv_octets(timeout=1.0)
        return 'none' if r is None else 'octets:' + H(bytes(r))
    except nfc.snep.SnepError as e:
        return 'sneperror:%d' % e.errno
    except struct.error:
        return 'crash:struct.error'
    except nfc.llcp.Error as e:
        return 'llcperror:%d' % e.errno
    except ValueError:          # ndeflib: UnicodeDecodeError for a non-ASCII record type
        return 'crash:ValueError'


class Answers(object):
    """scripted application: mirrors sapp_put / sapp_get / sapp_ho of the model"""

    def __init__(self, answers):
        self.answers = collections.deque(answers)
        self.log = []

    def take(self, kinds, default):
        if self.answers and self.answers[0][0] in kinds:
            return self.answers.popleft()
        return default


class SnepSrv(nfc.snep.SnepServer):
    def __init__(self, max_acc, answers):   # no sockets: only _serve / process_* are exercised
        self.max_acceptable_length = min(max_acc, 0xFFFFFFFF)
        self.app = Answers(answers)

    def process_put_request(self, records):
        self.app.log.append('put:' + H(enc(records)))
        return self.app.take(('p',), ('p', 0x81))[1]

    def process_get_request(self, records):
        self.app.log.append('get:' + H(enc(records)))
        a = self.app.take(('gc', 'gm', 'ge'), ('gc', 0xE0))
        if a[0] == 'gc':
            return a[1]
        if a[0] == 'gm':
            return list(ndef.message_decoder(a[1], known_types={}))
        return [ndef.HandoverRequestRecord('1.2')]    # raises ndef.EncodeError when encoded


class HoSrv(nfc.handover.HandoverServer):
    def __init__(self, answers):
        self.app = Answers(answers)

    def process_handover_request_message(self, records):
        self.app.log.append('ho:' + H(enc(records)))
        a = self.app.take(('h',), ('h', b''))
        return list(ndef.message_decoder(a[1], 'relax')) if a[1] else []


def fmt_answers(answers):
    out = []
    for a in answers:
        if a[0] == 'p':
            out.append('p%d' % a[1])
        elif a[0] == 'gc':
            out.append('gc%d' % a[1])
        elif a[0] == 'gm':
            out.append('gm' + H(a[1]))
        elif a[0] == 'ge':
            out.append('ge')
        else:
            out.append('h' + H(a[1]))
    return ','.join(out) or '.'


def real_server(kind, sock, max_acc, answers):
    """-> (final state string, callback log)"""
    srv = SnepSrv(max_acc, answers) if kind == 'snep' else HoSrv(answers)
    try:
        if kind == 'snep':
            srv._serve(sock)
        else:
            srv.serve(sock)
        st = 'closed'
    except WouldBlockForever:
        st = 'wait'
    except struct.error:
        st = 'crashed:struct.error'
    except ValueError:
        st = 'crashed:ValueError'
    except Exception as e:  # noqa
        st = 'crashed:' + type(e).__name__
    return st, srv.app.log


SERVICES = ['urn:nfc:sn:snep', 'urn:nfc:xsn:nv.test:c06']      # the default SNEP server and a second service


class FsSnepSrv(SnepSrv):
    """the same callbacks on a real SnepServer bound to a real LLC"""

    def __init__(self, llc, max_acc, answers, recv_miu, recv_buf, service_name='urn:nfc:sn:snep'):
        nfc.snep.SnepServer.__init__(self, llc, service_name=service_name, max_acceptable_length=max_acc,
                                     recv_miu=recv_miu, recv_buf=recv_buf)
        self.daemon = True
        self.app = Answers(answers)


class FsHoSrv(HoSrv):
    def __init__(self, llc, answers, recv_miu, recv_buf):
        nfc.handover.HandoverServer.__init__(self, llc, recv_miu=recv_miu, recv_buf=recv_buf)
        self.daemon = True
        self.app = Answers(answers)


# ---------------------------------------------------------------- concurrent transfers over one link
class SlowSock(object):
    """a slow consumer: recv() is delayed until the link has done k more turns (PDUs exchanged) since the
    previous recv() - the receive queue is not drained within one link turn"""

    def __init__(self, sock, pipe, k):
        self._sock, self._pipe, self._k = sock, pipe, k
        self._next = 0

    def recv(self):
        import time as _t
        t0 = _t.time()
        while len(self._pipe.frames) < self._next and _t.time() - t0 < llcpair.LIMIT:
            _t.sleep(0.0002)
        data = self._sock.recv()
        self._next = len(self._pipe.frames) + self._k
        return data

    def __getattr__(self, name):
        return getattr(self._sock, name)


class CcSnepSrv(nfc.snep.SnepServer):
    """SNEP server for concurrent runs: answers are a function of the request (no shared script)"""

    def __init__(self, llc, recv_miu, recv_buf, responses, slow=None):
        nfc.snep.SnepServer.__init__(self, llc, max_acceptable_length=0x100000, recv_miu=recv_miu, recv_buf=recv_buf)
        self.daemon = True
        self.log, self.responses, self.slow = [], responses, slow

    def _serve(self, client_socket):
        if self.slow:
            client_socket = SlowSock(client_socket, *self.slow)
        return nfc.snep.SnepServer._serve(self, client_socket)

    def process_put_request(self, records):
        self.log.append('put:' + H(enc(records)))
        return 0x81

    def process_get_request(self, records):
        rq = enc(records)
        self.log.append('get:' + H(rq))
        return list(ndef.message_decoder(self.responses[rq], known_types={}))


class CcHoSrv(nfc.handover.HandoverServer):
    def __init__(self, llc, recv_miu, recv_buf, responses, slow=None):
        nfc.handover.HandoverServer.__init__(self, llc, recv_miu=recv_miu, recv_buf=recv_buf)
        self.daemon = True
        self.log, self.responses, self.slow = [], responses, slow

    def serve(self, socket):
        if self.slow:
            socket = SlowSock(socket, *self.slow)
        return nfc.handover.HandoverServer.serve(self, socket)

    def process_handover_request_message(self, records):
        rq = enc(records)
        self.log.append('ho:' + H(rq))
        return list(ndef.message_decoder(self.responses[rq], 'relax'))


def agf_members(frame):
    """number of PDUs inside an LLCP AGF PDU (0 for any other PDU)"""
    if frame[:2] != b'\x00\x80':
        return 0
    n, i = 0, 2
    while i + 2 <= len(frame):
        i += 2 + (frame[i] << 8 | frame[i + 1])
        n += 1
    return n


def concurrent_run(cfg, jobs):
    """servers (SNEP + handover) on BOTH LLCs, every job is a client thread on its side talking to the
    server of the other side, all at the same time over one link.
    job: dict(side, kind 'snep'|'ho', ops, rsp {request octets: response octets}, cl_miu, cl_rw, slow)"""
    link = llcpair.Link({'miu': cfg['miu_i'], 'agf': cfg['agf']}, {'miu': cfg['miu_t'], 'agf': cfg['agf']}, dep=bool(cfg.get('dep')))
    rsp = {'i': {}, 't': {}}
    for j in jobs:
        rsp['t' if j['side'] == 'i' else 'i'].update(j.get('rsp', {}))
    slow = (link.pipe, cfg['srv_slow']) if cfg.get('srv_slow') else None
    snep = {sd: CcSnepSrv(link.llc[sd], cfg['srv_miu'], cfg['srv_rw'], rsp[sd], slow) for sd in 'it'}
    ho = {sd: CcHoSrv(link.llc[sd], cfg['srv_miu'], cfg['srv_rw'], rsp[sd], slow) for sd in 'it'}
    for x in list(snep.values()) + list(ho.values()):
        x.start()
    link.start()
    results = [None] * len(jobs)

    def client(n, j):
        llc = link.llc[j['side']]
        out = []
        try:
            if j['kind'] == 'snep':
                sock = nfc.llcp.Socket(llc, nfc.llcp.DATA_LINK_CONNECTION)
                sock.setsockopt(nfc.llcp.SO_RCVMIU, j['cl_miu'])
                sock.setsockopt(nfc.llcp.SO_RCVBUF, j['cl_rw'])
                sock.connect('urn:nfc:sn:snep')
                use = SlowSock(sock, link.pipe, j['slow']) if j.get('slow') else sock
                for op in j['ops']:
                    c = nfc.snep.SnepClient(llc, max_ndef_msg_recv_size=0x100000)
                    c.socket, c.send_miu = use, sock.getsockopt(nfc.llcp.SO_SNDMIU)
                    try:
                        if op[0] == 'put':
                            r = c.put_octets(op[1], timeout=8.0)
                            out.append({True: 'true', False: 'false'}.get(r, repr(r)))
                        else:
                            r = c.get_octets(op[1], timeout=8.0)
                            out.append('none' if r is None else 'octets:' + H(bytes(r)))
                    except nfc.snep.SnepError as e:
                        out.append('sneperror:%d' % e.errno)
            else:
                hc = nfc.handover.HandoverClient(llc)
                hc.connect(recv_miu=j['cl_miu'], recv_buf=j['cl_rw'])
                sock = hc.socket
                if j.get('slow'):
                    hc.socket = SlowSock(sock, link.pipe, j['slow'])
                for op in j['ops']:
                    if not hc.send_octets(op[1]):
                        out.append('sendfailed')
                        continue
                    r = hc.recv_octets(timeout=8.0)
                    out.append('none' if r is None else 'octets:' + H(bytes(r)))
        except nfc.llcp.Error as e:
            out.append('llcperror:%d' % e.errno)
        results[n] = out
        try:
            sock.close()
        except Exception:  # noqa - connection release is not what is assessed here
            pass

    import threading as _th
    ths = []
    for n, j in enumerate(jobs):
        th = _th.Thread(target=client, args=(n, j))
        th.daemon = True
        th.start()
        ths.append(th)
    import time as _t
    t0 = _t.time()
    # a transfer that is still unfinished after `budget` link turns (PDU exchanges; idle turns are SYMM) has
    # stalled: this is decided in link turns, not in seconds, so machine load cannot cause it
    nfr = sum(len(op[1]) + sum(len(v) for v in j.get('rsp', {}).values()) for j in jobs for op in j['ops']) // 100
    budget = 4000 + 25 * nfr
    start = len(link.pipe.frames)
    stalled = False
    while any(r is None for r in results):
        if len(link.pipe.frames) - start > budget:
            stalled = True
            break
        if _t.time() - t0 > 6 * llcpair.LIMIT:
            break
        _t.sleep(0.002)
    done = all(r is not None for r in results)
    logs = {sd: sorted(snep[sd].log + ho[sd].log) for sd in 'it'}
    turns = len(link.pipe.frames) - start
    link.close()
    if not done and not stalled:
        raise llcpair.Inconclusive('a concurrent transfer did not finish')
    agf = [agf_members(f) for _, f in link.pipe.frames] if not cfg.get('dep') else []
    return {'results': [r if r is not None else ['!stalled'] for r in results], 'logs': logs, 'frames': len(link.pipe.frames),
            'agf2': sum(1 for n in agf if n >= 2), 'stalled': stalled, 'turns': turns, 'budget': budget}


def history_api(segments):
    """the calls made on the SnepClient object: r = request, c<k> = connect(SERVICES[k]), x = close()"""
    out = []
    for seg in segments:
        if seg[0] == 'oneshot':
            out.append('r')
        else:
            out += ['c%d' % seg[1]] + ['r'] * len(seg[2]) + ['x']
    return out


def history_expect(segments):
    """property text: every message arrives exactly once at the server its session is connected to"""
    logs, results = [[], []], []
    for seg in segments:
        for op, rsp in ([(seg[1], seg[2])] if seg[0] == 'oneshot' else seg[2]):
            k = 0 if seg[0] == 'oneshot' else seg[1]
            logs[k].append(('put:' if op[0] == 'put' else 'get:') + H(op[1]))
            results.append('true' if op[0] == 'put' else 'octets:' + H(rsp))
    return logs, results


def history_answers(segments):
    ans = [[], []]
    for seg in segments:
        for op, rsp in ([(seg[1], seg[2])] if seg[0] == 'oneshot' else seg[2]):
            ans[0 if seg[0] == 'oneshot' else seg[1]].append(('p', 0x81) if op[0] == 'put' else ('gm', rsp))
    return ans


def drive_client(client, segments, acc=0x100000):
    """perform the history on one real SnepClient object"""
    results = []
    client.acceptable_length = acc

    def one(op):
        try:
            if op[0] == 'put':
                r = client.put_octets(op[1], timeout=8.0)
                results.append({True: 'true', False: 'false'}.get(r, repr(r)))
            else:
                r = client.get_octets(op[1], timeout=8.0)
                results.append('none' if r is None else 'octets:' + H(bytes(r)))
        except nfc.snep.SnepError as e:
            results.append('sneperror:%d' % e.errno)
        except nfc.llcp.Error as e:
            results.append('llcperror:%d' % e.errno)
    for seg in segments:
        if seg[0] == 'oneshot':
            one(seg[1])
        else:
            try:
                client.connect(SERVICES[seg[1]])
            except nfc.llcp.Error as e:
                results.append('connect-llcperror:%d' % e.errno)
                continue
            for op, _ in seg[2]:
                one(op)
            client.close()
    return results


def history_coupled_run(segments, mius):
    """real SnepClient object + two real SnepServer loops (one per service) on the World simulator"""
    w = World()
    ans = history_answers(segments)
    srvs = [SnepSrv(0x100000, ans[0]), SnepSrv(0x100000, ans[1])]
    for k in (0, 1):
        w.register(SERVICES[k], srvs[k]._serve, mius[k][0], mius[k][1])
    box = {}
    orig = nfc.snep.client.send_request

    def logged_send_request(socket, request, send_miu):
        w.actions.append(('request',))
        return orig(socket, request, send_miu)

    def client_fn():
        box['results'] = drive_client(nfc.snep.SnepClient(WorldLLC(w)), segments)

    nfc.snep.client.send_request = logged_send_request
    try:
        err = w.run(client_fn)
    finally:
        nfc.snep.client.send_request = orig
    acts = []
    for a in w.actions:
        acts.append('R' if a[0] == 'request' else 'X' if a[0] == 'close' else
                    ('C%d' % SERVICES.index(a[1]) if a[1] in SERVICES else 'C?') if a[0] == 'connect' else 'refused')
    return {'results': box.get('results', ['!' + repr(err.get('c'))]), 'logs': [list(x.app.log) for x in srvs],
            'actions': ','.join(acts) or '.', 'world': w, 'err': err}


def history_fullstack_run(segments, cfg):
    """the same history through two real LLCs, two real SnepServer threads on the serving side"""
    link = llcpair.Link({'miu': cfg['miu_i'], 'agf': cfg['agf']}, {'miu': cfg['miu_t'], 'agf': cfg['agf']}, dep=bool(cfg.get('dep')))
    srv_llc = link.llc[cfg['srv_side']]
    cl_llc = link.llc['i' if cfg['srv_side'] == 't' else 't']
    ans = history_answers(segments)
    srvs = [FsSnepSrv(srv_llc, 0x100000, ans[k], cfg['srv_miu'], cfg['srv_rw'], SERVICES[k]) for k in (0, 1)]
    for x in srvs:
        x.start()
    link.start()
    info = {}

    def client():
        info['results'] = drive_client(nfc.snep.SnepClient(cl_llc), segments)
        info['logs'] = [list(x.app.log) for x in srvs]
        return info['results']
    nfr = sum(len(op[1]) + len(rsp) for seg in segments for op, rsp in ([(seg[1], seg[2])] if seg[0] == 'oneshot' else seg[2])) // 100
    try:
        results = llcpair.with_limit(client, link.pipe, 4000 + 25 * nfr)
    finally:
        closed = link.close()
    if link.pipe.stuck or not closed:
        raise llcpair.Inconclusive('link did not shut down')
    return {'results': results, 'logs': info['logs'], 'frames': len(link.pipe.frames)}


def fullstack_run(kind, ops, cfg, max_acc, answers):
    """real LLC pair, real server thread, real client; -> dict(results, log, send_miu, recv_miu, frames)"""
    link = llcpair.Link({'miu': cfg['miu_i'], 'agf': cfg['agf']}, {'miu': cfg['miu_t'], 'agf': cfg['agf']}, dep=bool(cfg.get('dep')))
    srv_llc = link.llc[cfg['srv_side']]
    cl_llc = link.llc['i' if cfg['srv_side'] == 't' else 't']
    if kind == 'snep':
        srv = FsSnepSrv(srv_llc, max_acc, answers, cfg['srv_miu'], cfg['srv_rw'])
    else:
        srv = FsHoSrv(srv_llc, answers, cfg['srv_miu'], cfg['srv_rw'])
    srv.start()
    link.start()
    info = {}

    def client():
        results = []
        if kind == 'snep':
            sock = nfc.llcp.Socket(cl_llc, nfc.llcp.DATA_LINK_CONNECTION)
            sock.setsockopt(nfc.llcp.SO_RCVMIU, cfg['cl_miu'])
            sock.setsockopt(nfc.llcp.SO_RCVBUF, cfg['cl_rw'])
            sock.connect('urn:nfc:sn:snep')
        else:
            hc = nfc.handover.HandoverClient(cl_llc)
            hc.connect(recv_miu=cfg['cl_miu'], recv_buf=cfg['cl_rw'])
            sock = hc.socket
        info['send_miu'] = sock.getsockopt(nfc.llcp.SO_SNDMIU)
        info['recv_miu'] = sock.getsockopt(nfc.llcp.SO_RCVMIU)
        for op in ops:
            try:
                if op[0] == 'put':
                    c = nfc.snep.SnepClient(cl_llc)
                    c.socket, c.send_miu = sock, info['send_miu']
                    r = c.put_octets(op[1], timeout=8.0)
                    results.append({True: 'true', False: 'false'}.get(r, repr(r)))
                elif op[0] == 'get':
                    c = nfc.snep.SnepClient(cl_llc, max_ndef_msg_recv_size=op[2])
                    c.socket, c.send_miu = sock, info['send_miu']
                    r = c.get_octets(op[1], timeout=8.0)
                    results.append('none' if r is None else 'octets:' + H(bytes(r)))
                else:
                    if not hc.send_octets(op[1]):
                        results.append('sendfailed')
                        continue
                    r = hc.recv_octets(timeout=8.0)
                    results.append('none' if r is None else 'octets:' + H(bytes(r)))
            except nfc.snep.SnepError as e:
                results.append('sneperror:%d' % e.errno)
            except nfc.llcp.Error as e:          # the link or the connection went down under the operation
                results.append('llcperror:%d' % e.errno)
        info['results'] = list(results)      # the transfers are over; what follows is connection release
        info['log'] = list(srv.app.log)
        sock.close()
        return results

    close_hung = False
    nfr = (sum(len(o[1]) for o in ops) + sum(len(a[1]) for a in answers if len(a) > 1 and isinstance(a[1], bytes))) // 100
    try:
        try:
            results = llcpair.with_limit(client, link.pipe, 4000 + 25 * nfr)
        except (llcpair.Inconclusive, llcpair.Stalled):
            # DataLinkConnection.close() can wait for a DM that the peer's close() has discarded (a race
            # in nfc.llcp.tco, property C09/C05 territory): the C06 observations are complete by then
            if len(info.get('results', ())) != len(ops):
                raise
            results, close_hung = info['results'], True
    finally:
        closed = link.close()
    if not close_hung and (link.pipe.stuck or not closed):
        raise llcpair.Inconclusive('link did not shut down')
    return {'results': results, 'log': info.get('log', list(srv.app.log)), 'send_miu': info.get('send_miu'),
            'recv_miu': info.get('recv_miu'), 'frames': len(link.pipe.frames), 'close_hung': close_hung}


def fmt_item(x):
    return x if x in ('T', 'X') else H(x)


def fmt_local(first, steps, with_first):
    s = '|'.join('%s>%s' % (fmt_item(x), ','.join(H(o) for o in outs) or '.') for x, outs in steps)
    if with_first:
        s = (','.join(H(o) for o in first) or '.') + ('|' + s if s else '')
    return s


def fmt_table(t):
    return ','.join(H(x) for x in sorted(set(t))) or '.'


def canon_log(log):
    """model log (octets handed to the decoder) -> what the callback sees: the records, re-encoded.
    Differs only for octets that are not a canonical encoding (e.g. trailing bytes after the
    record with the ME flag, which ndeflib ignores)."""
    if log == '.':
        return log
    out = []
    for e in log.split(','):
        kind, h = e.split(':')
        octets = b'' if h == '-' else bytes.fromhex(h)
        try:
            if kind == 'ho':
                octets = enc(list(ndef.message_decoder(octets, 'relax')))
            else:
                octets = enc(list(ndef.message_decoder(octets, known_types={})))
        except Exception:  # noqa
            pass
        out.append(kind + ':' + H(octets))
    return ','.join(out)


def diffclip(a, b):
    """a, shortened around the first position where it differs from b"""
    n = 0
    while n < min(len(a), len(b)) and a[n] == b[n]:
        n += 1
    return '[%d equal]...%s' % (n, a[max(0, n - 60):n + 240]) if n > 80 else a[:400]


def norm_wait(s):
    return 'wait' if s.startswith('wait') or s in ('poll', 'more', 'cont', 'accum') else s


# accumulated byte strings that ndeflib is asked about by handover code on a script of arrivals
def ho_queries(script):
    acc, qs = b'', []
    for x in script:
        if x in ('T', 'X'):
            continue
        acc += x
        qs.append(acc)
        if len(acc) and strict_ok(acc):
            acc = b''
    return qs


def snep_dec_candidates(datas):
    """octet strings SnepServer may pass to ndef.message_decoder on these arrivals: from every
    possible first fragment, the reassembled request (or what has arrived when the script ends)"""
    cands = set()
    for i in range(len(datas)):
        acc = datas[i]
        if len(acc) < 6:
            continue
        need = struct.unpack_from('>L', acc, 2)[0]
        j = i + 1
        while len(acc) - 6 < need and j < len(datas):
            acc += datas[j]
            j += 1
        cands.add(acc[6:])
        cands.add(acc[10:])
    return cands


# ---------------------------------------------------------------- the model side of a coupled run
def split_model_trace(out):
    """model line of `snep` / `ho` -> dict with local views and final observations"""
    parts = out.split('||')
    evs = parts[0].split('|')
    assert evs[0].startswith('init>'), out[:80]

    def items(s):
        return [] if s == '.' else s.split(',')
    cfirst = [x for x in items(evs[0][5:]) if x != 'X']
    csteps, ssteps = [], []
    c_over = 'X' in items(evs[0][5:])
    s_over = False
    for e in evs[1:]:
        side, rest = e[0], e[2:]
        x, outs = rest.split('>')
        outs = items(outs)
        if side == 'c':
            if not c_over:
                csteps.append((x, [o for o in outs if o != 'X']))
            if 'X' in outs:
                c_over = True
        else:
            if not s_over:
                ssteps.append((x, [o for o in outs if o != 'X']))
            if 'X' in outs or x == 'X':
                s_over = True

    def loc(first, steps, wf):
        s = '|'.join('%s>%s' % (x, ','.join(o) or '.') for x, o in steps)
        if wf:
            s = (','.join(first) or '.') + ('|' + s if s else '')
        return s
    return {'client': loc(cfirst, csteps, True), 'server': loc([], ssteps, False), 'results': parts[1],
            'cstate': parts[2], 'sstate': parts[3], 'log': parts[4], 'quiet': parts[5], 'err': parts[6]}


def main():
    ck = Check('C06')
    ck.trusted = ['Coq 8.16.1 kernel (vm_compute only in the non-vacuity examples); no native_compute',
                  'ndeflib 0.3.x as oracle: which octet strings decode (strict / default / relax) and that '
                  'decode-then-encode is the identity on the canonical encodings used as test messages',
                  'translate/kspec_c06.py + translate/py2coq.py (kernels cut out of snep/handover client and server; '
                  'struct formats >B/>L expanded by kspec_c06.py)',
                  'extraction: ExtrOcamlBasic only; extract/c06_run.ml driver; OCaml 4.13.1',
                  'harness/sim/fakesock.py (scripted socket, ideal in-memory channel with token-passing threads)']
    ck.assumptions = ['the channel is reliable, ordered and bounds the message size per direction (the service of the '
                      'LLCP data link connection, C05); the end-to-end claim down to radio frames is the composition '
                      'with the C04/C05/C10 theorems',
                      'ndeflib decoders are abstract predicates; premise of handover_exact: no non-empty proper prefix '
                      'of a complete message is complete (checked on every generated message by the harness)',
                      'blocking calls are atomic segments between two waits on the socket; poll timeouts only fire '
                      'when the peer does not answer (virtual time)',
                      'connection setup / release (connect, accept, close) and the server listen threads are outside '
                      'the model (C05/C17/C09)']
    ck.coq(gen=['SnepK'], targets=['Proofs/SnepChunks.vo', 'Proofs/SnepSched.vo', 'Proofs/Snep.vo', 'Proofs/SnepHo.vo', 'Proofs/SnepApi.vo',
                                     'Gen/SnepK.vo', 'Bridge/Snep.vo'], props='C06')
    mr = ck.model()
    if mr is None:
        ck.finish()
    rng = ck.rng
    quick = ck.tier == 'quick'

    import time as _t
    t_last = [_t.time()]

    def tick(name):
        now = _t.time()
        ck.cov.setdefault('section_wall_s', {})[name] = round(now - t_last[0], 1)
        t_last[0] = now
    tick('coq+extraction')

    pending = []      # (model line, callback(model output))

    def flush():
        if not pending:
            return
        outs = mr.run([p[0] for p in pending])
        for (line, cb), out in zip(pending, outs):
            cb(out)
        del pending[:]

    nmis = [0]
    nval = [0]

    def mismatch(name, data):
        nmis[0] += 1
        if os.environ.get('C06_DEBUG') and nmis[0] <= int(os.environ['C06_DEBUG']):
            sys.stderr.write('MISMATCH %s %s\n' % (name, json.dumps(data, indent=1, default=str)[:3000]))
        ck.correspondence_mismatch(name, data)

    def clip(s):
        return s if len(s) <= 400 else s[:200] + '...' + s[-200:]

    # ------------------------------------------------------------ (1) single functions on scripts
    def client_case(op, miu, script, kind):
        sock = ScriptSocket(script, miu)
        try:
            res = real_client_op(op, sock)
        except WouldBlockForever:
            res = 'wait'
        first, steps = sock.transcript()
        impl = fmt_local(first, steps, True) + '||' + res
        qs = ho_queries(script) if op[0] == 'ho' else []
        line = 'client %d %s %s %s' % (miu, fmt_table([q for q in qs if strict_cls(q) == 'ok']), fmt_op(op),
                                       ','.join(fmt_item(x) for x in script) or '.')
        ck.count('script-client-' + kind)
        ck.case(('cl', op, miu, tuple(script)), len(first) + len(steps) > 1)

        def cb(out):
            a, b = out.rsplit('||', 1)
            if a + '||' + norm_wait(b) != impl:
                mismatch('client-script', {'kind': kind, 'op': clip(fmt_op(op)), 'miu': miu,
                                           'script': clip(line.split(' ')[-1]), 'impl': clip(impl), 'model': clip(out)})
            else:
                nval[0] += 1
        pending.append((line, cb))

    def snepsrv_case(miu, max_acc, answers, script, kind):
        sock = ScriptSocket(script, miu)
        st, log = real_server('snep', sock, max_acc, answers)
        first, steps = sock.transcript()
        impl = fmt_local(first, steps, False) + '||' + st + '||' + (','.join(log) or '.')
        # oracle table: every byte string the server may hand to the decoder on this script
        cands = snep_dec_candidates([x for x in script if x not in ('T', 'X')])
        cls = {c: default_cls(c) for c in cands}
        line = 'snepsrv %d %d %s %s %s' % (miu, max_acc, fmt_table([c for c in cands if cls[c] == 'ok']), fmt_answers(answers),
                                            ','.join(fmt_item(x) for x in script) or '.')
        ck.count('script-snepsrv-' + kind)
        ck.case(('ss', miu, max_acc, tuple(answers), tuple(script)), len(steps) > 1)

        def cb(out):
            a, b, c = out.rsplit('||', 2)
            if a + '||' + norm_wait(b) + '||' + canon_log(c) != impl:
                mismatch('snep-server-script', {'kind': kind, 'miu': miu, 'max_acc': max_acc, 'answers': clip(fmt_answers(answers)),
                                                'script': clip(line.split(' ')[-1]), 'impl': diffclip(impl, out), 'model': diffclip(out, impl)})
            else:
                nval[0] += 1
        pending.append((line, cb))

    def hosrv_case(miu, answers, script, kind):
        sock = ScriptSocket(script, miu)
        st, log = real_server('ho', sock, 0, answers)
        first, steps = sock.transcript()
        impl = fmt_local(first, steps, False) + '||' + st + '||' + (','.join(log) or '.')
        qs = ho_queries(script)
        line = 'hosrv %d 1 %s %s %s %s' % (miu, fmt_table([q for q in qs if strict_cls(q) == 'ok']),
                                           fmt_table([q for q in qs if is_hr(q)]),
                                              fmt_answers(answers), ','.join(fmt_item(x) for x in script) or '.')
        ck.count('script-hosrv-' + kind)
        ck.case(('hs', miu, tuple(answers), tuple(script)), len(steps) > 1)

        def cb(out):
            a, b, c = out.rsplit('||', 2)
            if a + '||' + norm_wait(b) + '||' + canon_log(c) != impl:
                mismatch('handover-server-script', {'kind': kind, 'miu': miu, 'answers': clip(fmt_answers(answers)),
                                                    'script': clip(line.split(' ')[-1]), 'impl': clip(impl), 'model': clip(out)})
            else:
                nval[0] += 1
        pending.append((line, cb))

    def mutate(script):
        """a faulty peer: drop / truncate / duplicate / replace / timeout / close"""
        s = list(script)
        k = rng.randrange(8)
        i = rng.randrange(len(s)) if s else 0
        if not s:
            return ['X']
        if k == 0:
            del s[i]
        elif k == 1 and s[i] not in ('T', 'X'):
            s[i] = s[i][:rng.randrange(0, len(s[i]) + 1)]
        elif k == 2:
            s.insert(i, s[i])
        elif k == 3:
            s[i] = bytes(rng.randrange(256) for _ in range(rng.choice([0, 1, 5, 6, 7, 12])))
        elif k == 4:
            s.insert(i, 'T')
        elif k == 5:
            s = s[:i] + ['X']
        elif k == 6 and s[i] not in ('T', 'X') and len(s[i]) >= 2:
            j = rng.randrange(min(len(s[i]), 6))
            s[i] = s[i][:j] + bytes([s[i][j] ^ (1 << rng.randrange(8))]) + s[i][j + 1:]
        else:
            s.insert(i, rng.choice([RSP_CONTINUE, REQ_CONTINUE, bytes.fromhex('10ff00000000'), bytes.fromhex('20020000000100'), b'']))
        if s and s[-1] != 'X' and rng.random() < 0.8:
            s.append('X')
        return s

    # ------------------------------------------------------------ (2) coupled runs + monitor
    def coupled(kind, ops, miu_cs, miu_sc, max_acc, answers, tag, expect=None, derive=True):
        """kind: 'snep' | 'ho'.  expect: None or dict(log=[...], results=[...]) demanded by the property text."""
        link = PairLink(miu_cs, miu_sc)
        results = []

        def client_fn(sock):
            for op in ops:
                results.append(real_client_op(op, sock))
            sock.close()
            return results

        box = {}

        def server_fn(sock):
            box['st'], box['log'] = real_server(kind, sock, max_acc, answers)

        res, err = link.run(client_fn, server_fn)
        cs, ss = link.sock['c'], link.sock['s']
        cfirst, csteps = cs.transcript()
        sfirst, ssteps = ss.transcript()
        impl = {'client': fmt_local(cfirst, csteps, True), 'server': fmt_local(sfirst, ssteps, False),
                'results': ','.join(results) or '.', 'log': ','.join(box.get('log', [])) or '.',
                'sstate': box.get('st', 'crashed:' + repr(err.get('s')))}
        if 'c' in err:
            impl['results'] += ',!' + (err['c'] if isinstance(err['c'], str) else type(err['c']).__name__)
        nfrag = len(csteps) + len(ssteps)
        ck.count('coupled-%s-%s' % (kind, tag))
        ck.case((kind, tuple(ops), miu_cs, miu_sc, max_acc, tuple(answers)), nfrag > 2 * len(ops) + 1,
                {'kind': kind, 'tag': tag, 'miu_cs': miu_cs, 'miu_sc': miu_sc, 'max_acc': max_acc,
                 'sizes': [len(o[1]) for o in ops], 'deliveries': nfrag, 'results': [r[:24] for r in results]})
        case = {'kind': kind, 'tag': tag, 'miu_cs': miu_cs, 'miu_sc': miu_sc, 'max_acc': max_acc,
                'ops': [fmt_op(o) for o in ops], 'answers': fmt_answers(answers), 'expect': expect}
        # ---- monitor (property text, on the implementation alone)
        if expect is not None:
            got_log = box.get('log', [])
            if cs.oversize or ss.oversize:
                ck.violation('%s-fragment-exceeds-miu' % kind, 'a fragment larger than the send MIU was given to the socket', case)
            if got_log != expect['log']:
                nexp, ngot = len(expect['log']), len(got_log)
                if kind == 'ho' and len(ops) > 1 and len(got_log) > 1 and got_log[0] == expect['log'][0] and got_log[1] == got_log[0]:
                    key = 'ho-server-second-request'
                    what = ('handover server: a second request on the same connection is not delivered intact '
                            '(the first request is processed again, once per fragment)')
                else:
                    key = '%s-%s-delivery' % (kind, tag)
                    what = ('%s: the server application did not receive exactly the messages sent, once each '
                            '(%d callbacks for %d accepted messages)' % (kind, ngot, nexp))
                ck.violation(key, what, dict(case, expected_log=[clip(x) for x in expect['log']], got_log=[clip(x) for x in got_log]))
            elif results != expect['results']:
                bad = [i for i in range(max(len(results), len(expect['results'])))
                       if i >= len(results) or i >= len(expect['results']) or results[i] != expect['results'][i]]
                ck.violation('%s-%s-client-result' % (kind, tag),
                             '%s: the client did not obtain the expected result (success / response message / protocol error)' % kind,
                             dict(case, expected=[clip(x) for x in expect['results']], got=[clip(x) for x in results], first_bad=bad[:1]))
        # ---- correspondence with the two-peer model
        nf = 4 * nfrag + 8 * len(ops) + 40
        if kind == 'snep':
            cls = {o[1]: default_cls(o[1]) for o in ops}
            line = 'snep %d %d %d %s %s %s %d' % (miu_cs, miu_sc, max_acc, fmt_table([c for c in cls if cls[c] == 'ok']),
                                                   fmt_answers(answers), ','.join(fmt_op(o) for o in ops) or '.', nf)
        else:
            qs = set()
            for o in ops:
                qs.add(o[1])
            for a in answers:
                if a[0] == 'h':
                    qs.add(a[1])
            # every accumulation at a fragment boundary that ndeflib accepts
            tab = set()
            for m in qs:
                for mm in (miu_cs, miu_sc):
                    for k in range(mm, len(m), mm):
                        if strict_ok(m[:k]):
                            tab.add(m[:k])
                if strict_ok(m):
                    tab.add(m)
            tab.discard(b'')
            line = 'ho %d %d 1 %s %s %s %s %d' % (miu_cs, miu_sc, fmt_table(tab), fmt_table([q for q in qs if is_hr(q)]),
                                                  fmt_answers(answers), ','.join(fmt_op(o) for o in ops) or '.', nf)

        timed_out = any(e == ('recv', 'T') for e in cs.events + ss.events)
        if timed_out:
            ck.count('coupled-with-virtual-timeout(model comparison by scripts only)')

        died = impl['sstate'].startswith('crashed') and len(ops) > 1
        if died:
            ck.count('coupled-server-thread-died(rest of the session not compared)')

        def cb(out):
            if timed_out or died:
                return
            m = split_model_trace(out)
            m['log'] = canon_log(m['log'])
            bad = [k for k in ('client', 'server', 'results', 'log') if m[k] != impl[k]]
            if norm_wait(m['sstate']) != impl['sstate']:
                bad.append('sstate')
            if m['quiet'] != 'true' or m['err'] != 'false':
                if not cs.oversize and not ss.oversize and impl['sstate'] == 'closed' and 'c' not in err:
                    bad.append('quiet/err')
            if bad:
                mismatch('coupled-' + kind, dict(case, differs=bad, impl={k: clip(impl[k]) for k in bad if k in impl},
                                                 model={k: clip(m[k]) for k in bad if k in m}))
            else:
                nval[0] += 1
        pending.append((line, cb))

        # ---- derived scripted cases: each side alone on the other side's real messages, and mutations
        if derive:
            cscript = [x for x, _ in csteps]
            sscript = [x for x, _ in ssteps]
            if len(ops) == 1:
                client_case(ops[0], miu_cs, cscript, 'valid')
                for _ in range(2):
                    client_case(ops[0], miu_cs, mutate(cscript), 'mutated')
            if kind == 'snep':
                snepsrv_case(miu_sc, max_acc, answers, sscript, 'valid')
                for _ in range(2):
                    snepsrv_case(miu_sc, max_acc, answers, mutate(sscript), 'mutated')
            else:
                hosrv_case(miu_sc, answers, sscript, 'valid')
                for _ in range(2):
                    hosrv_case(miu_sc, answers, mutate(sscript), 'mutated')
        return impl

    # ------------------------------------------------------------ case generation
    def pick_miu():
        r = rng.random()
        if r < 0.45:
            return rng.choice([128, 128, 129, 130, 135, 140, 160, 200, 248])
        if r < 0.8:
            return rng.randrange(128, 400)
        return rng.choice([1024, 1984, 2175, 2174, rng.randrange(400, 2176)])

    def pick_size(miu, hdr):
        k = rng.choice([0, 1, 1, 2, 2, 3, 4, 5, 6])
        if k == 0:
            return rng.choice([0, 3, 4, 5, rng.randrange(3, 120)])
        return max(0, k * miu - rng.choice([0, hdr]) + rng.randrange(-7, 8))

    def prefix_free(m, mius):
        """premise of handover_exact (no non-empty proper prefix is accepted by the strict decoder), checked
        with ndeflib on the fragment boundaries, and on every prefix for messages up to 300 octets"""
        ks = set()
        for mm in mius:
            ks.update(range(mm, len(m), mm))
        if len(m) <= 300:
            ks.update(range(1, len(m)))
            ck.count('prefix-free-premise-checked-on-all-prefixes')
        for k in ks:
            if strict_cls(m[:k]) == 'ok':      # DecodeError and ValueError both mean "incomplete"
                return False
        return True

    # ------------------------------------------------------------ (3) full stack: two real LLCs, no radio
    fs_bad = [0]

    def fs_enough():
        """a tree on which the full-stack part already failed several times: the remaining full-stack cases
        would mostly wait for transfers that never end; what was found is reported, the rest is skipped"""
        n = fs_bad[0] + sum(1 for v in ck.violations if v[0].startswith(('fullstack', 'concurrent')))
        if n >= 4:
            ck.count('fullstack-case-skipped-after-4-failures')
            return True
        return False

    def fullstack(kind, ops, cfg, max_acc, answers, tag, expect):
        case = {'fullstack': True, 'kind': kind, 'tag': tag, 'cfg': cfg, 'max_acc': max_acc,
                'ops': [fmt_op(o) for o in ops], 'answers': fmt_answers(answers), 'expect': expect}
        if kind == 'ho' and len(ops) > 1 and any(v[0] == 'ho-server-second-request' for v in ck.violations):
            return                     # already reported; the unrepaired server can deadlock the link here
        if fs_enough():
            return
        obs = None
        for attempt in range(2):       # a disagreement must reproduce (real threads, real waits)
            try:
                obs = fullstack_run(kind, ops, cfg, max_acc, answers)
            except llcpair.Inconclusive as e:
                ck.count('fullstack-inconclusive')
                lst = ck.cov.setdefault('fullstack_inconclusive', [])
                if len(lst) < 10:
                    lst.append({'kind': kind, 'tag': tag, 'cfg': cfg, 'max_acc': max_acc, 'why': str(e), 'attempt': attempt,
                                'sizes': [len(o[1]) for o in ops], 'answer_sizes': [len(a[1]) for a in answers if len(a) > 1 and isinstance(a[1], bytes)]})
                if os.environ.get('C06_DEBUG'):
                    sys.stderr.write('INCONCLUSIVE %s\n' % json.dumps(lst[-1] if lst else {}, default=str))
                if attempt == 0:
                    continue
                fs_bad[0] += 1
                return
            except llcpair.Stalled as e:
                obs = {'results': ['!stalled: ' + str(e)], 'log': [], 'send_miu': None, 'recv_miu': None, 'frames': 0}
                break          # decided in link turns, independent of timing: no second attempt
            except Exception as e:  # noqa
                obs = {'results': ['!' + type(e).__name__], 'log': [], 'send_miu': None, 'recv_miu': None, 'frames': 0}
            if obs['log'] == expect['log'] and obs['results'] == expect['results']:
                break
        ck.count('fullstack-%s-%s' % (kind, tag))
        if obs.get('close_hung'):
            ck.count('fullstack-socket-close-hung-after-transfer(tco close race, not a C06 matter)')
        ck.case(('fs', kind, tuple(ops), tuple(sorted(cfg.items())), max_acc), obs['frames'] > 12,
                {'kind': 'fullstack ' + kind, 'tag': tag, 'cfg': cfg, 'sizes': [len(o[1]) for o in ops],
                 'pdus': obs['frames'], 'send_miu': obs['send_miu']})
        if obs['log'] != expect['log']:
            if kind == 'ho' and len(ops) > 1 and len(obs['log']) > 1 and obs['log'][0] == expect['log'][0] and obs['log'][1] == obs['log'][0]:
                ck.violation('ho-server-second-request', 'handover server: a second request on the same connection is not delivered '
                             'intact (the first request is processed again, once per fragment)', case)
            else:
                ck.violation('fullstack-%s-%s-delivery' % (kind, tag), 'full stack (two LLCs): the server application did not receive '
                             'exactly the messages sent, once each', dict(case, got_log=[clip(x) for x in obs['log']]))
        elif obs['results'] != expect['results']:
            ck.violation('fullstack-%s-%s-client-result' % (kind, tag), 'full stack (two LLCs): the client did not obtain the expected '
                         'result', dict(case, got=[clip(x) for x in obs['results']]))
        # the model, run with the MIUs the connection really negotiated, must predict the same
        if obs['send_miu'] and obs['recv_miu']:
            nf = 4 * sum(len(o[1]) // 100 + 4 for o in ops) + 8 * sum(len(a[1]) // 100 + 4 for a in answers if len(a) > 1 and isinstance(a[1], bytes)) + 60
            if kind == 'snep':
                cls = {o[1]: default_cls(o[1]) for o in ops}
                line = 'snep %d %d %d %s %s %s %d' % (obs['send_miu'], obs['recv_miu'], max_acc,
                                                       fmt_table([c for c in cls if cls[c] == 'ok']),
                                                       fmt_answers(answers), ','.join(fmt_op(o) for o in ops) or '.', nf)
            else:
                qs = set(o[1] for o in ops) | set(a[1] for a in answers if a[0] == 'h')
                line = 'ho %d %d 1 %s %s %s %s %d' % (obs['send_miu'], obs['recv_miu'], fmt_table([q for q in qs if strict_ok(q)]),
                                                        fmt_table([q for q in qs if is_hr(q)]), fmt_answers(answers),
                                                        ','.join(fmt_op(o) for o in ops) or '.', nf)

            def cb(out, obs=obs):
                m = split_model_trace(out)
                if canon_log(m['log']) != (','.join(obs['log']) or '.') or m['results'] != (','.join(obs['results']) or '.'):
                    mismatch('fullstack-' + kind, dict(case, impl_results=[clip(x) for x in obs['results']], model_results=clip(m['results']),
                                                       impl_log=[clip(x) for x in obs['log']], model_log=clip(m['log'])))
                else:
                    nval[0] += 1
            pending.append((line, cb))


    # ------------------------------------------------------------ (4) histories of one SnepClient object
    def fmt_segments(segments):
        return [[seg[0], fmt_op(seg[1]), H(seg[2])] if seg[0] == 'oneshot' else
                [seg[0], seg[1], [[fmt_op(o), H(r)] for o, r in seg[2]]] for seg in segments]

    def parse_segments(js):
        def b(h):
            return b'' if h == '-' else bytes.fromhex(h)
        return [('oneshot', parse_op(x[1]), b(x[2])) if x[0] == 'oneshot' else
                ('session', x[1], [(parse_op(o), b(r)) for o, r in x[2]]) for x in js]

    def history(segments, mius, cfg=None):
        """cfg None: coupled on the World simulator (+ model); else full stack with that configuration"""
        elogs, eres = history_expect(segments)
        case = {'history': True, 'segments': fmt_segments(segments), 'mius': mius, 'cfg': cfg}
        where = 'fullstack-history' if cfg else 'history'
        if cfg and fs_enough():
            return
        obs = None
        for attempt in range(2 if cfg else 1):
            try:
                obs = history_fullstack_run(segments, cfg) if cfg else history_coupled_run(segments, mius)
            except llcpair.Inconclusive:
                ck.count('fullstack-inconclusive')
                obs = None
                continue
            except llcpair.Stalled as e:
                obs = {'results': ['!stalled: ' + str(e)], 'logs': [[], []]}
                break
            if obs['logs'] == elogs and obs['results'] == eres:
                break
        if obs is None:
            return
        ck.count(where)
        ck.case((where, tuple(map(str, case['segments'])), str(mius), str(cfg)), True,
                {'kind': where, 'segments': [x[0] if x[0] == 'oneshot' else 'session@%d x%d' % (x[1], len(x[2])) for x in segments]})
        if obs['logs'] != elogs:
            ck.violation(where + '-routing', 'one SnepClient object used for one-shot requests and an explicit connect(service) '
                         'session: not every message arrived exactly once at the server its session is connected to',
                         dict(case, expected_logs=[[clip(x) for x in lg] for lg in elogs],
                              got_logs=[[clip(x) for x in lg] for lg in obs['logs']]))
        elif obs['results'] != eres:
            ck.violation(where + '-client-result', 'SnepClient history: a request did not return the expected result',
                         dict(case, expected=[clip(x) for x in eres], got=[clip(x) for x in obs['results']]))
        if cfg:
            return
        # model: (a) which connection each request uses (api_run), (b) every connection against the two-peer model
        api = history_api(segments)

        def cb_api(out, obs=obs):
            if out.split('||')[0] != obs['actions']:
                mismatch('client-object-connections', dict(case, impl=obs['actions'], model=out))
            else:
                nval[0] += 1
        pending.append(('api 0 ' + ','.join(api), cb_api))
        w = obs['world']
        plan = []
        for seg in segments:
            plan.append((0, [seg[1]], [seg[2]]) if seg[0] == 'oneshot' else (seg[1], [o for o, _ in seg[2]], [r for _, r in seg[2]]))
        if len(w.connections) != len(plan) or any(c['service'] != SERVICES[p[0]] for c, p in zip(w.connections, plan)):
            return
        for conn, (k, ops, rsps) in zip(w.connections, plan):
            answers = [('p', 0x81) if o[0] == 'put' else ('gm', r) for o, r in zip(ops, rsps)]
            cf, cst_ = conn['c'].transcript()
            sf, sst_ = conn['s'].transcript()
            impl = {'client': fmt_local(cf, cst_, True), 'server': fmt_local(sf, sst_, False)}
            nfrag = len(cst_) + len(sst_)
            cls = {o[1]: default_cls(o[1]) for o in ops}
            line = 'snep %d %d %d %s %s %s %d' % (mius[k][0], mius[k][1], 0x100000, fmt_table([c for c in cls if cls[c] == 'ok']),
                                                   fmt_answers(answers), ','.join(fmt_op(o) for o in ops), 4 * nfrag + 8 * len(ops) + 40)

            def cb(out, impl=impl, k=k):
                m = split_model_trace(out)
                bad = [x for x in ('client', 'server') if m[x] != impl[x]]
                if bad:
                    mismatch('history-connection', dict(case, service=k, differs=bad, impl={x: clip(impl[x]) for x in bad},
                                                        model={x: clip(m[x]) for x in bad}))
                else:
                    nval[0] += 1
            pending.append((line, cb))

    def gen_history(miu0, miu1):
        def opr(miu_c, miu_s):
            if rng.random() < 0.6:
                return (('put', pick_ndef(miu_c, 6) or b'\xd0\x00\x00'), b'')
            return (('get', pick_ndef(miu_c, 10) or b'\xd0\x00\x00', 0x100000), pick_ndef(miu_s, 6) or b'\xd0\x00\x00')
        segs = []
        for _ in range(rng.choice([1, 1, 2])):
            o, r = opr(*miu0)
            segs.append(('oneshot', o, r))
        segs.append(('session', rng.choice([1, 1, 1, 0]), [opr(*miu1) for _ in range(rng.choice([2, 3]))]))
        for _ in range(rng.choice([0, 1, 1])):
            o, r = opr(*miu0)
            segs.append(('oneshot', o, r))
        if rng.random() < 0.3:
            segs.append(('session', 1, [opr(*miu1) for _ in range(2)]))
        return segs

    # ------------------------------------------------------------ (5) several transfers at once over one link
    def fmt_jobs(jobs):
        return [dict(side=j['side'], kind=j['kind'], ops=[fmt_op(o) for o in j['ops']], cl_miu=j['cl_miu'], cl_rw=j['cl_rw'],
                     slow=j.get('slow', 0), rsp=[[H(k), H(v)] for k, v in j.get('rsp', {}).items()]) for j in jobs]

    def parse_jobs(js):
        def b(h):
            return b'' if h == '-' else bytes.fromhex(h)
        return [dict(side=j['side'], kind=j['kind'], ops=[parse_op(t) for t in j['ops']], cl_miu=j['cl_miu'], cl_rw=j['cl_rw'],
                     slow=j.get('slow', 0), rsp={b(k): b(v) for k, v in j['rsp']}) for j in js]

    def concurrent(cfg, jobs, tag):
        """SNEP / handover clients AND servers on both sides, all jobs at the same time (aggregated frames,
        interleaved connections, slow consumers).  Monitor only (the model is per connection): every message
        exactly once at the peer server, every client gets its result."""
        if any(o[1] is None for j in jobs for o in j['ops']) or any(v is None for j in jobs for v in j.get('rsp', {}).values()):
            ck.count('corpus-case-not-generated')
            return
        eres, elogs = [], {'i': [], 't': []}
        for j in jobs:
            eres.append(['true' if o[0] == 'put' else 'octets:' + H(j['rsp'][o[1]]) for o in j['ops']])
            for o in j['ops']:
                elogs['t' if j['side'] == 'i' else 'i'].append({'put': 'put:', 'get': 'get:', 'ho': 'ho:'}[o[0]] + H(o[1]))
        elogs = {sd: sorted(v) for sd, v in elogs.items()}
        case = {'concurrent': True, 'tag': tag, 'cfg': cfg, 'jobs': fmt_jobs(jobs)}
        if fs_enough():
            return
        obs = None
        t_cc = _t.time()
        for attempt in range(2):       # a disagreement must reproduce (real threads)
            try:
                obs = concurrent_run(cfg, jobs)
            except llcpair.Inconclusive:
                ck.count('fullstack-inconclusive')
                obs = None
                continue
            if (obs['logs'] == elogs and obs['results'] == eres) or obs['stalled']:
                break          # a stall is decided in link turns: it does not depend on timing, no second attempt
        if obs is None:
            return
        ck.count('concurrent-' + tag)
        if os.environ.get('C06_DEBUG'):
            sys.stderr.write('CONCURRENT %s %.2fs frames=%d agf2=%d stalled=%s\n' % (cfg, _t.time() - t_cc, obs['frames'], obs['agf2'], obs['stalled']))
        ck.cov['agf_frames_with_2plus_members'] = ck.cov.get('agf_frames_with_2plus_members', 0) + obs['agf2']
        ck.case(('cc', tag, str(cfg), str(case['jobs'])[:2000]), True,
                {'kind': 'concurrent ' + tag, 'cfg': cfg, 'jobs': [(j['side'], j['kind'], [len(o[1]) for o in j['ops']]) for j in jobs],
                 'pdus': obs['frames'], 'agf_2plus': obs['agf2']})
        if obs['stalled']:
            ck.violation('concurrent-%s-stalled' % tag, 'transfers running at the same time over one link: a transfer was still '
                         'unfinished after %d link turns (budget %d) on a live link - a PDU was lost' % (obs['turns'], obs['budget']),
                         dict(case, got=[[clip(x) for x in r] for r in obs['results']]))
        elif obs['logs'] != elogs:
            ck.violation('concurrent-%s-delivery' % tag, 'transfers running at the same time over one link: the server applications did '
                         'not receive exactly the messages sent, once each',
                         dict(case, missing={sd: [clip(x) for x in elogs[sd] if x not in obs['logs'][sd]][:4] for sd in 'it'},
                              unexpected={sd: [clip(x) for x in obs['logs'][sd] if x not in elogs[sd]][:4] for sd in 'it'}))
        elif obs['results'] != eres:
            ck.violation('concurrent-%s-client-result' % tag, 'transfers running at the same time over one link: a client did not '
                         'obtain the expected result', dict(case, got=[[clip(x) for x in r] for r in obs['results']]))

    def cc_job(side, kind, nops, size, miu, cl_rw, slow):
        ops, rsp = [], {}
        for _ in range(nops):
            if kind == 'snep':
                msg = ndef_msg(rng, size + rng.randrange(-7, 8))
                if rng.random() < 0.5:
                    ops.append(('put', msg))
                else:
                    ops.append(('get', msg, 0x100000))
                    rsp[msg] = ndef_msg(rng, size + rng.randrange(-7, 8))
            else:
                rq = ho_msg(rng, max(60, size + rng.randrange(-7, 8)), False)
                ops.append(('ho', rq))
                rsp[rq] = ho_msg(rng, max(60, size + rng.randrange(-7, 8)), True)
        return dict(side=side, kind=kind, ops=ops, rsp=rsp, cl_miu=miu, cl_rw=cl_rw, slow=slow)

    def cc_case(nfrag, rw, slow, miu=128, dep=False, tag='both-sides'):
        cfgc = {'miu_i': miu, 'miu_t': miu, 'agf': True, 'srv_miu': miu, 'srv_rw': rw, 'srv_slow': slow}
        if dep:
            cfgc['dep'] = True
        size = nfrag * miu
        jobs = [cc_job('i', 'snep', 2, size, miu, rw, slow), cc_job('t', 'snep', 2, size, miu, rw, slow),
                cc_job(rng.choice('it'), 'ho', 1, size, miu, rw, slow), cc_job(rng.choice('it'), 'snep', 1, 2 * miu, miu, rw, 0)]
        concurrent(cfgc, jobs, tag)

    def aligned_bounds(miu, hdr, nrec=None, kmax=5):
        """record boundaries at k*MIU - hdr + (-1|0|+1) for increasing k (offsets inside the message)"""
        nrec = nrec or rng.choice([2, 2, 3, 4])
        ks, k = [], 0
        for _ in range(nrec - 1):
            k += rng.choice([1, 1, 2])
            ks.append(k)
        if ks[-1] > kmax:
            ks = list(range(1, nrec))
        return [k * miu - hdr + rng.choice([0, 0, -1, 1]) for k in ks]

    def pick_ndef(miu, hdr):
        """a test message for a transfer whose fragments are cut at k*miu - hdr"""
        if rng.random() < 0.3:
            m = ndef_aligned(rng, aligned_bounds(miu, hdr), rng.choice([0, 1, 5, rng.randrange(0, 2 * miu)]))
            if m is not None:
                ck.count('message-multi-record-aligned')
                return m
        return ndef_msg(rng, pick_size(miu, hdr))

    def pick_ho(miu, select):
        if rng.random() < 0.4:
            m = ho_aligned(rng, aligned_bounds(miu, 0), rng.choice([0, 1, 5, rng.randrange(0, 2 * miu)]), select)
            if m is not None:
                ck.count('message-multi-record-aligned')
                return m
        return ho_msg(rng, max(40, pick_size(miu, 0)), select)

    if ck.replay:
        c = json.load(open(ck.replay)).get('case') or {}
        if c.get('concurrent'):
            concurrent(c['cfg'], parse_jobs(c['jobs']), c.get('tag', 'replay'))
        elif c.get('history'):
            history(parse_segments(c['segments']), c['mius'], c.get('cfg'))
            flush()
        elif c.get('fullstack'):
            fullstack(c['kind'], [parse_op(t) for t in c['ops']], c['cfg'], c['max_acc'], parse_answers(c['answers']),
                      c.get('tag', 'replay'), c['expect'])
            flush()
        elif 'ops' in c:
            coupled(c['kind'], [parse_op(t) for t in c['ops']], c['miu_cs'], c['miu_sc'], c['max_acc'],
                    parse_answers(c['answers']), c.get('tag', 'replay'), c.get('expect'), derive=False)
            flush()
        ck.cov['traces_validated_against_impl'] = nval[0]
        ck.finish(level='proof', rule='replay of one recorded case', explanation='replay')

    # corpus of minimised past failures first.  The corpus is the same for every VERIF_SEED (own random
    # stream); a case whose messages cannot be generated is skipped and counted, never run with None.
    import random as _random
    main_rng, rng = rng, _random.Random(0xC06)

    def have(*ms):
        if any(m is None for m in ms):
            ck.count('corpus-case-not-generated')
            return False
        return True

    _coupled, _fullstack, _history = coupled, fullstack, history

    def amsgs(answers):
        return [x[1] for x in answers if len(x) > 1 and not isinstance(x[1], int)]

    def coupled(kind, ops, miu_cs, miu_sc, max_acc, answers, *a, **kw):          # noqa: corpus-only wrappers
        if have(*([o[1] for o in ops] + amsgs(answers))):
            _coupled(kind, ops, miu_cs, miu_sc, max_acc, answers, *a, **kw)

    def fullstack(kind, ops, cfg, max_acc, answers, *a, **kw):        # noqa
        if have(*([o[1] for o in ops] + amsgs(answers))):
            _fullstack(kind, ops, cfg, max_acc, answers, *a, **kw)

    def history(segments, *a, **kw):           # noqa
        ms = []
        for seg in segments:
            for op, rsp in ([(seg[1], seg[2])] if seg[0] == 'oneshot' else seg[2]):
                ms += [op[1], rsp]
        if have(*ms):
            _history(segments, *a, **kw)

    # two handover requests on one connection
    req1 = ho_msg(rng, 60, False)
    req2 = ho_msg(rng, 300, False)
    sel1 = ho_msg(rng, 70, True)
    sel2 = ho_msg(rng, 140, True)
    coupled('ho', [('ho', req1), ('ho', req2)], 128, 128, 0, [('h', sel1), ('h', sel2)], 'session',
            expect={'log': ['ho:' + H(req1), 'ho:' + H(req2)], 'results': ['octets:' + H(sel1), 'octets:' + H(sel2)]})
    flush()
    # handover request / select whose record boundary falls exactly on a fragment boundary (a decoder that
    # tolerates the missing ME flag would take the first fragments for the whole message)
    for miu, bounds in ((128, [128]), (128, [256, 384]), (131, [131, 393])):
        rq = ho_aligned(rng, bounds, 30, False)
        sl = ho_aligned(rng, bounds, 7, True)
        coupled('ho', [('ho', rq)], miu, miu, 0, [('h', sl)], 'exchange',
                expect={'log': ['ho:' + H(rq)], 'results': ['octets:' + H(sl)]})
        fullstack('ho', [('ho', rq)], {'miu_i': miu, 'miu_t': miu, 'agf': False, 'srv_side': 't', 'srv_miu': miu, 'srv_rw': 2,
                                        'cl_miu': miu, 'cl_rw': 2}, 0, [('h', sl)], 'exchange',
                  {'log': ['ho:' + H(rq)], 'results': ['octets:' + H(sl)]})
    # SNEP: record boundaries exactly on the cut of the information field
    for miu, hdr in ((128, 6), (128, 10), (140, 6)):
        mm = ndef_aligned(rng, [miu - hdr, 3 * miu - hdr], 11)
        rr = ndef_aligned(rng, [miu - 6, 2 * miu - 6], 3)
        if hdr == 6:
            coupled('snep', [('put', mm)], miu, miu, 0x100000, [], 'put', {'log': ['put:' + H(mm)], 'results': ['true']})
        else:
            coupled('snep', [('get', mm, 0x100000)], miu, miu, 0x100000, [('gm', rr)], 'get',
                    {'log': ['get:' + H(mm)], 'results': ['octets:' + H(rr)]})
    # more than 16 fragments in each direction on one connection (sequence numbers wrap mod 16), receive
    # window 1 (every I PDU acknowledged through the necessary-ack path), 2 and 15, through two real LLCs
    for rw, nfrag, side in ((1, 20, 't'), (1, 17, 'i'), (2, 19, 't'), (15, 35, 'i')):
        cfgl = {'miu_i': 128, 'miu_t': 128, 'agf': rw == 2, 'srv_side': side, 'srv_miu': 128, 'srv_rw': rw, 'cl_miu': 128, 'cl_rw': rw}
        mm = ndef_msg(rng, nfrag * 128 - 3)
        rr = ndef_msg(rng, nfrag * 128 + 5)
        fullstack('snep', [('get', mm, 0x100000)], cfgl, 0x100000, [('gm', rr)], 'get-long',
                  {'log': ['get:' + H(mm)], 'results': ['octets:' + H(rr)]})
        fullstack('snep', [('put', mm), ('put', rr)], cfgl, 0x100000, [('p', 0x81), ('p', 0x81)], 'session-long',
                  {'log': ['put:' + H(mm), 'put:' + H(rr)], 'results': ['true', 'true']})
        rq = ho_msg(rng, nfrag * 128 + 1, False)
        sl = ho_msg(rng, nfrag * 128 - 1, True)
        fullstack('ho', [('ho', rq)], cfgl, 0, [('h', sl)], 'exchange-long',
                  {'log': ['ho:' + H(rq)], 'results': ['octets:' + H(sl)]})
    # through the real nfc.dep.Initiator / Target exchange (loopback clf): link and socket MIU 500 .. 2175, so that
    # single I PDUs are chained over 3 and more NFC-DEP frames, in both directions and both roles of the client
    for lm, side in ((1024, 'i'), (1024, 't'), (2175, 't'), (500, 'i'), (248, 't')):
        cfgd = {'miu_i': lm, 'miu_t': lm, 'agf': lm == 500, 'srv_side': side, 'srv_miu': lm, 'srv_rw': 2, 'cl_miu': lm, 'cl_rw': 2,
                'dep': True}
        mm = ndef_msg(rng, 3 * lm + 17)
        rr = ndef_msg(rng, 2 * lm + 700)
        fullstack('snep', [('put', mm), ('get', mm, 0x100000)], cfgd, 0x100000, [('p', 0x81), ('gm', rr)], 'dep-put-get',
                  {'log': ['put:' + H(mm), 'get:' + H(mm)], 'results': ['true', 'octets:' + H(rr)]})
        rq = ho_msg(rng, 2 * lm + 600, False)
        sl = ho_msg(rng, 2 * lm + 650, True)
        fullstack('ho', [('ho', rq)], cfgd, 0, [('h', sl)], 'dep-exchange',
                  {'log': ['ho:' + H(rq)], 'results': ['octets:' + H(sl)]})
    flush()

    # clients and servers on both sides at once (aggregated frames with 2+ PDUs), receive windows 1 and 2, slow
    # consumers that read every 2nd / 3rd link turn, messages of more than 16, 32 and 48 fragments
    for nfrag, rw, slow in ((5, 1, 0), (18, 2, 3), (34, 1, 2), (50, 1, 3), (20, 2, 0)):
        cc_case(nfrag, rw, slow)
    cc_case(3, 2, 2, miu=1024, dep=True)

    # one SnepClient object: one-shot requests, then connect(second service) + requests + close, then one-shot again
    m_ = [ndef_msg(rng, n) for n in (40, 300, 7, 500, 129, 60)]
    hist0 = [('oneshot', ('put', m_[0]), b''),
             ('session', 1, [(('put', m_[1]), b''), (('get', m_[2], 0x100000), m_[3]), (('put', m_[4]), b'')]),
             ('oneshot', ('get', m_[5], 0x100000), m_[0])]
    history(hist0, [[128, 128], [140, 130]])
    history(hist0, [[128, 128], [128, 128]],
            {'miu_i': 128, 'miu_t': 248, 'agf': False, 'srv_side': 't', 'srv_miu': 128, 'srv_rw': 2, 'cl_miu': 128, 'cl_rw': 1})
    flush()
    coupled, fullstack, history, rng = _coupled, _fullstack, _history, main_rng

    tick('corpus')
    n_hist = 40 if quick else 800
    n_hist_fs = 15 if quick else 300
    if os.environ.get('C06_ONLY_FULLSTACK'):
        n_hist = n_hist_fs = 0
    for it in range(n_hist):
        mius = [[pick_miu(), pick_miu()], [pick_miu(), pick_miu()]]
        history(gen_history(mius[0], mius[1]), mius)
        if len(pending) > 100:
            flush()
    for it in range(n_hist_fs):
        cfgh = {'miu_i': rng.choice([128, 248, 1024]), 'miu_t': rng.choice([128, 200, 2175]), 'agf': rng.random() < 0.5,
                'srv_side': rng.choice(['i', 't']), 'srv_miu': rng.choice([128, 248, 1984]), 'srv_rw': rng.choice([1, 2, 15]),
                'cl_miu': 128, 'cl_rw': 1}
        if rng.random() < 0.4:
            cfgh.update({'dep': True, 'miu_i': rng.choice([500, 1024, 2175]), 'miu_t': rng.choice([500, 1024, 2175]),
                         'srv_miu': 1984, 'cl_miu': 1984})
        mm = min(cfgh['srv_miu'], cfgh['miu_t'] if cfgh['srv_side'] == 't' else cfgh['miu_i'])
        rm = min(cfgh['cl_miu'], cfgh['miu_i'] if cfgh['srv_side'] == 't' else cfgh['miu_t'])
        history(gen_history([mm, rm], [mm, rm]), [[mm, rm], [mm, rm]], cfgh)
    flush()

    tick('histories')
    n_snep = 400 if quick else 10000
    n_ho = 150 if quick else 4000
    n_sess = 40 if quick else 1000
    n_odd = 100 if quick else 2500
    if os.environ.get('C06_ONLY_FULLSTACK'):       # investigation aid: only section (3)
        n_snep = n_ho = n_sess = n_odd = 0

    # SNEP put / get, single operation, acceptable-length limits around the size
    for it in range(n_snep):
        miu_cs, miu_sc = pick_miu(), pick_miu()
        is_put = rng.random() < 0.5
        hdr = 6 if is_put else 10
        msg = pick_ndef(miu_cs, hdr)
        if msg is None:
            continue
        info = len(msg) + (0 if is_put else 4)          # the length field of the request
        max_acc = rng.choice([0x100000, 0x100000, info, info + 1, max(0, info - 1), max(0, info - rng.randrange(1, 50)), info + rng.randrange(1, 50)])
        if is_put:
            ops = [('put', msg)]
            answers = []
            if info <= max_acc:
                exp = {'log': ['put:' + H(msg)], 'results': ['true']}
            else:
                exp = {'log': [], 'results': ['false' if len(msg) + 6 > miu_cs else 'sneperror:255']}
            coupled('snep', ops, miu_cs, miu_sc, max_acc, answers, 'put' if info <= max_acc else 'put-excess', exp)
        else:
            rsp = pick_ndef(miu_sc, 6)
            if rsp is None:
                continue
            acc = rng.choice([1024 * 1024, len(rsp), len(rsp) + 1, max(0, len(rsp) - 1), max(0, len(rsp) - rng.randrange(1, 40))])
            ops = [('get', msg, acc)]
            answers = [('gm', rsp)]
            if info > max_acc:
                exp = {'log': [], 'results': ['none' if len(msg) + 10 > miu_cs else 'sneperror:255']}
                tag = 'get-excess-request'
            elif len(rsp) > acc:
                exp = {'log': ['get:' + H(msg)], 'results': ['sneperror:193']}
                tag = 'get-excess-response'
            else:
                exp = {'log': ['get:' + H(msg)], 'results': ['octets:' + H(rsp)]}
                tag = 'get'
            coupled('snep', ops, miu_cs, miu_sc, max_acc, answers, tag, exp)
        if len(pending) > 150:
            flush()
    flush()

    # handover request / select
    for it in range(n_ho):
        miu_cs, miu_sc = pick_miu(), pick_miu()
        req = pick_ho(miu_cs, False)
        sel = pick_ho(miu_sc, True)
        if req is None or sel is None:
            continue
        if not (prefix_free(req, [miu_cs]) and prefix_free(sel, [miu_sc])):
            ck.count('handover-not-prefix-free')
            continue
        coupled('ho', [('ho', req)], miu_cs, miu_sc, 0, [('h', sel)], 'exchange',
                {'log': ['ho:' + H(req)], 'results': ['octets:' + H(sel)]})
        if len(pending) > 150:
            flush()
    flush()

    # sessions: several operations on one connection
    for it in range(n_sess):
        miu_cs, miu_sc = pick_miu(), pick_miu()
        if rng.random() < 0.5:
            ops, answers, elog, eres = [], [], [], []
            for _ in range(rng.randrange(2, 5)):
                if rng.random() < 0.5:
                    m = pick_ndef(miu_cs, 6)
                    if m is None:
                        continue
                    ops.append(('put', m))
                    answers.append(('p', 0x81))
                    elog.append('put:' + H(m))
                    eres.append('true')
                else:
                    m = pick_ndef(miu_cs, 10)
                    r = pick_ndef(miu_sc, 6)
                    if m is None or r is None:
                        continue
                    ops.append(('get', m, len(r) + rng.randrange(0, 3)))
                    answers.append(('gm', r))
                    elog.append('get:' + H(m))
                    eres.append('octets:' + H(r))
            coupled('snep', ops, miu_cs, miu_sc, 0x100000, answers, 'session', {'log': elog, 'results': eres}, derive=False)
        else:
            ops, answers, elog, eres = [], [], [], []
            for _ in range(rng.randrange(2, 4)):
                req = pick_ho(miu_cs, False)
                sel = pick_ho(miu_sc, True)
                if req is None or sel is None or not (prefix_free(req, [miu_cs]) and prefix_free(sel, [miu_sc])):
                    continue
                ops.append(('ho', req))
                answers.append(('h', sel))
                elog.append('ho:' + H(req))
                eres.append('octets:' + H(sel))
            coupled('ho', ops, miu_cs, miu_sc, 0, answers, 'session', {'log': elog, 'results': eres}, derive=False)
        if len(pending) > 100:
            flush()
    flush()

    # odd applications / peers (correspondence only: the property text says nothing about them)
    for it in range(n_odd):
        miu_cs, miu_sc = rng.choice([6, 7, 16, 64, 128, 131]), rng.choice([6, 7, 16, 64, 128, 131])
        k = rng.randrange(7)
        msg = ndef_msg(rng, rng.choice([0, 3, 20, 130, 300])) or b''
        if k == 0:      # application answers with an error code
            coupled('snep', [('put', msg)], miu_cs, miu_sc, 0x100000, [('p', rng.choice([0xC0, 0xC2, 0xE0, 0x80, 0, 255]))], 'odd')
        elif k == 1:    # not an NDEF message
            junk = bytes(rng.randrange(256) for _ in range(rng.choice([1, 2, 5, 140])))
            coupled('snep', [('put', junk), ('put', msg)], miu_cs, miu_sc, 0x100000, [], 'odd')
        elif k == 2:    # get answered by a code / by unencodable records / default answer
            coupled('snep', [('get', msg, 100)], miu_cs, miu_sc, 0x100000, [rng.choice([('gc', 0xC0), ('ge',), ('gc', 0x81), ('p', 1)])], 'odd')
        elif k == 3:    # response code outside a byte: struct.error in the server thread
            coupled('snep', [('put', msg)], miu_cs, miu_sc, 0x100000, [('p', rng.choice([256, -1, 1000]))], 'odd')
        elif k == 4:    # request that is not a handover request: no answer, the client times out
            coupled('ho', [('ho', ndef_msg(rng, 50) or b'\xd0\x00\x00')], max(miu_cs, 16), max(miu_sc, 16), 0, [('h', sel1)] if sel1 else [], 'odd')
        elif k == 5:    # MIU below the SNEP header size
            coupled('snep', [('put', msg)], rng.choice([1, 2, 5]), miu_sc, 0x100000, [], 'odd')
        else:
            coupled('snep', [('get', msg, rng.choice([0, 1000]))], miu_cs, rng.choice([6, 7, 9]), 0x100000, [('gm', msg)], 'odd')
        if len(pending) > 150:
            flush()
    flush()

    tick('scripted+coupled')
    # ------------------------------------------------------------ (3) full stack: generated cases
    def fs_ndef(miu, hdr):
        # one transfer in five has 17..40 fragments (sequence numbers and acknowledgements wrap mod 16)
        if miu <= 300 and rng.random() < 0.2:
            return ndef_msg(rng, rng.randrange(17, 41) * miu - hdr + rng.randrange(-7, 8))
        return pick_ndef(miu, hdr)

    def fs_ho(miu, select):
        if miu <= 300 and rng.random() < 0.2:
            return ho_msg(rng, rng.randrange(17, 41) * miu + rng.randrange(-7, 8), select)
        return pick_ho(miu, select)

    def pick_link_miu():
        return rng.choice([128, 128, 128, 129, 200, 248, 1024, 2175, rng.randrange(128, 2176)])

    n_fs = 120 if quick else 3000
    if os.environ.get('C06_ONLY_FULLSTACK'):
        n_fs = int(os.environ['C06_ONLY_FULLSTACK'])
    for it in range(n_fs):
        cfg = {'miu_i': pick_link_miu(), 'miu_t': pick_link_miu(), 'agf': rng.random() < 0.5, 'srv_side': rng.choice(['i', 't']),
               'srv_miu': rng.choice([128, 248, 1984, rng.randrange(128, 2176)]), 'srv_rw': rng.choice([1, 1, 2, 15, rng.randrange(1, 16)]),
               'cl_miu': rng.choice([128, 128, 248, 1984, rng.randrange(128, 2176)]), 'cl_rw': rng.choice([1, 1, 2, 15, rng.randrange(1, 16)])}
        if rng.random() < 0.4:
            # the real nfc.dep below LLCP; link MIU from {248, 500, 1024, 2175}, sockets at least as large, so that
            # single LLCP PDUs exceed 502 octets (3+ chained NFC-DEP frames) in both directions
            lm_i, lm_t = rng.choice([248, 500, 1024, 2175]), rng.choice([248, 500, 1024, 2175])
            cfg.update({'dep': True, 'miu_i': lm_i, 'miu_t': lm_t, 'srv_miu': rng.choice([1984, 2175, max(lm_i, lm_t)]),
                        'cl_miu': rng.choice([1984, 2175, max(lm_i, lm_t)])})
        cl_link = cfg['miu_i'] if cfg['srv_side'] == 't' else cfg['miu_t']
        srv_link = cfg['miu_t'] if cfg['srv_side'] == 't' else cfg['miu_i']
        smiu = min(cfg['srv_miu'], srv_link)        # what the client may send per fragment
        rmiu = min(cfg['cl_miu'], cl_link)
        k = rng.randrange(4)
        if k == 0:
            msg = fs_ndef(smiu, 6)
            if msg is None:
                continue
            max_acc = rng.choice([0x100000, len(msg), len(msg) + 1, max(0, len(msg) - 1)])
            if len(msg) <= max_acc:
                fullstack('snep', [('put', msg)], cfg, max_acc, [], 'put', {'log': ['put:' + H(msg)], 'results': ['true']})
            else:
                fullstack('snep', [('put', msg)], cfg, max_acc, [], 'put-excess',
                          {'log': [], 'results': ['false' if len(msg) + 6 > smiu else 'sneperror:255']})
        elif k == 1:
            msg = fs_ndef(smiu, 10)
            rsp = fs_ndef(rmiu, 6)
            if msg is None or rsp is None:
                continue
            acc = rng.choice([0x100000, len(rsp), len(rsp) + 1, max(0, len(rsp) - 1)])
            if len(rsp) <= acc:
                fullstack('snep', [('get', msg, acc)], cfg, 0x100000, [('gm', rsp)], 'get',
                          {'log': ['get:' + H(msg)], 'results': ['octets:' + H(rsp)]})
            else:
                fullstack('snep', [('get', msg, acc)], cfg, 0x100000, [('gm', rsp)], 'get-excess-response',
                          {'log': ['get:' + H(msg)], 'results': ['sneperror:193']})
        elif k == 2:
            ops, answers, elog, eres = [], [], [], []
            for _ in range(rng.randrange(1, 4)):
                m = fs_ndef(smiu, 6)
                if m is None:
                    continue
                ops.append(('put', m))
                answers.append(('p', 0x81))
                elog.append('put:' + H(m))
                eres.append('true')
            fullstack('snep', ops, cfg, 0x100000, answers, 'session', {'log': elog, 'results': eres})
        else:
            ops, answers, elog, eres = [], [], [], []
            for _ in range(rng.choice([1, 1, 2])):
                req = fs_ho(smiu, False)
                sel = fs_ho(rmiu, True)
                if req is None or sel is None or not (prefix_free(req, [smiu]) and prefix_free(sel, [rmiu])):
                    continue
                ops.append(('ho', req))
                answers.append(('h', sel))
                elog.append('ho:' + H(req))
                eres.append('octets:' + H(sel))
            if ops:
                fullstack('ho', ops, cfg, 0, answers, 'exchange' if len(ops) == 1 else 'session', {'log': elog, 'results': eres})
        if len(pending) > 100:
            flush()
    flush()

    n_cc = 10 if quick else 150
    if os.environ.get('C06_ONLY_FULLSTACK'):
        n_cc = 0
    for it in range(n_cc):
        cc_case(rng.choice([2, 6, 17, 20, 33, 40, 49]), rng.choice([1, 1, 2, 15]), rng.choice([0, 0, 2, 3, 5]),
                miu=rng.choice([128, 128, 140, 248]), dep=rng.random() < 0.2)
    tick('fullstack')
    ck.cov['traces_validated_against_impl'] = nval[0]
    ck.cov['correspondence_mismatches'] = nmis[0]
    ck.finish(level='proof',
              rule='corpus first (clients and servers on both sides transferring at once over one link, slow consumers with receive '
                   'window 1/2 and messages of 17-50 fragments; full stack through the real nfc.dep exchange with link MIU 248/500/1024/2175 and I PDUs chained over 3+ '
                   'NFC-DEP frames in both directions; histories of one SnepClient object: one-shot requests, connect(second service) + requests + close, '
                   'one-shot again, against two servers, coupled and full-stack; second handover request on a connection; multi-record messages whose record boundaries fall '
                   'exactly on fragment boundaries; full-stack transfers of 17-35 fragments per direction with receive window '
                   '1, 2, 15). message sizes 0..6*MIU with k*MIU(-header)-7..+7, multi-record messages (2-4 records) with record '
                   'boundaries at k*MIU(-header)-1/0/+1, full-stack transfers of up to 40 fragments, MIU 128..2175 per side (biased to small MIUs, some '
                   'below 128 for the odd cases), acceptable-length limits at size-1/size/size+1 and further away, put/get/'
                   'handover, single operations and sessions of 2-4 operations on one connection; each coupled run also '
                   'yields scripted single-function cases (the valid conversation and mutated ones). non-trivial = at '
                   'least one message is fragmented / more than one delivery; distinct by hash of the case',
              explanation='theorems over all sizes/MIUs/interleavings for the model + differential runs of the real client '
                          'functions and server loops against the extracted automata and the extracted two-peer system')


if __name__ == '__main__':
    main()
