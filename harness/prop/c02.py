"""C02 - assembled from the tag parts (harness/parts/tags_*.py): TLV tags (Type 1/2) and block tags (Type 3/4)."""
import _parts

if __name__ == '__main__':
    _parts.main('C02', 'tags_', 'theorems over all layouts/lengths/cut points for the tag memory models + '
                'differential run of the real tag classes on simulated tags against the extracted models')
