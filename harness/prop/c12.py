"""C12 - ISO-DEP exchanges each APDU exactly once or reports a tag error.

Obligations: Props/C12.v (block bound, no-fault exactness with chaining both ways and WTX,
at-most-once / result soundness / termination for every fault script, against the card
written from ISO/IEC 14443-4).
Correspondence: real Type4ATag / Type4BTag objects over a fake clf whose exchange() talks to
harness/sim/isodep_card.py through a scripted air, against the extracted model
(reader + Coq card + air); the simulator itself is checked against the extracted Coq card.
Monitor: independent reading of the property text on the implementation's observations.
"""
import itertools
import json
import logging

from common import Check, hx

import nfc
import nfc.clf
import nfc.tag
import nfc.tag.tt4

from sim.isodep_card import Card, Air

logging.disable(logging.CRITICAL)

FSC = (16, 24, 32, 40, 48, 64, 96, 128, 256)
LIMIT = 3000          # clf.exchange calls per exchange before the harness declares a loop (= model fuel)


# ---------------------------------------------------------------- the fake frontend
class Loop(Exception):
    pass


class Link(object):
    """what is below clf.exchange(): the activation answer, then the scripted air to the card.  Records the timeout
    GRANTED with every block.  With timed=True time is simulated: the card answers after `busy` x the time it is
    entitled to - FWT, or WTXM x FWT for the block that follows the reader's S(WTX) response - and a reader that
    granted less has given up by then: nfc.clf.TimeoutError although no block was lost."""

    def __init__(self, air, act_rsp, card_fwi=4, timed=False, busy=0.73):
        self.air = air
        self.act_rsp = act_rsp
        self.act_cmd = None
        self.budget = LIMIT
        self.timeouts = []
        self.timed = timed
        self.busy = busy
        self.card_fwt = 4096 / 13.56E6 * 2 ** (card_fwi if card_fwi <= 14 else 4)
        self.deadline_misses = 0

    def xchg(self, data, timeout):
        if self.act_cmd is None:
            self.act_cmd = bytes(data)
            return bytearray(self.act_rsp)
        self.budget -= 1
        if self.budget < 0:
            raise Loop()
        self.timeouts.append(timeout)
        card = self.air.card
        entitled = self.card_fwt
        if card.pend is not None and bytes(data) == bytes([0xF2, card.pend[0]]):
            entitled = card.pend[0] * self.card_fwt          # FWT_TEMP = FWT x WTXM once the S(WTX) response is out
        r = self.air.exchange(data)
        if r[0] == 'rx' and self.timed and timeout is not None and timeout < self.busy * entitled:
            self.deadline_misses += 1
            r = ('timeout',)
        if r[0] == 'rx':
            return bytearray(r[1])
        if r[0] == 'timeout':
            raise nfc.clf.TimeoutError
        raise nfc.clf.TransmissionError


class FakeClf(object):
    """what Type4Tag needs from a ContactlessFrontend: exchange() and the two size limits"""

    def __init__(self, link, max_send=256, max_recv=256):
        self.link = link
        self.max_send_data_size = max_send
        self.max_recv_data_size = max_recv

    def exchange(self, data, timeout):
        return self.link.xchg(data, timeout)


class FakeDevice(object):
    """a contactless device under a REAL nfc.clf.ContactlessFrontend: exchange() of the frontend is in the path"""

    def __init__(self, link, max_send=256, max_recv=256):
        self.link = link
        self.max_send, self.max_recv = max_send, max_recv
        self.vendor_name, self.product_name, self.chipset_name, self.path = 'verif', 'fake device', 'sim', 'sim:c12'

    def get_max_send_data_size(self, target):
        return self.max_send

    def get_max_recv_data_size(self, target):
        return self.max_recv

    def send_cmd_recv_rsp(self, target, data, timeout):
        return self.link.xchg(data, timeout)

    def close(self):
        pass


def n_retry_of(fwi):
    """independent of the code: FWT = 256*16/fc * 2^FWI, budget = min(floor(1 s / FWT), 5)"""
    if fwi > 14:
        fwi = 4
    return min((13560000 * 10 ** 6) // (4096 * 2 ** fwi * 10 ** 6), 5)


def make_target(spec):
    if spec['type'] == 'A':
        t = nfc.clf.RemoteTarget("106A")
        t.sens_res = bytearray.fromhex("4403")
        t.sel_res = bytearray.fromhex("20")
        t.sdd_res = bytearray.fromhex("04832F9A272D80")
        act = bytes.fromhex(spec['act']) if 'act' in spec else bytes([5, 0x70 | spec['fsci'], 0x77, (spec['fwi'] << 4) | 1, 0x02])
    else:
        t = nfc.clf.RemoteTarget("106B")
        sensb = bytes.fromhex(spec['act']) if 'act' in spec else (
            bytes.fromhex('5030702A1C00000011') + bytes([0x00, (spec['fsci'] << 4) | 1, (spec['fwi'] << 4) | 5]))
        t.sensb_res = bytearray(sensb)
        act = b'\x00'
    return t, act


def activate(spec):
    cfsc = FSC[min(spec['fsci'], 8)]
    card = Card(cfsc=cfsc, cmiu=spec['cmiu'])
    air = Air(card)
    t, act = make_target(spec)
    link = Link(air, act, card_fwi=spec['fwi'], timed=bool(spec.get('realclf')), busy=spec.get('busy', 0.73))
    if spec.get('realclf'):
        clf = nfc.ContactlessFrontend()
        clf.device = FakeDevice(link, spec['max_send'], spec['max_recv'])
        clf.target = t
    else:
        clf = FakeClf(link, spec['max_send'], spec['max_recv'])
    tag = nfc.tag.activate(clf, t)
    return tag, link, card, air


def res_string(fn):
    try:
        r = fn()
        return 'ok=' + (hx(r) if r is not None and len(r) else '-')
    except nfc.tag.tt4.Type4TagCommandError as e:
        return 'err=TagCommandError:%d' % e.errno
    except nfc.clf.TimeoutError:
        return 'err=TimeoutError'
    except nfc.clf.TransmissionError:
        return 'err=TransmissionError'
    except nfc.clf.ProtocolError:
        return 'err=ProtocolError'
    except ValueError:
        return 'err=ValueError'
    except Loop:
        return 'hang'
    except Exception as e:  # noqa
        return 'crash=' + type(e).__name__


def pairs(script):
    return [(script[2 * i], script[2 * i + 1]) for i in range(len(script) // 2)]


def run_impl(spec):
    """the real code. returns (per item observations, final card state)"""
    tag, link, card, air = activate(spec)
    if tag is None:
        raise RuntimeError('activation of a well-formed Type 4 target was refused: %r' % {k: v for k, v in spec.items() if k != 'items'})
    if hasattr(tag._dep, 'max_extra_blocks') and spec.get('max_extra') is not None:
        tag._dep.max_extra_blocks = spec['max_extra']      # a small budget makes "card exceeds the budget" cheap to exercise
    spec['max_extra_eff'] = getattr(tag._dep, 'max_extra_blocks', 10 ** 9)
    obs = []
    for it in spec['items']:
        card.plan = [list(p) for p in it['plan']]
        air.script = pairs(it['script'])
        air.blocks = []
        link.budget = LIMIT
        link.timeouts = []
        link.deadline_misses = 0
        n0 = len(card.execs)
        if it['kind'] == 'T':
            r = res_string(lambda: tag.transceive(bytearray.fromhex(it['apdu'])))
        else:
            cla, ins, p1, p2, mrl = it['hdr']
            r = res_string(lambda: tag.send_apdu(cla, ins, p1, p2, bytearray.fromhex(it['data']), mrl, bool(it['check'])))
        obs.append({'res': r, 'pni': tag._dep.pni, 'blocks': list(air.blocks), 'nexecs': len(card.execs),
                    'new_execs': list(card.execs[n0:]), 'consumed': pairs(it['script'])[:len(air.blocks)],
                    'timeouts': list(link.timeouts), 'deadline_misses': link.deadline_misses})
    return obs, card.state(), tag


def plan_str(plan):
    return ';'.join(','.join(map(str, p)) or '-' for p in plan) or '-'


def model_line(spec, flags, tag):
    # reader parameters as the tag object holds them (their derivation is compared separately: 'params')
    miu, nnak, nack = tag._dep.miu, tag._dep.n_retry_nak, tag._dep.n_retry_ack
    mx = str(tag._dep.max_extra_blocks) if hasattr(tag._dep, 'max_extra_blocks') else '-'
    items = []
    for it in spec['items']:
        if it['kind'] == 'T':
            items.append('T:%s:%s:%s' % (it['apdu'] or '-', it['script'] or '-', plan_str(it['plan'])))
        else:
            items.append('A%d:%s:%s:%s:%s' % (it['check'], ','.join(map(str, it['hdr'])), it['data'] or '-',
                                               it['script'] or '-', plan_str(it['plan'])))
    return 'sess %d %d %d %s %s %d %d %d %s' % (miu, nnak, nack, flags, mx, FSC[min(spec['fsci'], 8)], spec['cmiu'], LIMIT, ' '.join(items))


def tstr(t):
    return 'none' if t is None else '%.9g' % t


def impl_line(obs, state):
    return ' '.join('%s;%d;%s;%d;%s' % (o['res'], o['pni'], ','.join(hx(b) for b in o['blocks']) or '-', o['nexecs'],
                                        ','.join(tstr(t) for t in o['timeouts']) or '-')
                    for o in obs) + ' | ' + state


def model_seconds(line, fwt, dflt):
    """the model gives the timeout of every block as a multiple of fwt (0 = the default fwt + delta_fwt): to seconds"""
    items, sep, state = line.partition(' | ')
    out = []
    for it in items.split(' '):
        f = it.split(';')
        if len(f) == 5 and f[4] != '-':
            f[4] = ','.join(tstr(dflt if m == '0' else int(m) * fwt) for m in f[4].split(','))
        out.append(';'.join(f))
    return ' '.join(out) + sep + state


# ---------------------------------------------------------------- variant detection
class ScriptClf(object):
    def __init__(self, rsps):
        self.rsps = list(rsps)
        self.sent = []

    def exchange(self, data, timeout):
        self.sent.append(bytes(data))
        if len(self.sent) > 12 or not self.rsps:
            raise Loop()
        r = self.rsps.pop(0)
        if isinstance(r, type) and issubclass(r, Exception):
            raise r
        return bytearray(r)


def detect_variant():
    """which of the three repairs does the tree under test contain (fixes/c12-*.diff)"""
    dep = nfc.tag.tt4.IsoDepInitiator(ScriptClf([b'\xf2\x01', nfc.clf.TimeoutError, b'\x02\x90\x00']), 16, 0.3)
    a = res_string(lambda: dep.exchange(bytearray(b'\x00\xa4\x00\x00')))
    f1 = '1' if a == 'ok=9000' else '0'
    dep = nfc.tag.tt4.IsoDepInitiator(ScriptClf([b'\x12\xaa', b'\xf2\x01', b'\x03\x90\x00']), 16, 0.3)
    a = res_string(lambda: dep.exchange(bytearray(b'\x00\xa4\x00\x00')))
    f2 = '1' if a == 'ok=aa9000' else '0'
    clf = ScriptClf([b'\xa3'] * 12)
    dep = nfc.tag.tt4.IsoDepInitiator(clf, 16, 2.0)
    a = res_string(lambda: dep.exchange(bytearray(b'\x00\xa4\x00\x00')))
    f3 = '0' if a == 'hang' else '1'
    return f1 + f2 + f3


# ---------------------------------------------------------------- the monitor
def kind_of(b):
    if len(b) == 0:
        return '?'
    if b[0] & 0xE2 == 0x02:
        return 'I'
    if b[0] & 0xF6 == 0xA2:
        return 'ACK'
    if b[0] & 0xF6 == 0xB2:
        return 'NAK'
    if b[0] & 0xF7 == 0xF2:
        return 'WTX'
    return '?'


def absorbable(blocks, consumed, budget):
    """no protocol step (one block and its acknowledgement, with all retries) suffers more faults than
    the retry budget; fault runs of one step separated by a recovery round share the budget."""
    steps, cur = [], None
    for r, b in enumerate(blocks):
        k = kind_of(b)
        if k in ('I', 'ACK') and b != cur:
            cur = b
            steps.append([])
        if not steps:
            steps.append([])
        fate = consumed[r] if r < len(consumed) else ('D', 'D')
        steps[-1].append(fate != ('D', 'D'))
    for s in steps:
        f = sum(s)
        runs = sum(1 for i, x in enumerate(s) if x and (i == 0 or not s[i - 1]))
        if f and f + runs - 1 > budget:
            return False
    return True


def expected(it, resp):
    """what the caller must get when the card's response to this APDU is resp"""
    if it['kind'] == 'T':
        return 'ok=' + (hx(resp) if resp else '-')
    if len(resp) < 2:
        return 'err=TagCommandError:-2'
    if not it['check']:
        return 'ok=' + hx(resp)
    if resp[-2:] != b'\x90\x00':
        return 'err=TagCommandError:%d' % (resp[-2] * 256 + resp[-1])
    return 'ok=' + (hx(resp[:-2]) if len(resp) > 2 else '-')


def sent_apdu(it):
    if it['kind'] == 'T':
        return bytes.fromhex(it['apdu'])
    cla, ins, p1, p2, mrl = it['hdr']
    d = bytes.fromhex(it['data'])
    a = bytes([cla, ins, p1, p2])
    if d:
        a += bytes([len(d)]) + d
    if mrl > 0:
        a += bytes([0 if mrl == 256 else mrl])
    return a


def monitor(ck, spec, obs, card):
    cfsc = FSC[min(spec['fsci'], 8)]
    budget = n_retry_of(spec['fwi'])
    synced = True
    earlier = []
    nex = 0
    for idx, (it, o) in enumerate(zip(spec['items'], obs)):
        if it.get('nomonitor'):
            nex = o['nexecs']
            continue
        pre = '' if synced else 'desync:'
        ctx = ('wtx' if any(it['plan']) else 'plain') + ('-faults' if any(f != ('D', 'D') for f in o['consumed']) else '')
        data = {'spec': spec, 'item': idx, 'observed': {k: (v if k not in ('blocks', 'new_execs') else [hx(b) for b in v])
                                                         for k, v in o.items() if k != 'consumed'}}
        res = o['res']
        if res == 'err=ValueError' and it['kind'] == 'A' and (len(it['data']) // 2 > 255 or it['hdr'][4] > 256):
            nex = o['nexecs']
            continue            # documented argument check, nothing was sent
        apdu = sent_apdu(it)
        new = o['new_execs']
        # every execution is logged by the card with its response
        resp = [card.app(nex + j, a) for j, a in enumerate(new)]
        if not (res.startswith('ok=') or res.startswith('err=TagCommandError')):
            ck.violation(pre + 'exception:%s:%s' % (res.split('=')[-1], ctx),
                         'send_apdu/transceive ended with %s instead of a value or Type4TagCommandError' % res, data)
        if len(new) > 1:
            ck.violation(pre + 'duplicate-execution:' + ctx, 'the card executed the APDU %d times' % len(new), data)
        if new and any(a != apdu for a in new):
            ck.violation(pre + 'wrong-apdu-executed:' + ctx, 'the card executed an APDU that differs from the one sent', data)
        if res.startswith('ok=') or (res.startswith('err=TagCommandError') and it['kind'] == 'A' and int(res.split(':')[1]) > 0):
            good = len(new) == 1 and new[0] == apdu and res == expected(it, resp[0])
            if not good:
                what = 'other'
                if any(res == expected(it, e) for e in earlier):
                    what = 'stale'
                elif len(new) == 0:
                    what = 'not-executed'
                ck.violation(pre + 'wrong-response:%s:%s' % (what, ctx),
                             'the value returned is not the complete response of the single execution of this APDU (%s)' % what, data)
        for b in o['blocks']:
            if len(b) + 2 > cfsc:
                ck.violation(pre + 'block-too-long', 'a block of %d bytes (+2 EDC) exceeds the card frame size %d' % (len(b), cfsc), data)
                break
        # S(WTX) requests + chained response blocks (+ one repeated S(WTX) per faulty round) within max_extra_blocks
        nfault = sum(1 for f in o['consumed'] if f != ('D', 'D'))
        rlen = len(resp[0]) if resp else 0
        extra = sum(len(p_) for p_ in it['plan']) + max(0, -(-rlen // spec['cmiu']) - 1) + nfault
        within = extra <= spec.get('max_extra_eff', 65538)
        if synced and within and absorbable(o['blocks'], o['consumed'], budget):
            if not (len(new) == 1 and res == expected(it, resp[0])):
                ck.violation('unabsorbed:' + ctx, 'a fault pattern within the retry budget (or no fault at all) was not absorbed: %s' % res, data)
        earlier += resp
        nex = o['nexecs']
        exact = len(new) == 1 and new[0] == apdu and res == expected(it, resp[0])
        if not exact:
            synced = False      # block numbers of reader and card may differ from here on


# ---------------------------------------------------------------- case generation
def T(apdu, script='', plan=()):
    return {'kind': 'T', 'apdu': hx(apdu), 'script': script, 'plan': [list(p) for p in plan]}


def A(hdr, data=b'', check=1, script='', plan=()):
    return {'kind': 'A', 'hdr': list(hdr), 'data': hx(data), 'check': check, 'script': script, 'plan': [list(p) for p in plan]}


def raw_apdu(rng, clen, rlen):
    """raw command of clen bytes (>= 4) asking the demo application for rlen response bytes"""
    clen = max(clen, 4)
    return bytes([0xFF, rng.randrange(256), rlen >> 8, rlen & 255]) + bytes(rng.randrange(256) for _ in range(clen - 4))


def spec_of(typ='A', fsci=8, fwi=4, cmiu=253, items=(), max_send=256, max_recv=256):
    return {'type': typ, 'fsci': fsci, 'fwi': fwi, 'max_send': max_send, 'max_recv': max_recv, 'cmiu': cmiu, 'items': list(items)}


def nblocks(n, size):
    return max(1, -(-n // size))


FAULTS = ('LD', 'DL', 'DC', 'CD')


def fault_scripts(nrounds, nfaults, kinds):
    """all scripts with at most nfaults faulty rounds among the first nrounds"""
    yield ''
    for f in range(1, nfaults + 1):
        for pos in itertools.combinations(range(nrounds), f):
            for ks in itertools.product(kinds, repeat=f):
                s = ['DD'] * (pos[-1] + 1)
                for p, k in zip(pos, ks):
                    s[p] = k
                yield ''.join(s)


def main():
    ck = Check('C12')
    ck.trusted = ['Coq 8.16.1 kernel (vm_compute only in the non-vacuity / refutation examples and the FWI 0..14 sweep); no native_compute',
                  'translate/kspec_c12.py (fail-closed ast generator for the arithmetic and PCB expressions of tt4.py; floats as exact rationals)',
                  'extraction: ExtrOcamlBasic only; extract/c12_run.ml driver; OCaml 4.13.1',
                  'harness/sim/isodep_card.py (checked against the extracted Coq card on every run) and the fake clf of harness/prop/c12.py']
    ck.assumptions = ['the card follows ISO/IEC 14443-4 (block numbering rules C-E, handling rules 2, 3, 9-13, mute on error), without CID/NAD',
                      'a lost or corrupted block towards the card and a lost answer surface as nfc.clf.TimeoutError, a corrupted answer '
                      'as nfc.clf.TransmissionError (driver error mapping is C13)',
                      'theorems and the exactness demand are about an exchange that starts with reader and card block numbers in step '
                      '(after activation or after successful exchanges); see the known finding for exchanges after a failed one',
                      'frame waiting times: the model gives the timeout granted with every block (default, or WTXM x fwt with the S(WTX) response); '
                      'the harness device on simulated time takes a card to be entitled to FWT, and to WTXM x FWT after the S(WTX) response '
                      '(ISO/IEC 14443-4 caps FWT_TEMP at FWT_MAX = 4.95 s; tt4.py does not, and neither does this oracle)',
                      'activation parameters are compared for well-formed RATS / SENSB_RES answers only (T0 announcing TA(1), TB(1)); '
                      'malformed answers and an S(WTX) block without WTXM byte are C08 (Model/TagAct.v, Model/TagReadAnyB.v)']
    ck.coq(gen=['IsoDepK'],
           targets=['Proofs/IsoDep.vo', 'Proofs/IsoDepSync.vo', 'Proofs/IsoDepLegacy.vo', 'Proofs/IsoDepApdu.vo',
                    'Proofs/IsoDepBudget.vo', 'Proofs/IsoDepStream.vo', 'Proofs/IsoDepSession.vo', 'Bridge/IsoDep.vo'], props='C12')
    mr = ck.model()
    if mr is None:
        ck.finish()
    rng = ck.rng
    quick = ck.tier == 'quick'
    flags = detect_variant()
    ck.count('variant-' + flags)
    if flags[:2] != '11':
        ck.notes.append('tree under test lacks repairs %s; the theorems are about the repaired reader' % flags)

    specs = []      # (kind, spec)

    def add(kind, spec):
        specs.append((kind, spec))

    # ---- replay of a stored case
    if ck.replay:
        rp = json.load(open(ck.replay))
        case = rp.get('case', {})
        if 'spec' in case:
            add('replay', case['spec'])
    else:
        # ---- corpus of minimised past failures
        add('corpus', spec_of(items=[T(bytes([0xFF, 0, 0, 5]), 'DDDL', [[1]])]))                       # S(WTX), then its answer is lost
        add('corpus', spec_of(items=[T(bytes([0xFF, 0, 0, 5]), 'DDDC', [[1]])]))
        add('corpus', spec_of(fsci=0, cmiu=13, items=[T(bytes([0xFF, 0, 0, 30]), '', [[], [3]])]))      # S(WTX) while the card chains
        add('corpus', spec_of(fsci=0, cmiu=13, items=[T(bytes([0xFF, 0, 0, 1])), T(bytes([0xFF, 0, 0, 30]), '', [[], [3]])]))
        add('corpus', spec_of(fwi=11, items=[T(bytes([0xFF, 1, 0, 5]), 'DLDL'), T(bytes([0xFF, 2, 0, 5]), 'LD')]))  # stale response after a failed exchange
        add('corpus', spec_of(fwi=11, items=[T(bytes([0xFF, 1, 0, 5]), 'DLDL'), T(bytes([0xFF, 2, 0, 5]), 'DL')]))  # executed twice after a failed exchange
        add('corpus', spec_of(items=[A((0, 0x6C, 0, 3, 16), b'', check=1), A((0, 0x6C, 0, 3, 0), b'\x01\x02', check=1)]))   # status 6C05: one execution, the status is reported
        e = T(b'')
        e['nomonitor'] = 1                                                                              # not an APDU: correspondence only
        add('corpus', spec_of(items=[e]))

        # ---- no-fault size sweep: lengths around k*(FSC-3), both chainings, all FSCI, 4A/4B
        for fsci in range(9):
            miu = FSC[fsci] - 3
            for cmiu in sorted({13, miu, 253 if not quick else miu}):
                clens = sorted({4, miu - 1, miu, miu + 1, 2 * miu - 1, 2 * miu, 2 * miu + 1, 3 * miu, 3 * miu + 1} - set(range(4)))
                rlens = sorted({0, 1, 2, cmiu - 1, cmiu, cmiu + 1, 2 * cmiu - 1, 2 * cmiu, 2 * cmiu + 1, 3 * cmiu})
                if quick:
                    clens = [c for c in clens if c <= 520]
                    rlens = [r for r in rlens if r <= 520]
                items = []
                for cl in clens:
                    for rl in (rlens if not quick else rng.sample(rlens, min(4, len(rlens)))):
                        items.append(T(raw_apdu(rng, cl, rl)))
                for chunk in range(0, len(items), 6):
                    add('nofault', spec_of(typ='AB'[(fsci + chunk) % 2], fsci=fsci, cmiu=cmiu, items=items[chunk:chunk + 6]))
        # send_apdu: header/Lc/Le encoding and status handling on top of the exchange
        for _ in range(150 if quick else 1500):
            fsci = rng.randrange(9)
            items = []
            for _ in range(4):
                dl = rng.choice([0, 1, 2, 13, 14, 60, 250, 255, 256, 300])
                mrl = rng.choice([0, 1, 10, 255, 256, 257, rng.randrange(0, 256)])
                ins = rng.choice([0xA4, 0xB0, 0xD6, 0xEE, 0x6C])
                p1p2 = rng.choice([0, 1, 2, 12, 13, 14, 100, 300, rng.randrange(0, 600)])
                items.append(A((rng.choice([0, 0x80, 0xFF]), ins, p1p2 >> 8, p1p2 & 255, mrl), bytes(rng.randrange(256) for _ in range(dl)),
                               check=rng.randrange(2), script=rng.choice(['', '', 'LD', 'DL', 'DDDC']), plan=rng.choice([[], [[2]], [[], [1]]])))
            add('send_apdu', spec_of(typ=rng.choice('AB'), fsci=fsci, fwi=rng.choice([4, 9, 10, 11]), cmiu=rng.choice([13, 61, 253]), items=items))

        # ---- WTX at every position (no faults), one or two requests, alone and everywhere
        for fsci, cmiu, cl, rl in ((0, 13, 4, 5), (0, 13, 20, 5), (0, 13, 30, 30), (0, 13, 4, 40), (1, 21, 43, 43), (8, 253, 300, 600), (0, 5, 40, 12)):
            miu = FSC[fsci] - 3
            nopp = nblocks(cl, miu) + nblocks(rl, cmiu)
            plans = [[[]] * j + [[w]] for j in range(nopp) for w in (1, 59)] + [[[]] * j + [[2, 3]] for j in range(nopp)]
            plans += [[[1]] * nopp, [[1, 2, 3]] * nopp]
            for warm in (0, 1):
                for pl in plans:
                    items = ([T(bytes([0xFF, 0, 0, 1]))] if warm else []) + [T(raw_apdu(rng, cl, rl), '', pl)]
                    sp = spec_of(fsci=fsci, cmiu=cmiu, items=items)
                    sp['realclf'] = 1
                    add('wtx', sp)
        # ---- waiting times: a real ContactlessFrontend over a fake device on simulated time; the card uses 73% (or 99%) of
        # the time it is entitled to (FWT, WTXM x FWT after the reader's S(WTX) response), FWI 4 and 8..14, WTXM up to 59
        for fwi in (4, 8, 9, 10, 11, 12, 13, 14):
            for w in (1, 2, 5, 20, 59):
                for cl, rl, pl in ((4, 5, [[w]]), (4, 30, [[], [w]]), (20, 5, [[w], [w]]), (4, 30, [[w, w], [], [w]])):
                    for busy in (0.73, 0.99):
                        for sc in ('', 'DL', 'DDDDLD'):
                            sp = spec_of(typ='AB'[(fwi + w) % 2], fsci=0, fwi=fwi, cmiu=13, items=[T(raw_apdu(rng, cl, rl), sc, pl)])
                            sp['realclf'] = 1
                            sp['busy'] = busy
                            add('timing', sp)

        # ---- exhaustive fault scripts over short exchanges (both chainings, WTX), all budgets, both block numbers
        nf = 2 if quick else 3
        kinds = FAULTS
        shapes = [(4, 5, []), (20, 5, []), (4, 20, []), (20, 20, []), (4, 5, [[7]]), (4, 20, [[], [7]]), (20, 5, [[7]])]
        for cl, rl, pl in shapes:
            nominal = nblocks(cl, 13) + nblocks(rl, 13) - 1 + sum(len(p) for p in pl)
            for fwi in (12, 11, 10, 4):
                for warm in (0, 1):
                    nfl = nf + 1 if (not quick and nominal <= 2 and fwi in (10, 4)) else nf
                    for sc in fault_scripts(nominal + (2 if quick else 3), nfl, kinds):
                        items = ([T(bytes([0xFF, 0, 0, 1]))] if warm else []) + [T(raw_apdu(rng, cl, rl), sc, pl)]
                        add('exhaustive', spec_of(fsci=0, fwi=fwi, cmiu=13, items=items))

        # ---- the shared budget of S(WTX) requests and chained response blocks (HEAD: max_extra_blocks), patched small
        for mxv in (0, 1, 2, 3, 4, 6):
            for cl, rl, pl in ((4, 5, []), (4, 5, [[7]]), (4, 5, [[7, 8]]), (4, 20, []), (4, 40, []), (4, 40, [[], [3], [4]]), (20, 30, [[1], [2], [3]]),
                               (30, 5, [[1], [1], [1, 1]]), (4, 60, [[], [], [], [9]])):
                nominal = nblocks(cl, 13) + nblocks(rl, 13) - 1 + sum(len(p_) for p_ in pl)
                for sc in fault_scripts(nominal + 2, 1 if quick else 2, FAULTS):
                    for warm in (0, 1):
                        items = ([T(bytes([0xFF, 0, 0, 1]))] if warm else []) + [T(raw_apdu(rng, cl, rl), sc, pl)]
                        sp = spec_of(fsci=0, fwi=4, cmiu=13, items=items)
                        sp['max_extra'] = mxv
                        add('budget', sp)
        # ---- random sessions
        for _ in range(6000 if quick else 150000):
            fsci = rng.choice([0, 0, 1, 2, 3, 4, 5, 6, 7, 8, rng.randrange(16)])
            max_send = rng.choice([256, 256, 256, 255, 64, 20])
            miu = min(FSC[min(fsci, 8)], max_send) - 3
            cmiu = rng.choice([1, 5, 13, 29, 125, 253])
            fwi = rng.choice([0, 4, 8, 9, 10, 11, 12, 14, 15])
            items = []
            for _ in range(rng.randrange(1, 5)):
                k = rng.randrange(0, 4)
                cl = max(4, k * miu + rng.choice([-1, 0, 1, rng.randrange(0, miu)])) if k else rng.randrange(4, miu + 1)
                cl = min(cl, 700)
                k = rng.randrange(0, 4)
                rl = max(0, k * cmiu + rng.choice([-1, 0, 1, rng.randrange(0, cmiu)]))
                rl = min(rl, 40 * cmiu, 700)
                nr = nblocks(cl, miu) + nblocks(rl, cmiu)
                dens = rng.choice([0, 0.05, 0.15, 0.3, 0.6])
                sc = ''.join(rng.choice(FAULTS) if rng.random() < dens else 'DD' for _ in range(nr * 3))
                pl = [[rng.randrange(1, 60) for _ in range(rng.choice([1, 1, 2]))] if rng.random() < 0.2 else [] for _ in range(nr)]
                items.append(T(raw_apdu(rng, cl, rl), sc, pl))
            sp = spec_of(typ=rng.choice('AB'), fsci=fsci, fwi=fwi, cmiu=cmiu, items=items, max_send=max_send,
                         max_recv=rng.choice([256, 256, 128]))
            if rng.random() < 0.25:
                sp['realclf'] = 1
            add('random', sp)

    # ------------------------------------------------------------------ run implementation + monitor
    lines, expect = [], []
    for kind, spec in specs:
        obs, state, tag = run_impl(spec)
        lines.append(model_line(spec, flags, tag))
        expect.append((kind, spec, impl_line(obs, state), tag._dep.fwt, tag._dep.fwt + tag._dep.delta_fwt))
        card = Card()
        monitor(ck, spec, obs, card)
        for it, o in zip(spec['items'], obs):
            nontrivial = len(o['blocks']) > 1
            ck.case(('x', spec['type'], spec['fsci'], spec['fwi'], spec['cmiu'], it.get('apdu', it.get('data')), it['script'], str(it['plan'])),
                    nontrivial, {'kind': kind, 'fsci': spec['fsci'], 'fwi': spec['fwi'], 'script': it['script'][:40],
                                 'plan': str(it['plan'])[:40], 'blocks': len(o['blocks']), 'result': o['res'][:40]})
            ck.count(kind)
            ck.count('result-' + o['res'].split('=')[0] + ('' if not o['res'].startswith('err') else ':' + o['res'].split('=')[1]))

    # ------------------------------------------------------------------ activation parameters
    act_lines, act_expect = [], []
    if not ck.replay:
        acts = []
        for typ in 'AB':
            for fsci in range(16):
                for fwi in range(16):
                    for ms, mrv in ((256, 256), (255, 255), (64, 128), (20, 256)):
                        if quick and (fsci + fwi + ms) % 3 and (ms, mrv) != (256, 256):
                            continue
                        acts.append((typ, fsci, fwi, ms, mrv, None))
        # malformed / truncated ATS and SENSB_RES are C08's business (coq/Model/TagAct.v, fixes/c08-01, c08-02):
        # the pinned code raises IndexError there, the repaired code returns None from activate; C12 compares
        # only well-formed answers (T0 announcing TA(1) and TB(1)), on which both parsers and t4a_params agree
        for typ, fsci, fwi, ms, mrv, act in acts:
            spec = spec_of(typ=typ, fsci=fsci, fwi=fwi, max_send=ms, max_recv=mrv)
            if act is not None:
                spec['act'] = act
            t, actrsp = make_target(spec)
            clf = FakeClf(Link(None, actrsp), ms, mrv)
            try:
                tag = nfc.tag.activate(clf, t)
                if tag is None:
                    ck.count('activation-refused')
                    ck.broken.append('activation of a well-formed Type 4%s target was refused (FSCI %d FWI %d)' % (typ, fsci, fwi))
                    continue
                d = tag._dep
                got = 'ok tail=%d fsc=%d miu=%d retry=%d' % (clf.link.act_cmd[1] >> 4 if typ == 'A' else clf.link.act_cmd[6], d.miu + 3, d.miu, d.n_retry_nak)
                if d.n_retry_ack != d.n_retry_nak:
                    got += ' ack=%d' % d.n_retry_ack
                # monitor: never more than the card's frame size, never more than the device can send
                if act is None and (d.miu + 3 > FSC[min(fsci, 8)] or d.miu + 3 > ms):
                    ck.violation('fsc-derivation', 'frame size derived at activation exceeds card FSC or device limit', {'spec': spec, 'miu': d.miu})
                if act is None and d.n_retry_nak != n_retry_of(fwi):
                    ck.violation('retry-derivation', 'retry budget differs from min(floor(1s/FWT),5)', {'spec': spec, 'n': d.n_retry_nak})
            except IndexError:
                got = 'crash IndexError'
            hexa = (hx(actrsp) if typ == 'A' else hx(t.sensb_res)) or '-'
            act_lines.append('params %s %s %d %d' % (typ.lower(), hexa, ms, mrv))
            act_expect.append(got)
            ck.case(('act', typ, fsci, fwi, ms, mrv, act), True)
            ck.count('activation')

    # ------------------------------------------------------------------ simulator against the extracted Coq card
    sim_lines, sim_expect = [], []
    if not ck.replay:
        for _ in range(5000 if quick else 60000):
            cfsc = rng.choice(FSC)
            cmiu = rng.choice([1, 3, 13, 29, 253])
            plan = [[rng.randrange(1, 60) for _ in range(rng.choice([1, 2]))] if rng.random() < 0.3 else [] for _ in range(rng.randrange(0, 6))]
            card = Card(cfsc=cfsc, cmiu=cmiu, plan=plan)
            blks, outs = [], []
            for _ in range(rng.randrange(1, 16)):
                c = rng.random()
                if c < 0.35:
                    n = rng.choice([0, 1, 4, 5, cfsc - 3, cfsc - 2, rng.randrange(0, 20)])
                    # INF bytes kept small so that the demo application's response length (apdu[2]*256+apdu[3]) stays below 520
                    inf = [rng.choice([0xFF, 0x00])] + [rng.choice([0, 0, 0, 1, 2]) for _ in range(max(0, n - 1))]
                    b = bytes([rng.choice([0x02, 0x03, 0x12, 0x13, 0x02, 0x03, 0x0A, 0x06, 0x22])] + inf[:max(0, n)])
                elif c < 0.75:
                    b = bytes([rng.choice([0xA2, 0xA3, 0xB2, 0xB3, 0xA2, 0xA3, 0xB2, 0xB3, 0xAA, 0xBA, 0xA6])]) + (b'\x00' if rng.random() < 0.05 else b'')
                elif c < 0.93:
                    w = card.pend[0] if (card.pend and rng.random() < 0.8) else rng.randrange(1, 60)
                    b = bytes([rng.choice([0xF2, 0xF2, 0xF2, 0xFA, 0xC2]), w]) + (b'\x01' if rng.random() < 0.05 else b'')
                else:
                    b = bytes(rng.randrange(256) for _ in range(rng.randrange(0, 4)))
                r = card.absorb(b)
                blks.append(hx(b) or '-')
                outs.append('none' if r is None else (hx(r) or '-'))
            sim_lines.append('picc %d %d %s %s' % (cfsc, cmiu, plan_str(plan), ' '.join(blks)))
            sim_expect.append(' '.join(outs) + ' | ' + card.state())
            ck.count('sim-vs-coq-card')

    # ------------------------------------------------------------------ reader alone against scripted (also non-conformant) answers
    # IsoDepInitiator.exchange over a clf that answers from a list (then times out for ever) vs run_stream of the model:
    # short S-blocks (F2 / F3 without WTXM), empty answers, R(NAK), wrong block numbers, blocks with CID bits, ...
    str_lines, str_expect = [], []
    if not ck.replay:
        alphabet = ['02aabb', '03aabb', '12aa', '13aa', '0290', '03', '02', 'a2', 'a3', 'b2', 'b3', 'f2', 'f3', 'f201', 'f23b', 'f301',
                    'f20102', '', 'T', 'E', 'P', 'c2', '0a00aa', 'aa', '22']
        streams = [[x] for x in alphabet] + [[x, y] for x in ('f201', '12aa', 'a3', 'T', 'E', '02aa') for y in alphabet]
        streams += [['12aa', 'f201', y] for y in alphabet] + [['f201', 'f201', y] for y in alphabet]
        streams += [['12aa', '13bb', '12cc', '03dd'], ['f201', 'f202', 'f203', '0290'], ['12aa', 'f201', '13bb', 'f201', '02cc'],
                    ['f201', '12aa', 'T', 'f201', '03bb'], ['12aa', '13bb', 'T', '12cc', '03dd']]
        for _ in range(1500 if quick else 20000):
            streams.append([rng.choice(alphabet) for _ in range(rng.randrange(1, 8))])
        for st in streams:
            for cmdhex, fwt, nretry, mxv in (('00a40000', 0.3, 3, None), ('00a4040007d276000085010100', 2.0, 0, 1),
                                             ('00a4040007d276000085010100', 0.6, 1, 2), ('00a40000', 0.3, 3, 0)):
                rsps = [nfc.clf.TimeoutError if x == 'T' else nfc.clf.TransmissionError if x == 'E' else nfc.clf.ProtocolError if x == 'P'
                        else bytes.fromhex(x) for x in st]

                class Clf(object):
                    def __init__(self):
                        self.q = list(rsps)
                        self.n = 0

                    def exchange(self, data, timeout):
                        self.n += 1
                        if self.n > 60:
                            raise Loop()
                        r = self.q.pop(0) if self.q else nfc.clf.TimeoutError
                        if isinstance(r, type):
                            raise r
                        return bytearray(r)
                dep = nfc.tag.tt4.IsoDepInitiator(Clf(), 16, fwt)
                assert dep.n_retry_nak == nretry
                mxs = '-'
                if hasattr(dep, 'max_extra_blocks'):
                    dep.max_extra_blocks = mxv if mxv is not None else dep.max_extra_blocks
                    mxs = str(dep.max_extra_blocks)
                got = res_string(lambda: dep.exchange(bytearray.fromhex(cmdhex)))
                str_lines.append('stream 13 %d %d %s %s 60 %s %s T' % (nretry, nretry, flags, mxs, cmdhex, ' '.join(x or '-' for x in st)))
                str_expect.append(got)
                ck.case(('stream', tuple(st), cmdhex, nretry), True)
                ck.count('reader-vs-scripted-answers')

    # ------------------------------------------------------------------ model run + compare
    out = mr.run(lines + act_lines + sim_lines + str_lines)
    nmis = 0
    for line, (kind, spec, impl, fwt_, dflt_), got in zip(lines, expect, out):
        got = model_seconds(got, fwt_, dflt_)
        if got != impl:
            nmis += 1
            if nmis <= 5:
                ck.correspondence_mismatch('exchange/' + kind, {'spec': spec, 'flags': flags, 'impl': impl[:600], 'model': got[:600]})
    for line, impl, got in zip(act_lines, act_expect, out[len(lines):]):
        if got != impl:
            nmis += 1
            ck.correspondence_mismatch('activation', {'input': line, 'impl': impl, 'model': got})
    for line, impl, got in zip(sim_lines, sim_expect, out[len(lines) + len(act_lines):]):
        if got != impl:
            nmis += 1
            ck.correspondence_mismatch('simulator-vs-coq-card', {'input': line[:400], 'sim': impl[:400], 'coq': got[:400]})
    for line, impl, got in zip(str_lines, str_expect, out[len(lines) + len(act_lines) + len(sim_lines):]):
        if got.replace(' ', '=', 1) != impl and got != impl:
            nmis += 1
            ck.correspondence_mismatch('reader-vs-scripted-answers', {'input': line, 'impl': impl, 'model': got})
    ck.cov['traces_validated_against_impl'] = len(lines) + len(act_lines) + len(sim_lines) + len(str_lines) - nmis

    # ------------------------------------------------------------------ informational: non-conformant responder (C08)
    clf = ScriptClf([b'\xa3'] * 12)
    dep = nfc.tag.tt4.IsoDepInitiator(clf, 16, 0.3)
    r = res_string(lambda: dep.exchange(bytearray(b'\x00\xa4\x00\x00')))
    ck.count('info-rack-loop-unbounded' if r == 'hang' else 'info-rack-loop-bounded')
    got = mr.run(['stream 13 3 3 %s - 12 00a40000 a3' % flags])[0]
    if (got == 'hang') != (r == 'hang'):
        ck.correspondence_mismatch('rack-stream', {'impl': r, 'model': got})

    if flags[:2] != '11' and not ck.violations:
        ck.broken.append('the tree under test is not the repaired reader the theorems are about (variant %s) '
                         'and the search found no failing input' % flags)
    ck.finish(level='proof',
              rule='sessions of 1-4 APDUs on real Type4ATag/Type4BTag objects over the scripted air and the ISO 14443-4 card: '
                   'command and response lengths around k*(FSC-3) for FSCI 0..8 (RFU 9..15 in the random part), all FWI retry budgets, '
                   'device frame limits; S(WTX) at every opportunity; every fault script with <= 2 (quick) / 3 (thorough) faulty rounds '
                   'over short exchanges with and without chaining/WTX for budgets 0,1,3,5 and both block numbers; random scripts beyond; '
                   'activation parameters for every FSCI x FWI; simulator vs Coq card on random block sequences. '
                   'non-trivial = more than one block exchanged (chaining, WTX or a fault); distinct by hash of the canonical case',
              explanation='theorems for all scripts/sizes about the model (reader step machine + ISO 14443-4 card + air), tied to '
                          'tt4.py by a differential run of the real tag classes against the extracted model, plus an independent monitor')


if __name__ == '__main__':
    main()
