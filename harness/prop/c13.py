"""C13 - drivers report RF and host-link failures only as documented errors.

Obligations: Skel/ExnCheck.v (soundness of the exception-flow analysis), Bridge/C13Skel.v (the
analysis evaluated on the skeletons regenerated from the driver sources on this run:
escapes(ContactlessFrontend.exchange) is a subset of the documented classes, per driver),
Proofs/DrvMap.v (status -> exception maps total over all 256 PN53x codes / all 32-bit RC-S380
status words), Props/C13.v.

Dynamic part: every real driver on a fake host link (sim/chipsets.py) behind a real
ContactlessFrontend, a target of every kind; at every host command of an exchange every status
code / status word, error frame, timeout, IOError variant, device gone, truncated and garbled
response is injected.  Monitor: ContactlessFrontend.exchange returns or raises a
nfc.clf.CommunicationError subclass or IOError.  Correspondence: the observed class is in the set
the skeleton analysis computes for that driver and direction, and the outcome of a status / error
frame / I/O error injection equals what the extracted DrvMap model says.
"""
import collections
import errno
import json
import logging
import os
import re
import sys

from common import Check, COQ

import nfc.clf
from sim import c13_world as W
from sim import chipsets as CS

logging.disable(logging.CRITICAL)

IOERRNOS = (errno.EIO, errno.ENODEV, errno.ETIMEDOUT, errno.EPIPE, errno.EACCES)
# classes the skeletons can predict: explicit flow, and the implicit raises of operations on host data
EXPLICIT = {'IOError', 'TimeoutError', 'BrokenLinkError', 'TransmissionError', 'ProtocolError', 'CommunicationError',
            'UnsupportedTargetError', 'ChipsetError', 'RcsCommunicationError', 'RcsStatusError', 'ValueError',
            'BinasciiError', 'UnicodeDecodeError', 'AssertionError', 'NotImplementedError',
            'IndexError', 'StructError'}


def class_name(t):
    """skeleton class name of an exception type"""
    import binascii
    import struct
    import nfc.clf.pn53x
    import nfc.clf.rcs380
    if issubclass(t, nfc.clf.TimeoutError):
        return 'TimeoutError'
    if issubclass(t, nfc.clf.BrokenLinkError):
        return 'BrokenLinkError'
    if issubclass(t, nfc.clf.TransmissionError):
        return 'TransmissionError'
    if issubclass(t, nfc.clf.ProtocolError):
        return 'ProtocolError'
    if issubclass(t, nfc.clf.CommunicationError):
        return 'CommunicationError'
    if issubclass(t, nfc.clf.UnsupportedTargetError):
        return 'UnsupportedTargetError'
    if issubclass(t, IOError):
        return 'IOError'
    if issubclass(t, nfc.clf.pn53x.Chipset.Error):
        return 'ChipsetError'
    if issubclass(t, nfc.clf.rcs380.CommunicationError):
        return 'RcsCommunicationError'
    if issubclass(t, nfc.clf.rcs380.StatusError):
        return 'RcsStatusError'
    if issubclass(t, binascii.Error):
        return 'BinasciiError'
    if issubclass(t, UnicodeDecodeError):
        return 'UnicodeDecodeError'
    if issubclass(t, struct.error):
        return 'StructError'
    return t.__name__


def documented(tag, val):
    """the monitor: an independent reading of the property text"""
    if tag == 'ok':
        return val is None or isinstance(val, (bytes, bytearray))
    return issubclass(val, nfc.clf.CommunicationError) or issubclass(val, IOError)


def fault_key(f):
    if f[0] in ('timeout',):
        return 'timeout-' + f[1]
    if f[0] == 'ioerror':
        return 'ioerror-' + f[2]
    return f[0]


def jsonable(f):
    return [x.hex() if isinstance(x, (bytes, bytearray)) else x for x in f]


def unjson(f):
    f = list(f)
    if f[0] in ('garbled', 'ackgarbled'):
        f[1] = bytes.fromhex(f[1])
    return tuple(f)


PN_KIND = {0x42: 'thru', 0x40: 'dex', 0x88: 'tgget', 0x90: 'tgrsp'}


def pn_kind(driver, cmd):
    if cmd in PN_KIND:
        return PN_KIND[cmd]
    if cmd in (0x06, 0x08) and driver == 'pn533':
        return 'reg533'
    if cmd == 0x08 and driver == 'rcs956':
        return 'wreg956'
    return 'nostatus'


def hexarg(b):
    return bytes(b).hex() if len(b) else '-'


class Runner(object):
    def __init__(self, ck, mr):
        self.ck, self.mr = ck, mr
        self.worlds = {}
        self.pred = {}
        self.model_q = []       # (line, expectation record)
        self.n_membership = 0

    def world(self, d, layer='api'):
        if (d, layer) not in self.worlds:
            self.worlds[(d, layer)] = W.World(d, layer)
        w = self.worlds[(d, layer)]
        w.activate()
        return w

    def predicted(self, d, direction):
        """classes the skeleton analysis computes for the device method of this direction"""
        key = (d, direction)
        if key not in self.pred:
            if self.mr is None:
                self.pred[key] = None
                return None
            w = self.world(d)
            sk = d.replace('-', '_')
            funcs = self.mr.run(['funcs ' + sk])[0].split()
            meth = 'send_cmd_recv_rsp' if direction == 'i' else 'send_rsp_recv_cmd'
            fn = None
            for c in type(w.device).__mro__:
                cand = '%s.%s.%s' % (c.__module__.split('.')[-1], c.__name__, meth)
                if cand in funcs:
                    fn = cand
                    break
            if fn is None:
                self.ck.broken.append('skeleton of %s has no %s' % (d, meth))
                self.pred[key] = None
            else:
                out = self.mr.run(['escapes %s %s' % (sk, fn)])[0]
                self.pred[key] = set() if out == '-' else set(out.split(','))
        return self.pred[key]

    def inject(self, d, sc, k, fault, layer='api', timeout=W.USE_SCENARIO):
        w = self.world(d, layer)
        w.sim.arm(k, fault)
        W.setup(w, sc)
        tag, val, e = W.outcome(w, sc, timeout)
        return w, tag, val, e

    def one(self, d, sc, k, cmd, fault, baseline, layer='api', timeout=W.USE_SCENARIO):
        ck = self.ck
        self.current_sc = sc
        w, tag, val, e = self.inject(d, sc, k, fault, layer, timeout)
        if not w.sim.fired and fault[0] != 'none':
            ck.count('fault-not-reached')
            return
        direction = 'i' if isinstance(w.clf.target, nfc.clf.RemoteTarget) else 't'
        obs = 'ok' if tag == 'ok' else class_name(val)
        case = {'driver': d, 'layer': layer, 'scenario': sc.name, 'index': k, 'command': cmd if isinstance(cmd, str) else '0x%02X' % cmd,
                'fault': jsonable(fault), 'observed': obs if tag == 'ok' else '%s (%r)' % (obs, e)}
        if timeout is not W.USE_SCENARIO:
            # ---- the pass over the timeout argument family
            case['timeout'] = timeout
            ck.case((d, layer, sc.name, k, fault, repr(timeout)), True)
            ck.count('timeout=%r/%s' % (timeout, obs))
            if tag != 'ok':
                if obs == 'WouldBlockForever' and timeout is None:
                    ck.count('waits-without-limit')            # what timeout=None asks for
                    return
                if obs == 'TypeError' and timeout is None and direction == 'i':
                    ck.count('argument-rejected')              # send_cmd_recv_rsp documents a number of seconds
                    return
                if obs == 'AssertionError' and timeout is not None and timeout < 0:
                    ck.count('argument-rejected')              # negative timeout, rejected by an assert
                    return
            if not documented(tag, val):
                ck.violation('%s:%s:%s:timeout=%r' % (d, fault_key(fault), obs, timeout),
                             'ContactlessFrontend.exchange(.., timeout=%r) on %s raised %s (%s, host command %s #%d, fault %s)' % (
                                 timeout, d, obs, sc.name, case['command'], k, fault_key(fault)), case)
            if tag != 'ok' and obs in EXPLICIT:
                pred = self.predicted(d, direction)
                if pred is not None:
                    self.n_membership += 1
                    if obs not in pred:
                        ck.correspondence_mismatch('skeleton-membership', dict(case, predicted=sorted(pred)))
            return
        ck.case((d, layer, sc.name, k, fault), fault[0] != 'none',
                case if fault[0] in ('status', 'status32', 'errframe', 'short') and ck.cov['evaluations'] % 977 == 0 else None)
        ck.count('%s/%s' % (fault_key(fault), obs))
        dl = d if layer == 'api' else '%s/%s' % (d, W.PHYS_KIND[d])
        # ---- monitor
        if not documented(tag, val):
            ck.violation('%s:%s:%s' % (d, fault_key(fault), obs),
                         'ContactlessFrontend.exchange on %s raised %s (%s, host command %s #%d, fault %s)' % (
                             dl, obs, sc.name, case['command'], k, fault_key(fault)), case)
        # ---- correspondence 1: membership in the skeleton prediction (explicit exception flow only)
        if tag != 'ok' and obs in EXPLICIT:
            pred = self.predicted(d, direction)
            if pred is not None:
                self.n_membership += 1
                if obs not in pred:
                    ck.correspondence_mismatch('skeleton-membership', dict(case, predicted=sorted(pred)))
        # ---- correspondence 2: the status -> exception map equals the DrvMap model
        line = self.model_line(d, w, direction, cmd, fault, layer)
        if line is not None:
            self.model_q.append((line, obs, baseline, case))

    def model_line(self, d, w, direction, cmd, fault, layer='api'):
        kind = fault[0]
        if kind == 'ioerror' and layer == 'phys' and W.PHYS_KIND[d] == 'usb':
            # transport.USB knows three kinds of libusb failure
            no = fault[1] if fault[1] in (errno.ETIMEDOUT, errno.ENODEV) else errno.EIO
            fault = ('ioerror', no, fault[2])
        if d in W.PN53X_FAMILY:
            if kind in ('status', 'empty') and w.sim.fault_payload is not None:
                return 'pn53x %s %s %s' % (direction, pn_kind(d, cmd), hexarg(w.sim.fault_payload))
            if kind in ('regval', 'overlong') and cmd == 0x06 and w.sim.fault_payload is not None:
                return self.register_line(d, w, direction, fault)
            if kind == 'payload' and cmd == 0x06 and w.sim.fault_payload is not None:
                return 'readreg %s %d %d %s' % (direction, 1 if d == 'pn533' else 0, len(w.sim.fault_cmd_data) // 2,
                                                hexarg(w.sim.fault_payload))
            if kind == 'payload' and fault[1] == 0 and w.sim.fault_payload is not None and pn_kind(d, cmd) != 'nostatus':
                return 'pn53x %s %s -' % (direction, pn_kind(d, cmd))
            if kind == 'errframe' and d != 'acr122':
                return 'errframe ' + direction
            if kind in ('ioerror', 'timeout'):
                if kind == 'timeout':
                    no = errno.EIO if (fault[1] == 'ack' and d != 'acr122') else errno.ETIMEDOUT
                elif d == 'acr122':
                    no = fault[1]
                else:
                    no = errno.EIO if fault[2] in ('write', 'ack') else fault[1]
                return 'ioerr %s %d' % (direction, no)
        if d == 'rcs380':
            if kind == 'status32':
                b = fault[1].to_bytes(4, 'little')
                return 'rcs380b %s %d %d %d %d' % (direction, b[0], b[1], b[2], b[3])
            if kind == 'status' and cmd in (0x00, 0x02):
                return 'rcs380setup %d' % fault[1]
            if kind == 'payload' and cmd in (0x04, 0x48) and w.sim.fault_payload is not None:
                return 'rcs380p %s %s' % (direction, hexarg(w.sim.fault_payload))
        if d == 'udp' and kind == 'garbled':
            return 'udp ' + hexarg(fault[1])
        return None

    def register_line(self, d, w, direction, fault):
        """model query for a ReadRegister answer with injected values / surplus values"""
        cd = w.sim.fault_cmd_data
        regs = [cd[i] << 8 | cd[i + 1] for i in range(0, len(cd) - 1, 2)]
        off = 1 if d == 'pn533' else 0
        if fault[0] == 'overlong':
            return 'readreg %s %d %d %s' % (direction, off, len(regs), hexarg(w.sim.fault_payload))
        vals = list(w.sim.fault_payload[off:])
        sc = self.current_sc
        tt3 = sc.name.startswith('listen-tt3')
        tt1 = sc.name.startswith('tt1-')
        frame = list(sc.cmds[0]) if (tt3 and sc.cmds) else []
        if regs == [0x633A]:
            if tt3:
                lvl = vals[0]
                fifo = (frame + [0] * 64)[:lvl] if lvl <= 64 else []
                return 'tt3poll 32 0 %d %s' % (lvl, hexarg(bytes(fifo)))
            if tt1:
                return 'tt1fifo %d' % vals[0]
        if regs == [0x6334, 0x6335] and tt3:
            return 'tt3poll %d %d %d %s' % (vals[0], vals[1], len(frame), hexarg(bytes(frame)))
        if regs and all(r == 0x6339 for r in regs):
            if tt3:
                return 'tt3poll 32 0 %d %s' % (len(vals), hexarg(bytes(vals)))
            if tt1:
                return 'tt1fifo %d' % len(vals)
        if regs == [0x6302, 0x6303, 0x6305]:
            return 'prepregs'          # CIU_TxMode/RxMode/TxAuto: any value, the exchange goes on
        return None

    def compare_models(self):
        ck = self.ck
        if self.mr is None or not self.model_q:
            return
        real = [q[0] for q in self.model_q if q[0] != 'prepregs']
        it = iter(self.mr.run(real))
        out = ['data documented' if q[0] == 'prepregs' else next(it) for q in self.model_q]
        # the word-level and the byte-level RC-S380 models must agree as well (theorem C13_rcs380_bytes_word)
        nmis = 0
        for (line, obs, baseline, case), got in zip(self.model_q, out):
            if got.startswith('raise '):
                want = got.split()[1].split(':')[0]
                good = obs == want
            elif got.startswith('data'):
                # the exchange goes on as without the fault (a later step decides), or the datagram is skipped;
                # with a truncated payload the later steps see other data, nothing to compare then
                good = obs == baseline or (case['driver'] == 'udp' and obs in ('ok', 'TimeoutError')) or \
                    case['fault'][0] == 'payload'
            elif got == 'again':
                good = obs == baseline           # the next polling round sees the normal register values
            elif got.startswith('crc '):
                good = obs in ('ok', 'TransmissionError')
            else:
                good = obs == 'ok'
            if 'UNDOCUMENTED' in got:
                good = False
            if not good:
                nmis += 1
                ck.correspondence_mismatch('drvmap', dict(case, model=got, query=line))
        ck.cov['traces_validated_against_impl'] = len(self.model_q) - nmis
        ck.cov['skeleton_membership_checks'] = self.n_membership


TIMEOUTS = [None, 0, 0.0, 1e-7, 0.001, 0.5, 1.0, 10, -1]


def timeout_pass_faults(d, cmd, has_status):
    if d == 'udp':
        if cmd == 'sendto':
            return [('gone',), ('shortsend',), ('ioerror', errno.ECONNREFUSED, 'write')]
        return [('timeout', 'rsp'), ('gone',), ('rfoff',), ('ioerror', errno.ECONNREFUSED, 'rsp'), ('garbled', b'106A zz'),
                ('garbled', b'999Z 00')]
    fs = [('timeout', 'ack'), ('timeout', 'rsp'), ('ioerror', errno.EIO, 'rsp'), ('ioerror', errno.ETIMEDOUT, 'rsp'),
          ('ioerror', errno.ETIMEDOUT, 'write'), ('errframe',), ('gone',), ('payload', 0), ('short', 3)]
    if has_status:
        if d == 'rcs380' and cmd in (0x04, 0x48):
            fs += [('status32', 0x80), ('status32', 0x400), ('status32', 0x04)]
        else:
            fs += [('status', 1), ('status', 0x29), ('status', 0xFF)]
    if cmd == 0x06 and d in W.PN53X_FAMILY:
        fs += [('regval', 0, 0), ('regval', 0, 1), ('regval', 0, 0x84)]
    return fs


def regval_faults(ck, d, cmd, payload_len, thorough, full):
    """ReadRegister of the PN53x family: every value 0..255 for every register of the command, and answers with
    surplus values.  quick: all 256 values for the first three registers of a command that was not swept yet in
    this kind of scenario, 16 sampled values otherwise"""
    if cmd != 0x06 or d not in W.PN53X_FAMILY:
        return []
    n = payload_len - (1 if d == 'pn533' else 0)
    fs = []
    for pos in range(n):
        if thorough or (full and pos < 3):
            vals = range(256)
        else:
            vals = sorted({0, 1, 2, 3, 0x20, 0x40, 0x41, 0x7F, 0x80, 0x84, 0xFF} | {ck.rng.randrange(256) for _ in range(5)})
        fs += [('regval', pos, v) for v in vals]
    fs += [('overlong', m) for m in (1, 2, 5, 40)]
    return fs


def payload_faults(payload_len, thorough):
    """well-formed response whose payload is cut to n < payload_len bytes - at every host command"""
    ns = range(payload_len) if (thorough or payload_len <= 14) else list(range(12)) + [payload_len - 2, payload_len - 1]
    return [('payload', n) for n in ns]


RUNT_SUBSET = {bytes.fromhex(h) for h in ('', '00', '0000ff', '0000ffff', '0000ffffff', '0000ffffff00', '0000ffffff0000', '0000ffffff01',
                                          '0000ff0000', '0000ff05', '0000ff00ff', '0000ffffff000000', '80', '8000000000')}


def runt_faults(d, cmd, thorough, full=True):
    """scenario independent runt / inconsistent frames, as the response and in place of the ACK
    (quick tier: only the runts of up to 9 bytes in place of the ACK; the whole corpus once per driver and
    command code, a subset of it for further occurrences of the same command)"""
    proto = 'acr122' if d == 'acr122' else ('rcs380' if d == 'rcs380' else 'pn53x')
    frames = CS.runt_corpus(proto, cmd)
    if not full:
        frames = [f for f in frames if f in RUNT_SUBSET]
    fs = [('garbled', f) for f in frames]
    if proto != 'acr122':
        fs += [('ackgarbled', f) for f in frames if thorough or len(f) <= 9]
    return fs


def fault_set(ck, d, cmd, has_status, frame_len, thorough, payload_len=0, full_sweep=True, full_regs=True, full_runts=True):
    rng = ck.rng
    fs = payload_faults(payload_len, thorough) + regval_faults(ck, d, cmd, payload_len, thorough, full_regs)
    if d == 'udp':
        fs += [('gone',)]
        if cmd == 'sendto':
            fs += [('shortsend',)] + [('ioerror', no, 'write') for no in (errno.ECONNREFUSED, errno.ENETUNREACH, errno.EBADF,
                                                                          errno.ETIMEDOUT, errno.EMSGSIZE)]
            return fs
        fs += [('timeout', 'rsp'), ('rfoff',)]
        fs += [('ioerror', no, 'rsp') for no in (errno.ECONNREFUSED, errno.ENETUNREACH, errno.EBADF, errno.ETIMEDOUT)]
        dgs = [b'106A zz', b'\xff\xfe 00', b'106A 0', b'', b' ', b'106A', b'106A 00 00', b'212F 00', b'106A 0g', b'RFOF',
               b'RFOFFx', b'106\xc3\xa9 00', b'424F \xff', b'\x00', b'106A\t00\n']
        for _ in range(40 if not thorough else 400):
            n = rng.choice([1, 2, 5, 8, 12, 30])
            dgs.append(bytes(rng.choice([32, 48, 49, 54, 65, 70, 97, 102, 103, 122, 9, 255, rng.randrange(256)]) for _ in range(n)))
        fs += [('garbled', g) for g in dgs]
        return fs
    if has_status:
        if d == 'rcs380' and cmd in (0x04, 0x48):
            words = [1 << b for b in range(32)]
            words += [(1 << a) | (1 << b) for a in range(32) for b in range(a)]
            words += [0xFFFFFFFF, 0x80 | 0x400, 0x00000000]
            words += [rng.getrandbits(32) for _ in range(200 if not thorough else 3000)]
            fs += [('status32', x) for x in words]
        elif full_sweep:
            fs += [('status', c) for c in range(256)]
        else:
            # the same command on the same code path was swept with all 256 codes in an earlier scenario of this kind
            fs += [('status', c) for c in sorted({0, 1, 2, 0x0A, 0x13, 0x27, 0x29, 0x31, 0x40, 0x41, 0x7F, 0x80, 0xFE, 0xFF} |
                                                 {rng.randrange(256) for _ in range(10)})]
        fs.append(('empty',))
    fs += [('errframe',), ('timeout', 'ack'), ('timeout', 'rsp'), ('gone',)]
    for no in IOERRNOS:
        for where in ('write', 'ack', 'rsp'):
            fs.append(('ioerror', no, where))
    if d == 'acr122':
        fs += [('sw', 0x63, 0x00), ('sw', 0x6A, 0x81)]
    lens = range(0, frame_len) if (thorough or frame_len <= 24) else sorted(set(list(range(0, 14)) + [frame_len - 1, frame_len - 2]))
    fs += [('short', n) for n in lens if n < frame_len]
    good = frame_len
    for _ in range(12 if not thorough else 150):
        n = rng.choice([1, 3, 5, 6, 7, 8, 9, 10, 12, 20, good])
        fs.append(('garbled', bytes(rng.choice([0, 0, 255, 0xD5, 0xD7, rng.randrange(256)]) for _ in range(n))))
    fs += [('garbled', bytes.fromhex('0000ff00ff00')), ('garbled', bytes.fromhex('0000ffff0000')),
           ('garbled', bytes.fromhex('0000ff02fed5')), ('garbled', bytes.fromhex('0000ffffff0200fed7059e00')),
           ('garbled', bytes.fromhex('0000ffffff')), ('garbled', bytes.fromhex('0000ffffff01')),
           ('garbled', bytes.fromhex('0000ffffff0100ffd72900')), ('garbled', b'\x80' + bytes(9))]
    fs += runt_faults(d, cmd, thorough, full_runts)
    return fs


def phys_fault_set(ck, d, cmd, has_status, frame_len, thorough, payload_len=0):
    """host-link faults seen through transport.py; the status maps do not depend on the layer, so only
    a sample of codes is repeated here"""
    rng = ck.rng
    fs = payload_faults(payload_len, thorough)
    if cmd == 0x06 and d in W.PN53X_FAMILY:
        fs += [('regval', 0, v) for v in (0, 1, 2, 64, 65, 0x84, 0xFF)] + [('overlong', 1), ('overlong', 40)]
    if has_status:
        if d == 'rcs380' and cmd in (0x04, 0x48):
            fs += [('status32', x) for x in (0x80, 0x400, 0x480, 1, 0x80000000, rng.getrandbits(32))]
        else:
            fs += [('status', c) for c in ((0, 1, 2, 0x0A, 0x27, 0x29, 0x31, 0x7F, 0xFF, rng.randrange(256)) if not thorough else range(256))]
        fs.append(('empty',))
    fs += [('errframe',), ('timeout', 'ack'), ('timeout', 'rsp'), ('gone',)]
    for no in IOERRNOS:
        for where in ('write', 'ack', 'rsp'):
            fs.append(('ioerror', no, where))
    lens = range(0, frame_len) if (thorough or frame_len <= 32) else list(range(0, 16)) + [frame_len - 2, frame_len - 1]
    fs += [('short', n) for n in lens]
    for _ in range(10 if not thorough else 50):
        n = rng.choice([1, 2, 3, 4, 5, 6, 7, 8, 9, 12, frame_len])
        fs.append(('garbled', bytes(rng.choice([0, 0, 255, 255, 0xD5, 0xD7, 1, rng.randrange(256)]) for _ in range(n))))
    fs += [('garbled', bytes.fromhex(h)) for h in ('00', '0000', '0000ff', '0000ffff', '0000ffffff', '0000ffffff01', '0000ffffff0102',
                                                   '0000ffffff010203', '0000ff05', '0000ff05fb', '0000ff00ff', '0000ff00ff00',
                                                   '0000ffffff0010f00000000000', '80', '8000000000')]
    if thorough or W.PHYS_KIND[d] == 'tty':
        # transport.USB hands frames through unchanged (same as the API layer pass); the serial byte stream does not
        fs += runt_faults(d, cmd, thorough)
    else:
        fs += [f for f in runt_faults(d, cmd, False) if len(f[1]) <= 7]
    return fs


CORPUS = [
    ('pn532', 'tt2-read', 0, ('errframe',)), ('pn533', 'tt2-read', 0, ('status', 1)), ('rcs956', 'tt3-check', 1, ('status', 1)),
    ('pn531', 'dep-ini-active', 2, ('errframe',)), ('pn532', 'listen-tt3', 0, ('errframe',)), ('pn533', 'listen-tt3', 1, ('status', 39)),
    ('pn532', 'tt2-read', 3, ('empty',)), ('acr122', 'tt4a-apdu', 3, ('empty',)), ('pn533', 'tt1-read', 3, ('empty',)),
    ('pn532', 'dep-target', 0, ('empty',)), ('pn532', 'dep-target', 1, ('empty',)),
    ('rcs380', 'tt2-read', 0, ('status', 1)), ('rcs380', 'tt3-check', 1, ('status', 4)),
    ('rcs380', 'tt2-read', 3, ('short', 6)), ('rcs380', 'tt2-read', 3, ('short', 9)), ('rcs380', 'tt2-read', 3, ('errframe',)),
    ('rcs380', 'dep-target', 0, ('short', 6)),
    # six-byte runt: the start of an extended frame with LEN bytes cut (seeded regression C13-4)
    ('pn532', 'tt2-read', 3, ('garbled', bytes.fromhex('0000ffffff00'))), ('pn531', 'tt2-read', 0, ('garbled', bytes.fromhex('0000ffffff00'))),
    ('pn533', 'tt3-check', 2, ('garbled', bytes.fromhex('0000ffffff00'))), ('rcs956', 'dep-target', 1, ('garbled', bytes.fromhex('0000ffffff00'))),
    ('arygon-a', 'tt2-read', 3, ('ackgarbled', bytes.fromhex('0000ffffff00'))), ('pn532', 'listen-tt3', 1, ('garbled', bytes.fromhex('0000ffffff00'))),
    ('pn532', 'tt2-read', 3, ('garbled', bytes.fromhex('0000ffffff0000'))), ('pn532', 'tt2-read', 3, ('garbled', bytes.fromhex('0000ff0000'))),
    ('rcs380', 'tt2-read', 3, ('garbled', bytes.fromhex('0000ffffff00'))), ('rcs380', 'tt2-read', 3, ('ackgarbled', bytes.fromhex('0000ffffff0500'))),
    # well-formed answers with too short a payload at commands without status byte (c13-8, c13-9)
    ('pn532', 'tt2-read', 0, ('payload', 0)), ('pn532', 'tt2-read', 0, ('payload', 1)), ('pn532', 'tt2-read', 0, ('payload', 2)),
    ('rcs956', 'tt3-check', 0, ('payload', 0)), ('pn531', 'listen-tt3', 1, ('payload', 1)), ('pn533', 'tt2-read', 0, ('payload', 3)),
    ('acr122', 'tt4a-apdu', 0, ('payload', 2)), ('pn532', 'tt1-read8', 5, ('payload', 0)),
    ('rcs380', 'tt3-check', 2, ('payload', 1)), ('rcs380', 'tt2-read', 3, ('payload', 3)), ('rcs380', 'dep-target', 0, ('payload', 2)),
    ('rcs380', 'listen-tt4', 0, ('payload', 6)),
    # register values and surplus values reported by ReadRegister (c13-10, c13-11, c13-12)
    ('pn532', 'tt2-read', 0, ('overlong', 1)), ('pn533', 'listen-tt3', 1, ('overlong', 2)), ('pn532', 'listen-tt3', 3, ('overlong', 1)),
    ('pn533', 'listen-tt3', 3, ('regval', 0, 0)), ('pn532', 'listen-tt3', 3, ('regval', 0, 200)), ('pn531', 'listen-tt3', 3, ('regval', 0, 1)),
    ('pn532', 'tt1-read8', 5, ('regval', 0, 1)), ('pn532', 'tt1-read8', 5, ('regval', 0, 2)), ('pn532', 'tt1-read8', 5, ('regval', 0, 140)),
    ('pn533', 'tt1-read8', 12, ('regval', 0, 1)), ('pn533', 'tt1-read8', 12, ('regval', 0, 2)), ('pn533', 'tt1-read8', 12, ('regval', 0, 255)),
    ('udp', 'tt2-read', 1, ('garbled', b'106A zz')), ('udp', 'dep-target', 1, ('garbled', b'\xff\xfe 00')),
    ('udp', 'tt4a-apdu', 1, ('garbled', b'106A 0')),
]
# (driver, scenario, index, fault, timeout)
TIMEOUT_CORPUS = [('pn532', 'listen-tt3', 0, ('none',), None), ('pn531', 'listen-tt3-first', 0, ('none',), None),
                  ('pn533', 'listen-tt3', 1, ('timeout', 'rsp'), None), ('pn532', 'listen-tt3', 3, ('ioerror', errno.ETIMEDOUT, 'rsp'), None),
                  ('pn532', 'dep-target', 0, ('none',), None), ('rcs956', 'listen-tt4', 1, ('timeout', 'rsp'), None),
                  ('pn532', 'tt2-read', 0, ('none',), 0), ('pn533', 'tt3-check', 0, ('none',), 1e-7), ('rcs380', 'dep-target', 0, ('none',), None)]
PHYS_CORPUS = [('pn532', 'tt2-read', 0, ('short', 1)), ('pn532', 'tt2-read', 3, ('short', 3)), ('arygon-a', 'tt2-read', 3, ('short', 2)),
               ('arygon-b', 'listen-tt4', 1, ('garbled', bytes.fromhex('0000ffffff01')))]


def skeleton_header():
    try:
        return open(os.path.join(COQ, 'Gen', 'DriverSkel.v')).read().split('\n*)')[0]
    except IOError:
        return ''


def skeleton_assumptions():
    return [ln.strip()[2:] for ln in skeleton_header().split('\n') if ln.strip().startswith('- ')]


def implicit_sites():
    """(number of implicit-raise sites on host data proved safe, list of those not proved safe)"""
    txt = skeleton_header()
    m = re.search(r'proved safe by a recognised guard: (\d+)', txt)
    return (int(m.group(1)) if m else None), [ln.strip()[2:] for ln in txt.split('\n') if ln.strip().startswith('! ')]


def main():
    ck = Check('C13')
    ck.trusted = ['Coq 8.16.1 kernel; vm_compute for the analysis on the regenerated skeletons and the 256-code sweep; no native_compute',
                  'translate/skel_c13.py (ast skeleton extractor, fail-closed, its purity/primitive whitelists)',
                  'extraction: ExtrOcamlBasic only; extract/c13_run.ml driver; OCaml 4.13.1',
                  'harness/sim/chipsets.py fake host links and harness/sim/c13_world.py target set-up']
    ck.coq(gen=['DriverSkel'],
           targets=['Skel/ExnSyntax.vo', 'Skel/ExnCheck.vo', 'Model/DrvMap.vo', 'Proofs/DrvMap.vo', 'Gen/DriverSkel.vo',
                    'Bridge/C13Skel.vo'],
           props='C13')
    nproved, unproved = implicit_sites()
    ck.cov['implicit_raise_sites_proved_safe'] = nproved
    ck.cov['implicit_raise_sites_not_proved_safe'] = unproved
    ck.assumptions = ['ExnCheck covers explicit exception flow (raise, handlers, primitive raise-sets) and, conservatively, '
                      'the implicit IndexError / ValueError / struct.error / TypeError of subscripts, unpackings, '
                      'struct.unpack and iterations on values derived from a host response (a site counts as safe only '
                      'under a length guard the extractor recognises); other implicit exceptions (None values, '
                      'arithmetic, dictionary lookups, the code below transport.read/write) are covered by the '
                      'injection runs only',
                      'fault domain of the injection runs: the host link misbehaves at the transport API (read/write of whole '
                      'frames) and, in a second pass, below the real transport.TTY / transport.USB objects (fake serial byte '
                      'stream, fake libusb handle raising USBError*); UDP: below the socket API',
                      'a well-formed response frame with a payload of every length shorter than the normal one is injected at '
                      'every host command; ReadRegister answers also with every value 0..255 per register (quick: sampled for '
                      'repeated code paths and for FIFO positions beyond the third) and with surplus values',
                      'the timeout argument is drawn from {None, 0, 0.0, 1e-7, 0.001, 0.5, 1.0, 10, -1} on every exchange path; '
                      'send_cmd_recv_rsp documents a number of seconds, so a TypeError for None on the initiator side counts as '
                      'a rejected argument, as does the AssertionError of rcs380 for a negative value; with None an exchange '
                      'that the simulated peer never answers is cut by the harness (waits without limit)',
                      'RC-S380: a response frame that cannot be used (wrong type / code / truncated) makes '
                      'send_cmd_recv_rsp return None; the monitor accepts None as a documented return value'] + \
        ['skeleton: ' + a for a in skeleton_assumptions()]
    mr = ck.model()
    quick = ck.tier == 'quick'
    run = Runner(ck, mr)

    # ---- replay of a recorded case
    if ck.replay:
        rec = json.load(open(ck.replay))
        c = rec.get('case', {})
        if 'driver' in c:
            sc = [s for s in W.SCENARIOS if s.name == c['scenario']][0]
            cmd = c['command'] if not c['command'].startswith('0x') else int(c['command'], 16)
            run.one(c['driver'], sc, c['index'], cmd, unjson(c['fault']), None, c.get('layer', 'api'),
                    c['timeout'] if 'timeout' in c else W.USE_SCENARIO)
            run.model_q = []
        ck.finish(level='proof', rule='replay of one recorded injection')

    # ---- corpus of minimised past failures first
    for d, scn, k, fault in CORPUS:
        sc = [s for s in W.SCENARIOS if s.name == scn][0]
        w = run.world(d)
        w.sim.arm()
        W.setup(w, sc)
        W.outcome(w, sc)
        tr = [t for t in w.sim.trace if t[0] == k]
        if tr:
            run.one(d, sc, k, tr[0][1], fault, 'ok')
    for d, scn, k, fault, t in TIMEOUT_CORPUS:
        sc = [s for s in W.SCENARIOS if s.name == scn][0]
        run.one(d, sc, k, 0, fault, None, 'api', t)
    for d, scn, k, fault in PHYS_CORPUS:
        sc = [s for s in W.SCENARIOS if s.name == scn][0]
        run.one(d, sc, k, 0, fault, 'ok', 'phys')
    run.model_q = []

    # ---- frontend-level trivia: no device, no target
    clf = nfc.clf.ContactlessFrontend()
    try:
        clf.exchange(b'\x00', 0.1)
        ck.violation('frontend:no-device', 'exchange without device did not raise IOError', {})
    except IOError:
        ck.case(('nodev',), False)
    w = run.world('pn532')
    w.clf.target = None
    if w.clf.exchange(b'\x00', 0.1) is not None:
        ck.violation('frontend:no-target', 'exchange without target did not return None', {})

    # ---- injections
    swept = set()
    for d in W.DRIVERS:
        for sc in W.scenarios_for(d):
            w = run.world(d)
            w.sim.arm()
            W.setup(w, sc)
            tag, val, e = W.outcome(w, sc)
            baseline = 'ok' if tag == 'ok' else class_name(val)
            ck.case((d, sc.name, 'baseline'), False)
            if not documented(tag, val):
                ck.violation('%s:baseline:%s' % (d, baseline), 'fault-free exchange raises %s (%s)' % (baseline, sc.name),
                             {'driver': d, 'scenario': sc.name})
                continue
            if getattr(w.sim, 'bad_commands', None):
                ck.violation('%s:malformed-command' % d, 'driver wrote a malformed host command frame',
                             {'driver': d, 'scenario': sc.name, 'frame': w.sim.bad_commands[0].hex()})
                w.sim.bad_commands = []
            trace = list(w.sim.trace)
            flens = dict(getattr(w.sim, 'frame_lens', {}))
            plens = dict(getattr(w.sim, 'payload_lens', {}))
            if len(trace) > 14:
                # long register-programming sequences (Type 1 special paths): first, last and sampled commands
                mid = trace[8:-4]
                pick = ck.rng.sample(mid, min(len(mid), 4 if quick else 150))
                trace = trace[:8] + sorted(pick) + trace[-4:]
            for (k, cmd, has_status) in trace:
                flen = max(flens.get(k, 0), 12)
                full = (not quick) or (d, sc.kind, cmd) not in swept
                if has_status:
                    swept.add((d, sc.kind, cmd))
                rkey = (d, 'listen' if sc.cmds is not None else 'poll', 'regs', plens.get(k, 0))
                full_regs = (not quick) or rkey not in swept
                if cmd == 0x06:
                    swept.add(rkey)
                full_runts = (not quick) or (d, 'runts', cmd) not in swept
                swept.add((d, 'runts', cmd))
                for f in fault_set(ck, d, cmd, has_status, flen, not quick, plens.get(k, 0), full, full_regs, full_runts):
                    run.one(d, sc, k, cmd, f, baseline)
    # ---- the same below transport.TTY / transport.USB (fake serial line, fake libusb handle)
    for d in W.DRIVERS:
        if d not in W.PHYS_KIND:
            continue
        for sc in W.scenarios_for(d):
            w = run.world(d, 'phys')
            w.sim.arm()
            W.setup(w, sc)
            tag, val, e = W.outcome(w, sc)
            baseline = 'ok' if tag == 'ok' else class_name(val)
            if not documented(tag, val):
                ck.violation('%s/%s:baseline:%s' % (d, W.PHYS_KIND[d], baseline), 'fault-free exchange raises %s (%s)' % (baseline, sc.name),
                             {'driver': d, 'layer': 'phys', 'scenario': sc.name})
                continue
            trace = list(w.sim.trace)
            flens = dict(w.sim.frame_lens)
            plens = dict(w.sim.payload_lens)
            if len(trace) > 10 and quick:
                trace = trace[:6] + trace[-3:]
            elif len(trace) > 30:
                trace = trace[:12] + sorted(ck.rng.sample(trace[12:-6], 12)) + trace[-6:]
            for (k, cmd, has_status) in trace:
                for f in phys_fault_set(ck, d, cmd, has_status, max(flens.get(k, 0), 12), not quick, plens.get(k, 0)):
                    run.one(d, sc, k, cmd, f, baseline, 'phys')
    # ---- the timeout argument: every exchange path of every driver with each value of the family, fault free and
    #      crossed with a small set of faults at the host commands of the exchange
    for d in W.DRIVERS:
        for sc in W.scenarios_for(d):
            for t in TIMEOUTS:
                w = run.world(d)
                w.sim.arm()
                W.setup(w, sc)
                W.outcome(w, sc, t)
                trace = list(w.sim.trace)
                run.one(d, sc, 0, trace[0][1] if trace else 0, ('none',), None, 'api', t)
                if quick and t in (0.0, 0.001, 0.5, 10):
                    continue        # quick: these values run fault free only (0 / 1e-7 / 1.0 take the same branches)
                if len(trace) > 6 and quick:
                    trace = trace[:4] + trace[-2:]
                elif len(trace) > 24:
                    trace = trace[:16] + trace[-8:]
                for (k, cmd, has_status) in trace:
                    for f in timeout_pass_faults(d, cmd, has_status):
                        run.one(d, sc, k, cmd, f, None, 'api', t)
    run.compare_models()
    ck.finish(level='proof',
              rule='driver x target kind (Type 1/2/3/4, DEP initiator/target, listen modes) x host command index of the '
                   'exchange x fault (status 0..255 / RC-S380 status words: single bits, pairs, random; error frame; empty '
                   'payload; timeout at ack/response; IOError errno x write/ack/response; device gone; truncations; garbled '
                   'frames; UDP datagrams). non-trivial = a fault was injected and reached; distinct by hash of the case',
              explanation='soundness theorem of the exception-flow analysis + its evaluation on skeletons regenerated from '
                          'the driver sources + totality theorems of the status maps; real drivers on fake host links: '
                          'monitor on every injection, membership of the observed class in the computed set, equality with '
                          'the extracted DrvMap model')


if __name__ == '__main__':
    main()
