"""C14 - host-link frames and ISO 14443 CRCs.

Obligations: Props/C14.v (CRC = ISO Annex B for all messages, check iff right CRC, PN53x
build/parse theorems, ACR122, RC-S380) + bridge lemmas over the kernel regenerated from
clf/device.py.  Correspondence: real Chipset.command / ccid_xfr_block / Frame / CRC helpers
vs the extracted model.  Monitor: independent Python validators written from the manuals.
"""
import collections
import logging
import sys

from common import Check, hx

import nfc.clf.device
import nfc.clf.pn53x
import nfc.clf.acr122
import nfc.clf.rcs380

logging.disable(logging.CRITICAL)


# ---------------------------------------------------------------- independent oracles
def crc_bitserial(data, init):
    """ISO/IEC 13239 style: poly x^16+x^12+x^5+1, LSB first, written independently"""
    reg = init
    for byte in data:
        for i in range(8):
            inbit = (byte >> i) & 1
            fb = (reg & 1) ^ inbit
            reg >>= 1
            if fb:
                reg ^= 0x8408
    return reg


def frame_valid(f):
    """PN53x host frame validator from the user manual; returns body (TFI..PDn) or None"""
    f = bytes(f)
    if len(f) < 6 or f[0:3] != b'\x00\x00\xff':
        return None
    if f[3:5] == b'\xff\xff':
        if len(f) < 8:
            return None
        n = f[5] * 256 + f[6]
        if (f[5] + f[6] + f[7]) % 256 != 0:
            return None
        body, rest = f[8:8 + n], f[8 + n:]
    else:
        n = f[3]
        if (f[3] + f[4]) % 256 != 0:
            return None
        body, rest = f[5:5 + n], f[5 + n:]
    if len(body) != n or len(rest) != 2:
        return None
    if (sum(body) + rest[0]) % 256 != 0:
        return None
    return body


class FakeTransport:
    def __init__(self):
        self.written = []
        self.queue = collections.deque()

    def write(self, frame):
        self.written.append(bytes(frame))

    def read(self, timeout=0):
        if not self.queue:
            raise IOError(110, 'timeout')
        return bytearray(self.queue.popleft())

    def close(self):
        pass


class AnyName(dict):
    def __missing__(self, k):
        return 'CMD%02X' % k


class PnChipset(nfc.clf.pn53x.Chipset):
    CMD = AnyName()
    host_command_frame_max_size = 265

    def __init__(self):
        self.transport = FakeTransport()
        self.log = logging.getLogger('x')


def classify(fn):
    try:
        r = fn()
        return 'ok ' + (hx(r) if r else '-')
    except IOError:
        return 'err IOError'
    except nfc.clf.pn53x.Chipset.Error as e:
        return 'err ChipsetError:%d' % e.errno
    except AssertionError:
        return 'crash AssertionError'
    except Exception as e:  # noqa
        return 'crash ' + type(e).__name__


def pn53x_command(cmd, data, response):
    cs = PnChipset()
    cs.transport.queue.append(nfc.clf.pn53x.Chipset.ACK)
    if response is not None:
        cs.transport.queue.append(response)
    r = classify(lambda: cs.command(cmd, bytearray(data), 0.1))
    return (cs.transport.written[0] if cs.transport.written else b''), r


def acr_chipset():
    cs = object.__new__(nfc.clf.acr122.Chipset)
    cs.transport = FakeTransport()
    cs.CMD = AnyName()
    return cs


def acr_command(cmd, data, response):
    cs = acr_chipset()
    if response is not None:
        cs.transport.queue.append(response)
    r = classify(lambda: cs.command(cmd, bytearray(data), 0.1))
    return (cs.transport.written[0] if cs.transport.written else b''), r


def hexarg(b):
    return hx(b) if len(b) else '-'


def main():
    ck = Check('C14')
    ck.trusted = ['Coq 8.16.1 kernel; vm_compute for the 65536-value CRC register sweep; no native_compute',
                  'translate/py2coq.py (kernel translator for clf/device.py CRC functions) and translate/kspec_c14.py (cuts the frame construction statements out of pn53x/acr122/rcs380)',
                  'extraction: ExtrOcamlBasic only; extract/modelrun.ml driver; OCaml 4.13.1',
                  'correspondence harness harness/prop/c14.py with fake transports']
    ck.assumptions = ['Chipset.command is modelled from the point where a non-ACK frame has been read; ACK '
                      'handshake, timeouts and transport I/O errors are exercised by the harness only',
                      'RC-S380 response frames are not validated by the code (no checksum check); only the '
                      'command frame construction is in the model, as the property states']
    ck.coq(gen=['Crc', 'FramesK', 'CrcPathK'], targets=['Proofs/CrcCheck.vo', 'Proofs/Frames2.vo', 'Bridge/Crc.vo', 'Bridge/FramesK.vo', 'Bridge/FramesP.vo', 'Bridge/FramesA.vo', 'Proofs/CrcPath.vo', 'Bridge/CrcPathK.vo'], props='C14')
    mr = ck.model()
    rng = ck.rng
    quick = ck.tier == 'quick'
    if mr is None:
        ck.finish()

    # ------------------------------------------------------------------ cases
    D = nfc.clf.device.Device
    lines, expect = [], []

    def add(line, impl, kind, canon, nontrivial, sample=None):
        lines.append(line)
        expect.append((impl, kind, canon))
        ck.case(canon, nontrivial, sample)
        ck.count(kind)

    # CRC: exhaustive <= 1 byte (quick) / <= 2 bytes (thorough), random longer
    msgs = [b''] + [bytes([a]) for a in range(256)]
    if not quick:
        msgs += [bytes([a, b]) for a in range(256) for b in range(256)]
    else:
        msgs += [bytes([rng.randrange(256), rng.randrange(256)]) for _ in range(2000)]
    for _ in range(1500 if quick else 20000):
        n = rng.choice([2, 3, 4, 7, 8, 16, 17, 63, 64, 255, 256, rng.randrange(1, 300)])
        msgs.append(bytes(rng.randrange(256) for _ in range(n)))
    for m in msgs:
        # the caller's buffer must come back unchanged (drivers and tag code retransmit from the same bytearray), so
        # a second call on the same buffer must give the same frame
        buf_a, buf_b = bytearray(m), bytearray(m)
        a = bytes(D.add_crc_a(buf_a))
        b = bytes(D.add_crc_b(buf_b))
        if bytes(buf_a) != m or bytes(buf_b) != m or bytes(D.add_crc_a(buf_a)) != a or bytes(D.add_crc_b(buf_b)) != b:
            ck.violation('crc-add-mutates-argument', 'add_crc_a/add_crc_b changed the caller\'s buffer: a retransmission from the same '
                         'bytearray is sent with the CRC appended twice', {'msg': hx(m), 'buf_a_after': hx(bytes(buf_a)), 'buf_b_after': hx(bytes(buf_b))})
            break
        add('add_crc_a ' + hexarg(m), hexarg(a), 'crc-add', ('a', m), len(m) > 0)
        add('add_crc_b ' + hexarg(m), hexarg(b), 'crc-add', ('b', m), len(m) > 0)
        # monitor against the independent bit-serial definition
        ra = crc_bitserial(m, 0x6363)
        rb = (~crc_bitserial(m, 0xFFFF)) & 0xFFFF
        if a != m + bytes([ra & 255, ra >> 8]) or b != m + bytes([rb & 255, rb >> 8]):
            ck.violation('crc-value', 'CRC_A/CRC_B differs from the ISO/IEC 14443-3 definition', {'msg': hx(m), 'a': hx(a), 'b': hx(b)})
        # check: right CRC accepted, every single-bit corruption of a short frame and random corruptions rejected
        for good, fn, name in ((a, D.check_crc_a, 'check_crc_a'), (b, D.check_crc_b, 'check_crc_b')):
            frames = [good]
            if len(good) <= 4:
                frames += [bytes(good[:i] + bytes([good[i] ^ (1 << k)]) + good[i + 1:]) for i in range(len(good)) for k in range(8)]
            else:
                for _ in range(3):
                    i = rng.randrange(len(good))
                    frames.append(good[:i] + bytes([good[i] ^ (1 << rng.randrange(8))]) + good[i + 1:])
            for fr in frames:
                try:
                    r = 'ok ' + ('true' if fn(bytearray(fr)) else 'false')
                except IndexError:
                    r = 'crash IndexError'
                add(name + ' ' + hexarg(fr), r, 'crc-check', (name, fr), fr != good)
                ref = crc_bitserial(fr[:-2], 0x6363) if name.endswith('a') else (~crc_bitserial(fr[:-2], 0xFFFF)) & 0xFFFF
                should = fr[-2:] == bytes([ref & 255, ref >> 8])
                if r == 'ok true' and not should:
                    ck.violation('crc-accept-wrong', 'frame with wrong CRC accepted by ' + name, {'frame': hx(fr)})
                if r == 'ok false' and should:
                    ck.violation('crc-reject-right', 'frame with right CRC rejected by ' + name, {'frame': hx(fr)})
    for short in (b'', b'\x01'):
        for name, fn in (('check_crc_a', D.check_crc_a), ('check_crc_b', D.check_crc_b)):
            try:
                r = 'ok ' + ('true' if fn(bytearray(short)) else 'false')
            except IndexError:
                r = 'crash IndexError'
            add(name + ' ' + hexarg(short), r, 'crc-check-short', (name, short), False)

    # PN53x command frames: all lengths 0..263 (both sides of 254/255), all command codes sampled
    lens = list(range(0, 264)) if not quick else sorted(set(list(range(0, 12)) + list(range(240, 264)) + [rng.randrange(12, 240) for _ in range(40)]))
    for n in lens:
        for _ in range(1 if quick else 3):
            cmd = rng.choice([0x00, 0x02, 0x40, 0x42, 0x4A, 0x56, 0x86, 0x8C, 0xFE, rng.randrange(256)])
            data = bytes(rng.randrange(256) for _ in range(n))
            written, _r = pn53x_command(cmd, data, None)
            add('pn53x_build %d %s' % (cmd, hexarg(data)), hexarg(written), 'pn53x-build', ('pb', cmd, data), True,
                {'kind': 'pn53x command frame', 'cmd': cmd, 'len': n, 'frame': hx(written)[:60]})
            body = frame_valid(written)
            ext = written[3:5] == b'\xff\xff'
            if body != bytes([0xD4, cmd]) + data or written[-1] != 0 or ext != (n + 2 > 255):
                ck.violation('pn53x-build-malformed', 'PN53x command frame is not well formed', {'cmd': cmd, 'data': hx(data), 'frame': hx(written)})

    # PN53x responses: valid, bit flips, truncations, extensions, substitutions
    def response_frame(cmd, d):
        body = bytes([0xD5, (cmd + 1) & 255]) + d
        n = len(body)
        if n < 255:
            head = b'\x00\x00\xff' + bytes([n, (256 - n) & 255])
        else:
            head = b'\x00\x00\xff\xff\xff' + bytes([n >> 8, n & 255, (256 - (n >> 8) - (n & 255)) & 255])
        return head + body + bytes([(256 - sum(body)) & 255, 0])

    def feed(cmd, fr, kind, nontrivial):
        _w, r = pn53x_command(cmd, b'', fr)
        add('pn53x_parse %d %s' % (cmd, hexarg(fr)), r, kind, ('pp', cmd, bytes(fr)), nontrivial,
            {'kind': kind, 'cmd': cmd, 'frame': hx(fr)[:60], 'result': r[:40]})
        if r.startswith('ok'):
            body = frame_valid(fr)
            got = bytes.fromhex(r[3:]) if r[3:] != '-' else b''
            if body is None or body != bytes([0xD5, cmd + 1]) + got:
                if not (cmd == 42 and body == b'\xd5'):
                    ck.violation('pn53x-accept-invalid', 'PN53x response accepted although framing/checksum/TFI/code invalid',
                                 {'cmd': cmd, 'frame': hx(fr), 'returned': r})
        elif r.startswith('crash'):
            ck.violation('pn53x-parse-crash:' + r.split()[1], 'corrupted PN53x response raises %s instead of IOError' % r.split()[1],
                         {'cmd': cmd, 'frame': hx(fr), 'result': r})

    # corpus of minimised past failures first
    for fr in (b'\x00\x00\xff', b'\x00\x00\xff\xff\xff', b'\x00\x00\xff\xff\xff\x00', b'\x00\x00\xff\x00',
               bytes.fromhex('0000ff02fed5032701'), bytes.fromhex('0000ff01ffd52b00'), bytes.fromhex('0000ff0000d52b')):
        feed(0x02, fr, 'pn53x-corpus', True)
    feed(42, bytes.fromhex('0000ff01ffd52b00'), 'pn53x-corpus', True)
    nresp = 60 if quick else 600
    for _ in range(nresp):
        cmd = rng.choice([0x02, 0x40, 0x42, 0x4A, 0x86, rng.randrange(0, 255)])
        n = rng.choice([0, 1, 2, 3, 10, 250, 251, 252, 253, 254, 255, 262, rng.randrange(0, 263)])
        d = bytes(rng.randrange(256) for _ in range(n))
        good = response_frame(cmd, d)
        feed(cmd, good, 'pn53x-valid', True)
        muts = []
        if len(good) <= 16 or not quick:
            muts += [good[:i] + bytes([good[i] ^ (1 << k)]) + good[i + 1:] for i in range(min(len(good), 40)) for k in range(8)]
        else:
            muts += [good[:i] + bytes([good[i] ^ (1 << rng.randrange(8))]) + good[i + 1:] for i in list(range(10)) + [len(good) - 1, len(good) - 2, len(good) - 3]]
        muts += [good[:k] for k in range(0, min(len(good), 14))] + [good[:-1], good[:-2]]
        muts += [good + bytes(rng.randrange(256) for _ in range(k)) for k in (1, 2, 3)]
        for _ in range(6):
            i = rng.randrange(len(good))
            k = rng.randrange(1, 4)
            muts.append(good[:i] + bytes(rng.randrange(256) for _ in range(k)) + good[i + k:])
        # compensating checksum/postamble pair (the defect repaired by the fix commit)
        muts.append(good[:-2] + bytes([(good[-2] + 1) & 255, 255]))
        for m in muts:
            feed(cmd, m, 'pn53x-mutated', True)
    # exhaustive short frames after the start code
    for a in range(256):
        feed(0x02, b'\x00\x00\xff' + bytes([a]), 'pn53x-short', True)
        feed(0x02, b'\x00\x00\xff\xff\xff' + bytes([a]), 'pn53x-short', True)

    # ACR122
    for n in (list(range(0, 256)) if not quick else [0, 1, 2, 100, 251, 252, 253, 254, 255]):
        cmd = rng.choice([0x02, 0x42, 0x4A])
        data = bytes(rng.randrange(256) for _ in range(n))
        written, r = acr_command(cmd, data, None)
        if n <= 253:
            add('acr122_build %d %s' % (cmd, hexarg(data)), 'ok ' + hexarg(written), 'acr122-build', ('ab', cmd, data), True)
            ok = (len(written) == 15 + 2 + n and written[0] == 0x6F and int.from_bytes(written[1:5], 'little') == len(written) - 10 and
                  written[5:10] == bytes(5) and written[10:14] == b'\xff\x00\x00\x00' and written[14] == n + 2 and
                  written[15:] == bytes([0xD4, cmd]) + data)
            if not ok:
                ck.violation('acr122-build-malformed', 'ACR122 command envelope is not well formed', {'cmd': cmd, 'data': hx(data), 'frame': hx(written)})
        else:
            add('acr122_build %d %s' % (cmd, hexarg(data)), r, 'acr122-build-oversize', ('ab', cmd, data), False)
    for _ in range(40 if quick else 400):
        cmd = rng.choice([0x02, 0x42, 0x4A, rng.randrange(255)])
        d = bytes(rng.randrange(256) for _ in range(rng.choice([0, 1, 2, 5, 40])))
        apdu = bytes([0xD5, cmd + 1]) + d + b'\x90\x00'
        good = b'\x80' + len(apdu).to_bytes(4, 'little') + bytes(5) + apdu
        muts = [good] + [good[:i] + bytes([good[i] ^ (1 << rng.randrange(8))]) + good[i + 1:] for i in range(len(good))]
        muts += [good[:k] for k in range(len(good))] + [good + b'\x00', good + b'\x90\x00']
        for m in muts:
            _w, r = acr_command(cmd, b'', m)
            add('acr122_parse %d %s' % (cmd, hexarg(m)), r, 'acr122-parse', ('ap', cmd, m), m != good)
            if r.startswith('crash'):
                ck.violation('acr122-parse-crash:' + r.split()[1], 'corrupted ACR122 response raises %s' % r.split()[1], {'frame': hx(m)})
            if r.startswith('ok'):
                got = bytes.fromhex(r[3:]) if r[3:] != '-' else b''
                pay = m[10:]
                if not (len(m) >= 10 and m[0] == 0x80 and int.from_bytes(m[1:5], 'little') == len(pay) and
                        pay == bytes([0xD5, cmd + 1]) + got + b'\x90\x00'):
                    ck.violation('acr122-accept-invalid', 'ACR122 response accepted although invalid', {'frame': hx(m), 'r': r})

    # RC-S380 command frames
    for n in (list(range(0, 300)) if not quick else [0, 1, 2, 254, 255, 256, 257, 290]):
        data = bytes(rng.randrange(256) for _ in range(n))
        fr = bytes(nfc.clf.rcs380.Frame(bytearray(data)))
        add('rcs380_build ' + hexarg(data), hexarg(fr), 'rcs380-build', ('rb', data), True)
        ok = (fr[:5] == b'\x00\x00\xff\xff\xff' and fr[5] + 256 * fr[6] == n and (fr[5] + fr[6] + fr[7]) % 256 == 0 and
              fr[8:8 + n] == data and (sum(data) + fr[8 + n]) % 256 == 0 and fr[9 + n:] == b'\x00')
        if not ok:
            ck.violation('rcs380-build-malformed', 'RC-S380 command frame is not well formed', {'data': hx(data), 'frame': hx(fr)})

    # ------------------------------------------------------------------ who verifies CRC_A (PN53x family, Type A targets)
    # register-level fake chipset: RxCRCEn (CIU_RxMode bit 7) set -> the chip checks and strips CRC_A (CRC error =
    # chip error 02h), cleared -> the raw frame is handed over.  Every driver class x every SEL_RES x good/corrupted.
    import logging
    import nfc.clf.pn53x as PX
    drivers = []
    for mod in ('pn531', 'pn532', 'pn533', 'rcs956', 'acr122', 'arygon'):
        try:
            m_ = __import__('nfc.clf.' + mod, fromlist=['Device'])
            if issubclass(m_.Device, PX.Device):
                drivers.append((mod, m_.Device))
        except Exception:   # noqa (a driver module that cannot be imported here is not covered)
            pass

    class FakeChip(object):
        Error = PX.Chipset.Error
        in_list_passive_target_brty_range = (0, 1, 2, 3, 4)

        def __init__(self, sel, rf, rxmode0):
            self.reg = {'CIU_RxMode': rxmode0}
            self.sel, self.rf = sel, rf

        def read_register(self, *names):
            vals = [self.reg.get(n, 0) for n in names]
            return vals if len(vals) > 1 else vals[0]

        def write_register(self, *args):
            if len(args) == 2 and isinstance(args[0], str):
                args = (args,)
            for n_, v_ in args:
                self.reg[n_] = v_

        def rf_configuration(self, *a):
            pass

        def in_list_passive_target(self, max_tg, brty, uid):
            return bytearray([0x44, 0x00, self.sel, 4, 1, 2, 3, 4])

        def in_communicate_thru(self, data, timeout):
            if self.reg['CIU_RxMode'] & 0x80:
                ref = crc_bitserial(self.rf[:-2], 0x6363)
                if self.rf[-2:] != bytes([ref & 255, ref >> 8]):
                    raise PX.Chipset.Error(0x02, 'CRC error')
                return bytearray(self.rf[:-2])
            return bytearray(self.rf)

    def type_a_exchange(cls, sel, rf, rxmode0):
        d = object.__new__(cls)
        d.chipset = FakeChip(sel, rf, rxmode0)
        d.log = logging.getLogger('c14.fake')
        try:
            t = d.sense_tta(nfc.clf.RemoteTarget('106A'))
            return 'ok ' + hexarg(bytes(d.send_cmd_recv_rsp(t, b'\x30\x00', 0.1)))
        except nfc.clf.TransmissionError:
            return 'err TransmissionError'
        except nfc.clf.TimeoutError:
            return 'err TimeoutError'
        except (IndexError, TypeError, ValueError, AttributeError, AssertionError) as e:
            return 'crash ' + type(e).__name__

    sels = list(range(256)) if not quick else sorted(set([0x00, 0x04, 0x08, 0x09, 0x18, 0x20, 0x28, 0x40, 0x60, 0x88, 0xFF] +
                                                         [rng.randrange(256) for _ in range(24)]))
    for mod, cls in drivers:
        for sel in sels:
            for n in ((1, 4, 16) if quick else (1, 2, 4, 16, 18, 64)):
                payload = bytes(rng.randrange(256) for _ in range(n))
                ref = crc_bitserial(payload, 0x6363)
                good = payload + bytes([ref & 255, ref >> 8])
                i = rng.randrange(len(good))
                frames = [good, good[:i] + bytes([good[i] ^ (1 << rng.randrange(8))]) + good[i + 1:],
                          payload + bytes([rng.randrange(256), rng.randrange(256)])]
                for rf in frames:
                    rxmode0 = rng.choice([0x80, 0x88, 0x8A, 0xFF])
                    r = type_a_exchange(cls, sel, rf, rxmode0)
                    add('type_a_rsp %s %d %s' % (hexarg(bytes([sel])), rxmode0, hexarg(rf)), r, 'type-a-crc:' + mod, ('ta', mod, sel, rf), rf != good)
                    rr = crc_bitserial(rf[:-2], 0x6363)
                    right = rf[-2:] == bytes([rr & 255, rr >> 8])
                    if r.startswith('ok') and not (right and r == 'ok ' + hexarg(rf[:-2])):
                        ck.violation('type-a-crc-not-verified:' + mod, 'a Type A response with a wrong CRC_A (or with the CRC still attached) is returned '
                                     'as data: neither the chip (RxCRCEn cleared by sense_tta) nor the driver verified it',
                                     {'driver': mod, 'sel_res': '%02x' % sel, 'rf_frame': hx(rf), 'returned': r})
                    if right and not r.startswith('ok'):
                        ck.violation('type-a-crc-good-rejected:' + mod, 'a Type A response with the right CRC_A is not returned', 
                                     {'driver': mod, 'sel_res': '%02x' % sel, 'rf_frame': hx(rf), 'result': r})

    # ------------------------------------------------------------------ every frame of whole driver sessions
    # The property speaks of EVERY frame a driver writes, not only those built by Chipset.command: the real drivers are
    # initialised (init() where it exists), used and closed on the host-link fakes of harness/sim/chipsets.py (the
    # C13 builder's simulators, used read-only); every transport write is recorded at class level and validated
    # independently; pn532.init() is also run over a serial line for each baud rate `stty` may accept.
    import os as _os
    from sim import chipsets as _cs
    from sim import c13_world as _W
    session_log = []
    _orig_writes = {}

    def _rec(cls):
        orig = cls.write
        _orig_writes[cls] = orig

        def w(self, frame):
            session_log.append(bytes(frame))
            return orig(self, frame)
        cls.write = w
    for _c in (_cs.Pn53xSim, _cs.Acr122Sim, _cs.Rcs380Sim):
        _rec(_c)

    def pn_ok(f):
        if f.lstrip(b'\x00') == b'\xff\x00\xff\x00'[0:4].lstrip(b'\x00') or f.lstrip(b'\x00') == b'\xff\x00\xff\x00':
            return True                                  # ACK (any preamble length)
        g = b'\x00\x00' + f.lstrip(b'\x00')
        body = frame_valid(g)
        return body is not None and len(body) >= 2 and body[0] == 0xD4

    def rcs_ok(f):
        if f == b'\x00\x00\xff\x00\xff\x00':
            return True
        if len(f) < 11 or f[:5] != b'\x00\x00\xff\xff\xff':
            return False
        n = f[5] + 256 * f[6]
        return ((f[5] + f[6] + f[7]) % 256 == 0 and len(f) == n + 10 and (sum(f[8:8 + n]) + f[8 + n]) % 256 == 0
                and f[9 + n:] == b'\x00' and n >= 2 and f[8] == 0xD6)

    def acr_ok(f):
        if len(f) < 10 or int.from_bytes(f[1:5], 'little') != len(f) - 10:
            return False                                 # CCID header: bMessageType, dwLength (LE), 5 more bytes
        apdu = f[10:]
        if f[0] == 0x6F and apdu[:4] == b'\xff\x00\x00\x00':  # pseudo APDU carrying a PN532 command
            return len(apdu) >= 7 and apdu[4] == len(apdu) - 5 and apdu[5] == 0xD4
        return True

    def session(label, make):
        del session_log[:]
        try:
            w_ = make()
        except Exception as e:   # noqa  (a driver that cannot be initialised on the fake is reported by C13, not here)
            ck.count('session-not-started:' + label)
            return
        try:
            w_.activate()
            try:
                w_.clf.sense(nfc.clf.RemoteTarget('106A'), nfc.clf.RemoteTarget('212F'), nfc.clf.RemoteTarget('106B'), iterations=1)
            except Exception:   # noqa
                pass
            try:
                w_.clf.close()
            except Exception:   # noqa
                pass
        finally:
            pass
        return w_

    def judge(label, ok, sim, arygon=False):
        frames = list(session_log)
        for f in frames:
            g = f
            if arygon:
                if g[:1] == b'0' and all(32 <= c < 127 for c in g):
                    continue          # ASCII command to the Arygon microcontroller ('0av', '0au' ...), not a PN53x frame
                if g[:1] != b'2':
                    ck.violation('session-frame-malformed:' + label, 'driver wrote a frame without the Arygon protocol byte', {'driver': label, 'frame': hx(f)})
                    continue
                g = g[1:]
            good = ok(g)
            ck.case(('session', label, g), True, None)
            ck.count('session-frame:' + label)
            if not good:
                ck.violation('session-frame-malformed:' + label, 'a frame written by the driver during init/use/close is not well formed',
                             {'driver': label, 'frame': hx(f), 'frames_of_the_session': [hx(x) for x in frames][-12:]})
        # (the simulator strips the Arygon protocol byte before it records, so its list is only used for the other drivers)
        bad = [] if (arygon or sim is None) else list(sim.bad_commands)
        if bad:
            ck.violation('session-frame-malformed:' + label, 'the chip simulator could not parse a frame written by the driver',
                         {'driver': label, 'frame': hx(bad[0])})

    try:
        for drv in [d for d in _W.DRIVERS if d != 'udp']:
            for layer in ('api', 'phys'):
                w_ = session(drv + '/' + layer, lambda: _W.World(drv, layer))
                if w_ is None:
                    continue
                judge(drv, acr_ok if drv == 'acr122' else rcs_ok if drv == 'rcs380' else pn_ok, w_.sim, arygon=drv.startswith('arygon'))
        import nfc.clf.pn532 as _p532
        real_system = _os.system
        for ok_baud in (921600, 460800, 230400, 115200):
            del session_log[:]
            clock = _cs.VClock()
            _cs.install_clock(clock, _W.DRIVER_MODULES)
            sim = _cs.Pn53xSim('pn532', clock, tty=True)
            sim.TYPE, sim.port = 'TTY', '/dev/ttyS9'
            _os.system = lambda cmd, ok_baud=ok_baud: 0 if int(cmd.split()[3]) <= ok_baud else 1
            try:
                dev = _p532.init(sim)
                dev.close()
            except IOError as e:
                ck.count('pn532-init-ioerror:%d' % ok_baud)
                if sim.bad_commands:
                    pass
            finally:
                _os.system = real_system
            judge('pn532-init-%d' % ok_baud, pn_ok, sim)
    finally:
        for cls, orig in _orig_writes.items():
            cls.write = orig

    # ------------------------------------------------------------------ model run + compare
    out = mr.run(lines)
    nmis = 0
    for line, (impl, kind, canon), got in zip(lines, expect, out):
        if got != impl:
            nmis += 1
            if nmis <= 5:
                ck.correspondence_mismatch(kind, {'input': line[:200], 'impl': impl[:200], 'model': got[:200]})
    ck.cov['traces_validated_against_impl'] = len(lines) - nmis
    ck.finish(level='proof',
              rule='CRC: messages (exhaustive <=1 byte quick / <=2 bytes thorough, random up to 300) with every single-bit '
                   'corruption of short frames; PN53x/ACR122/RC-S380 command frames for lengths around the 254/255 switch; '
                   'response frames: valid, bit flips, truncations, extensions, substitutions. non-trivial = exercises a '
                   'checksum/length/format decision (anything but the empty message); distinct by hash of the case',
              explanation='theorems over all inputs for the model + bridge lemmas over regenerated CRC kernels + '
                          'differential run of the real framing code against the extracted model')


if __name__ == '__main__':
    main()
